(* Bridge.v — connecting the pieces of the development that are proved separately.

   A. The concurrent model (Conc.v) at quiescence IS a well-formed sequential ThreadedRodeo:
      [trodeo_of c] satisfies [TInv] with the content the key -> string map holds
      ([quiescent_is_TInv]), so every sequential theorem about views, serialisation, equality
      and iteration applies to interners "populated concurrently".
   B. One thread running a call alone from a quiescent state ([run_solo]: dispatch, then step
      with no spurious failure until the thread is idle again) performs EXACTLY the sequential
      model's call: [solo_call] gives [trodeo_of (run_solo c tid fuel) = fst (seq_call (trodeo_of c) cl)]
      (both maps, the counter and the arena with its block identities are equal, not merely
      related), the recorded answer is [snd (seq_call ...)], no lock is left, the state is
      quiescent again; for all six calls ([solo_intern] is the try_get_or_intern instance).
      No corner differs: the 100-try budget of try_inc_length is never consumed (a solo CAS
      succeeds at the first try), and the small-step growth path takes the same branches as
      [grow lf_place true] ([phase_grow]), the first-fit walk the same bucket as [lf_first_fit]
      ([phase_walk]).  [solo_call_from_init] combines A and B.
   C. The key-ordered listing of a ThreadedRodeo is the enumerated content
      ([t_pairs_enumerate]); serialisation and the serde round trip on top of it.
   D. [Extend] / [FromIter] at world level are loops of [InternP] that stop at the first panic. *)
From Lasso Require Import Base Arena ArenaProofs Rodeo RodeoInv RodeoProofs ThreadedInv
  CloneSerdeProofs ThreadedProofs IterEqProofs WorldProofs
  Conc ConcInv ConcArenaProofs ConcInternProofs ConcTheorems.
From Coq Require Import Permutation Sorted.

#[local] Arguments DOk {A} a.
#[local] Arguments DErr {A}.
#[local] Arguments DPanic {A}.

(* ====================================================================================== *)
(* A. quiescent concurrent state = sequential ThreadedRodeo                                *)
(* ====================================================================================== *)

Definition trodeo_of (c : cstate) : trodeo :=
  mkT (map (fun e => (e_ref e, e_key e)) (c_map c))
      (map (fun e => (e_key e, e_ref e)) (c_strs c))
      (c_key c) (as_arena c).

Lemma flat_map_nil_all {A B} (f : A -> list B) l :
  (forall x, In x l -> f x = []) -> flat_map f l = [].
Proof.
  induction l as [|x l IH]; simpl; auto. intros H. rewrite (H x) by auto. apply IH. auto.
Qed.

Lemma quiescent_no_inflight c : quiescent c -> inflight_blocks c = [].
Proof.
  intros Hq. unfold quiescent in Hq. rewrite Forall_forall in Hq.
  unfold inflight_blocks. apply flat_map_nil_all. intros t Ht.
  unfold inflight_block. now rewrite (Hq t Ht).
Qed.

Lemma quiescent_all_blocks c : quiescent c -> all_blocks c = c_blocks c.
Proof. intros Hq. unfold all_blocks. rewrite (quiescent_no_inflight c Hq). apply app_nil_r. Qed.

Lemma quiescent_tregions c : quiescent c -> tregions (c_threads c) = [].
Proof.
  intros Hq. unfold quiescent in Hq. rewrite Forall_forall in Hq.
  unfold tregions. apply flat_map_nil_all. intros t Ht.
  unfold thread_regions. now rewrite (Hq t Ht).
Qed.

(* the arena of a quiescent state is a well-formed sequential arena *)
Lemma quiescent_ArenaInv c : AInv c -> quiescent c -> ArenaInv (as_arena c).
Proof.
  intros HA Hq. pose proof (quiescent_all_blocks c Hq) as Hall.
  unfold ArenaInv, as_arena; cbn [blocks bucket_cap usage limit next_bid].
  split; [apply HA|]. split; [rewrite <- Hall; apply HA|].
  split; [rewrite <- Hall; apply HA|]. split; [rewrite <- Hall; apply HA|].
  split; [|apply HA].
  now apply C09_accounting_quiescent.
Qed.

(* region disjointness of the key -> string entries is reference disjointness *)
Lemma sregions_refs_disjoint l :
  ForallOrdPairs region_disjoint (sregions l) -> ForallOrdPairs refs_disjoint (map e_ref l).
Proof.
  induction l as [|e l IH]; cbn [sregions flat_map map]; intros H; [constructor|].
  fold (sregions l) in H. apply FOP_app in H as (_ & H2 & H3).
  constructor; [|apply IH; exact H2].
  rewrite Forall_forall. intros r Hr. apply in_map_iff in Hr as (e' & <- & He').
  destruct (e_ref e) as [|a0 s0|b o n] eqn:E1; cbn [refs_disjoint]; auto.
  destruct (e_ref e') as [|a1 s1|b' o' n'] eqn:E2; auto.
  assert (Hd : region_disjoint (mkRegion b o n (e_str e) true) (mkRegion b' o' n' (e_str e') true)).
  { apply H3.
    - cbn [region_of_ref]. now left.
    - unfold sregions. apply in_flat_map. exists e'. split; auto. rewrite E2. now left. }
  exact Hd.
Qed.

Lemma strs_ok_of_entries c :
  AInv c -> NoDup (strs_of (c_strs c)) -> quiescent c ->
  strs_ok (map e_ref (c_strs c)) (as_arena c) (map e_str (c_strs c)).
Proof.
  intros HA Hnd Hq.
  pose proof (ai_strs_denote _ HA) as Hden. rewrite Forall_forall in Hden.
  split; [|split; [|split]].
  - rewrite Forall_forall. intros r Hr. apply in_map_iff in Hr as (e & <- & He).
    apply (Hden e He).
  - apply sregions_refs_disjoint. pose proof (ai_disjoint _ HA) as Hd.
    rewrite regions_split in Hd. apply FOP_app in Hd as (Hd & _). exact Hd.
  - apply contents_map_iff. rewrite Forall_forall. intros e He. apply (Hden e He).
  - exact Hnd.
Qed.

Section Quiescent.
  Variable shard_of : str -> N.
  Variable keycap : N.

  Notation JInv' := (JInv' shard_of keycap).
  Notation TInv := (TInv keycap).

  (* the core statement, on the two invariants *)
  Theorem quiescent_TInv c :
    AInv c -> JInv' c -> quiescent c ->
    exists cs, TInv (trodeo_of c) cs /\
      (forall k s, nth_error cs (N.to_nat k) = Some s <->
                   exists e, In e (c_strs c) /\ e_key e = k /\ e_str e = s).
  Proof.
    intros HA HJ' Hq. pose proof HJ' as [HJ _].
    destruct (C03_dense_when_quiescent shard_of keycap c HJ' Hq) as (_ & Hsame & Hrange & Hndk & Hlen).
    (* the entries sorted by key *)
    assert (Hperm : Permutation (keys_of (c_strs c)) (map N.of_nat (seq 0 (length (keys_of (c_strs c)))))).
    { apply dense_keys_perm; auto. intros k Hk. apply Hrange in Hk.
      unfold keys_of. rewrite map_length. lia. }
    unfold keys_of in Hperm. rewrite map_length in Hperm.
    destruct (Permutation_map_inv e_key _ (Permutation_sym Hperm)) as (l3 & Hsorted & Hp3).
    pose proof (strs_ok_of_entries c HA (ji_strs_strs_nodup _ _ _ HJ) Hq) as Hs.
    assert (Hlook : forall {B} (g : entry -> B) k b,
              In (k, b) (map (fun x => (e_key x, g x)) (c_strs c)) <->
              nth_error (map g l3) (N.to_nat k) = Some b).
    { intros B g k b. rewrite (perm_in_iff (fun x => (e_key x, g x)) _ l3 (k, b) Hp3).
      eapply sorted_lookup. symmetry. exact Hsorted. }
    exists (map e_str l3). split.
    - split; [now apply quiescent_ArenaInv|]. exists (map e_ref l3).
      unfold trodeo_of; cbn [tar tstrs tmap tkey].
      split; [eapply strs_ok_perm; eauto|].
      split; [rewrite map_map; cbn [fst]; exact Hndk|].
      split; [intros k r; apply Hlook|].
      split; [rewrite map_map; cbn [snd]; apply (ji_map_keys_nodup _ _ _ HJ)|].
      split.
      + intros r k. rewrite !in_map_iff.
        split; intros (e & Heq & He); exists e; (split; [|apply Hsame; exact He]);
          injection Heq as <- <-; reflexivity.
      + rewrite map_length, <- (Permutation_length Hp3). exact Hlen.
    - intros k s. rewrite <- Hlook, in_map_iff.
      split.
      + intros (e & Heq & He). injection Heq as <- <-. eauto.
      + intros (e & He & <- & <-). eauto.
  Qed.

  Section FromInit.
    Variables cap lim : N.
    Variable progs : list (list call).
    Hypothesis cap_pos : 0 < cap.

    Theorem quiescent_is_TInv c :
      reachable shard_of keycap (init cap lim progs) c -> quiescent c ->
      exists cs, TInv (trodeo_of c) cs /\
        (forall k s, nth_error cs (N.to_nat k) = Some s <->
                     exists e, In e (c_strs c) /\ e_key e = k /\ e_str e = s).
    Proof.
      intros Hr Hq.
      destruct (reachable_invariants shard_of keycap cap lim progs cap_pos c Hr) as (HA & HJ & _).
      now apply quiescent_TInv.
    Qed.

    (* the corollaries: every sequential theorem with premise TInv / obj_inv applies *)
    Corollary quiescent_into_reader hash cand growf c :
      reachable shard_of keycap (init cap lim progs) c -> quiescent c ->
      exists cs r, TInv (trodeo_of c) cs /\
        t_into_reader hash cand growf (trodeo_of c) = Some r /\ RodeoInv hash keycap r cs /\
        rar r = as_arena c /\ t_strings (trodeo_of c) = Some (rstrs r).
    Proof.
      intros Hr Hq. destruct (quiescent_is_TInv c Hr Hq) as (cs & HT & _).
      destruct (t_into_reader_inv hash cand growf keycap (trodeo_of c) cs HT) as (r & H1 & H2 & H3 & H4).
      exists cs, r. auto.
    Qed.

    Corollary quiescent_strings c :
      reachable shard_of keycap (init cap lim progs) c -> quiescent c ->
      exists cs refs, TInv (trodeo_of c) cs /\
        t_strings (trodeo_of c) = Some refs /\ strs_ok refs (as_arena c) cs.
    Proof.
      intros Hr Hq. destruct (quiescent_is_TInv c Hr Hq) as (cs & HT & _).
      destruct (t_strings_inv keycap _ _ HT) as (refs & H1 & H2). exists cs, refs. auto.
    Qed.

    Corollary quiescent_obj_inv hash c :
      reachable shard_of keycap (init cap lim progs) c -> quiescent c ->
      exists cs, obj_inv hash keycap (OThreaded (trodeo_of c)) cs.
    Proof.
      intros Hr Hq. destruct (quiescent_is_TInv c Hr Hq) as (cs & HT & _).
      exists cs. exact HT.
    Qed.
  End FromInit.
End Quiescent.

(* ====================================================================================== *)
(* C. the key-ordered listing of a ThreadedRodeo                                           *)
(* ====================================================================================== *)

(* the insertion step of [insertion_sort_keys], named *)
Definition ins_key (e : N * sref) : list (N * sref) -> list (N * sref) :=
  fix ins (l : list (N * sref)) :=
    match l with
    | [] => [e]
    | x :: t => if fst e <=? fst x then e :: x :: t else x :: ins t
    end.

Lemma ins_key_nil e : ins_key e [] = [e].
Proof. reflexivity. Qed.

Lemma ins_key_cons e x t :
  ins_key e (x :: t) = if fst e <=? fst x then e :: x :: t else x :: ins_key e t.
Proof. reflexivity. Qed.

Lemma insertion_sort_keys_fold l : insertion_sort_keys l = fold_right ins_key [] l.
Proof. reflexivity. Qed.

Definition klt {B} (x y : N * B) : Prop := fst x < fst y.

Lemma ins_key_in e l x : In x (ins_key e l) <-> x = e \/ In x l.
Proof.
  induction l as [|y l IH]; cbn [ins_key].
  - simpl. split; [intros [H|[]]; auto|intros [H|[]]; auto].
  - destruct (fst e <=? fst y).
    + simpl. split; [intros [H|H]; auto|intros [H|H]; auto].
    + simpl. rewrite IH. tauto.
Qed.

Lemma ins_key_perm e l : Permutation (e :: l) (ins_key e l).
Proof.
  induction l as [|y l IH]; cbn [ins_key]; [apply Permutation_refl|].
  destruct (fst e <=? fst y); [apply Permutation_refl|].
  eapply Permutation_trans; [apply perm_swap|]. now apply perm_skip.
Qed.

Lemma ins_key_sorted e l :
  StronglySorted klt l -> (forall x, In x l -> fst x <> fst e) -> StronglySorted klt (ins_key e l).
Proof.
  induction l as [|y l IH]; intros Hs Hne; cbn [ins_key].
  - constructor; constructor.
  - inversion Hs as [|? ? Hs' Hy]; subst.
    assert (Hye : fst y <> fst e) by (apply Hne; now left).
    destruct (fst e <=? fst y) eqn:E; [apply N.leb_le in E|apply N.leb_gt in E].
    + constructor; [exact Hs|]. rewrite Forall_forall in *. intros x [<-|Hx]; unfold klt in *; [lia|].
      specialize (Hy x Hx). lia.
    + constructor.
      * apply IH; auto. intros x Hx. apply Hne. now right.
      * rewrite Forall_forall in *. intros x Hx. apply ins_key_in in Hx as [->|Hx]; unfold klt in *; [lia|].
        now apply Hy.
Qed.

(* correctness of the sort: a permutation, strictly sorted when the keys are distinct *)
Lemma insertion_sort_keys_perm l : Permutation l (insertion_sort_keys l).
Proof.
  rewrite insertion_sort_keys_fold. induction l as [|e l IH]; cbn [fold_right]; [constructor|].
  eapply Permutation_trans; [apply perm_skip; exact IH|]. apply ins_key_perm.
Qed.

Lemma insertion_sort_keys_sorted l :
  NoDup (map fst l) -> StronglySorted klt (insertion_sort_keys l).
Proof.
  rewrite insertion_sort_keys_fold. induction l as [|e l IH]; cbn [fold_right map]; intros Hnd.
  - constructor.
  - inversion Hnd as [|? ? Hnotin Hnd']; subst. apply ins_key_sorted; [auto|].
    intros x Hx Heq. apply Hnotin.
    assert (Hin : In x l).
    { eapply Permutation_in; [apply Permutation_sym; apply (insertion_sort_keys_perm l)|].
      rewrite insertion_sort_keys_fold. exact Hx. }
    rewrite <- Heq. now apply in_map.
Qed.

(* two strictly sorted lists with the same elements are the same list *)
Lemma sorted_same_elements {B} (l1 l2 : list (N * B)) :
  StronglySorted klt l1 -> StronglySorted klt l2 -> (forall x, In x l1 <-> In x l2) -> l1 = l2.
Proof.
  revert l2; induction l1 as [|x l1 IH]; intros l2 H1 H2 Hin.
  - destruct l2 as [|y l2]; auto. exfalso. apply (Hin y). now left.
  - destruct l2 as [|y l2]; [exfalso; apply (Hin x); now left|].
    inversion H1 as [|? ? H1' Hx]; subst. inversion H2 as [|? ? H2' Hy]; subst.
    rewrite Forall_forall in Hx, Hy.
    assert (Hxy : x = y).
    { destruct (proj1 (Hin x) (or_introl eq_refl)) as [E|Hx2]; [now symmetry|].
      destruct (proj2 (Hin y) (or_introl eq_refl)) as [E|Hy1]; [exact E|].
      specialize (Hx _ Hy1). specialize (Hy _ Hx2). unfold klt in *. lia. }
    subst y. f_equal. apply IH; auto.
    intros z. split; intros Hz.
    + destruct (proj1 (Hin z) (or_intror Hz)) as [E|H]; auto.
      subst z. specialize (Hx _ Hz). unfold klt in Hx. lia.
    + destruct (proj2 (Hin z) (or_intror Hz)) as [E|H]; auto.
      subst z. specialize (Hy _ Hz). unfold klt in Hy. lia.
Qed.

(* a list paired with its positions *)
Definition enum_from {B} (b : nat) (l : list B) : list (N * B) :=
  combine (map N.of_nat (seq b (length l))) l.

Lemma enum_from_sorted {B} (l : list B) : forall b, StronglySorted klt (enum_from b l).
Proof.
  unfold enum_from. induction l as [|x l IH]; intros b; cbn [length seq map combine]; constructor; auto.
  rewrite Forall_forall. intros (j & y) Hin. apply in_combine_seq in Hin as (i & -> & _).
  unfold klt; cbn [fst]. lia.
Qed.

Lemma enum_from_read a refs : forall cs b,
  contents refs a = Some cs ->
  all_some (map (fun e : N * sref => match read a (snd e) with
                                     | Some s => Some (fst e, s) | None => None end)
                (enum_from b refs)) = Some (enum_from b cs).
Proof.
  unfold contents, enum_from.
  induction refs as [|r refs IH]; intros cs b H; cbn [map all_some length seq combine] in *.
  - injection H as <-. reflexivity.
  - destruct (read a r) as [s|] eqn:Er; [|discriminate].
    destruct (all_some (map (read a) refs)) as [cs'|] eqn:E; [|discriminate].
    injection H as <-. cbn [snd fst length seq map combine]. rewrite Er, (IH cs' (S b) eq_refl). reflexivity.
Qed.

Section Listing.
  Variable hash : str -> N.
  Variable cand : N -> N -> bool.
  Variable growf : N -> bool.
  Variable keycap : N.

  Notation TInv := (TInv keycap).
  Notation step := (Rodeo.step hash cand growf keycap).
  Notation obj_inv := (obj_inv hash keycap).

  (* under the invariant the sorted key -> string map IS the witness table with its positions *)
  Lemma sorted_tstrs t cs refs :
    TW keycap t cs refs -> insertion_sort_keys (tstrs t) = enum_from 0 refs.
  Proof.
    intros (_ & _ & (H1 & H2 & _) & _).
    apply sorted_same_elements.
    - now apply insertion_sort_keys_sorted.
    - apply enum_from_sorted.
    - intros (k & r). split.
      + intros Hin. eapply Permutation_in in Hin;
          [|apply Permutation_sym; apply insertion_sort_keys_perm].
        apply H2 in Hin. apply in_combine_seq. exists (N.to_nat k). split; auto.
        simpl. now rewrite N2Nat.id.
      + intros Hin. apply in_combine_seq in Hin as (i & -> & Hi). simpl in Hi.
        eapply Permutation_in; [apply insertion_sort_keys_perm|].
        apply H2. now rewrite Nat2N.id.
  Qed.

  (* iteration / strings() / serialisation of a ThreadedRodeo list the content once, in key order *)
  Theorem t_pairs_enumerate t cs : TInv t cs -> obj_pairs (OThreaded t) = Some (enumerate cs).
  Proof.
    intros H. apply TInv_TW in H as (refs & HW). cbn [obj_pairs].
    rewrite (sorted_tstrs _ _ _ HW).
    destruct HW as (_ & (_ & _ & Hc & _) & _).
    apply (enum_from_read (tar t) refs cs 0%nat Hc).
  Qed.

  Definition swap_pair (p : N * str) : str * N := (snd p, fst p).

  Theorem step_iter_threaded w i plan t cs :
    obj_inv (get_obj w i) cs -> get_obj w i = OThreaded t ->
    step w (IterOp i plan) = (w, OItems (map it_of (enumerate cs))) /\
    step w (StringsOp i plan) = (w, OItems (map it_of (enumerate cs))).
  Proof.
    intros Hinv E. rewrite E in Hinv. cbn [WorldProofs.obj_inv] in Hinv.
    cbn [Rodeo.step]. rewrite E, (t_pairs_enumerate _ _ Hinv). split; reflexivity.
  Qed.

  Theorem step_ser_threaded w i t cs :
    obj_inv (get_obj w i) cs -> get_obj w i = OThreaded t ->
    step w (Ser i) = (w, ODoc (DMap (map swap_pair (enumerate cs)))).
  Proof.
    intros Hinv E. rewrite E in Hinv. cbn [WorldProofs.obj_inv] in Hinv.
    cbn [Rodeo.step]. rewrite E, (t_pairs_enumerate _ _ Hinv). reflexivity.
  Qed.

  (* serialise, then deserialise: a ThreadedRodeo with the same content and the counter at the
     number of strings *)
  Theorem C14_roundtrip_threaded t cs :
    TInv t cs ->
    exists t', de_threaded (map swap_pair (enumerate cs)) = DOk t' /\ TInv t' cs /\
               tkey t' = N.of_nat (length cs).
  Proof.
    intros H. pose proof (TInv_len_le_keycap keycap _ _ H) as Hcap.
    assert (Hndc : NoDup cs).
    { destruct H as (_ & refs & (_ & _ & _ & Hnd) & _). exact Hnd. }
    set (l := map swap_pair (enumerate cs)).
    assert (Hfst : map fst l = cs).
    { unfold l. rewrite map_map. cbn [swap_pair fst]. apply enumerate_strs. }
    assert (Hsnd : map snd l = map N.of_nat (seq 0 (length cs))).
    { unfold l. rewrite map_map. cbn [swap_pair snd]. apply enumerate_keys. }
    assert (Hlen : length l = length cs).
    { unfold l. now rewrite map_length, enumerate_length. }
    assert (Hin : forall s k, In (s, k) l <-> nth_error cs (N.to_nat k) = Some s).
    { intros s k. unfold l. rewrite in_map_iff. split.
      - intros ((k' & s') & Heq & Hp). unfold swap_pair in Heq. cbn [fst snd] in Heq.
        injection Heq as -> ->. apply In_nth_error in Hp as (i & Hi).
        apply enumerate_nth in Hi as (-> & Hi). now rewrite Nat2N.id.
      - intros Hn. exists (k, s). split; [reflexivity|].
        unfold enumerate. apply in_combine_seq. exists (N.to_nat k). split; auto.
        simpl. now rewrite N2Nat.id. }
    assert (P1 : NoDup (map fst l)) by (rewrite Hfst; exact Hndc).
    assert (P2 : forall s k, In (s, k) l -> k < keycap).
    { intros s k Hk. apply Hin in Hk.
      assert (N.to_nat k < length cs)%nat by (apply nth_error_Some; congruence). lia. }
    assert (P3 : keys_dense l (repeat false (length l)) = true).
    { apply keys_dense_perm_iff. rewrite Hsnd, Hlen. apply Permutation_refl. }
    destruct (de_threaded_ok keycap l P1 P2 P3) as (t' & cs' & Hde & HT' & Hl' & Hnth & Hkey).
    assert (Heq : cs' = cs).
    { apply list_eq_nth; [lia|]. intros i Hi.
      destruct (nth_error cs' i) as [s|] eqn:E; [|apply nth_error_None in E; lia].
      rewrite <- (Nat2N.id i) in E. apply Hnth, Hin in E. now rewrite Nat2N.id in E. }
    subst cs'. exists t'. split; [exact Hde|]. split; [exact HT'|]. now rewrite Hkey, Hlen.
  Qed.
End Listing.

(* ====================================================================================== *)
(* D. Extend / FromIter are loops of get_or_intern that stop at the first panic            *)
(* ====================================================================================== *)

Lemma set_nth_twice {A} (l : list A) n x y : set_nth n y (set_nth n x l) = set_nth n y l.
Proof. revert n; induction l as [|z l IH]; intros [|n]; simpl; auto. now rewrite IH. Qed.

Lemma set_nth_self {A} (l : list A) n d : set_nth n (nth n l d) l = l.
Proof. revert n; induction l as [|z l IH]; intros [|n]; simpl; auto. now rewrite IH. Qed.

Lemma set_nth_app_new {A} (l : list A) x y : set_nth (length l) y (l ++ [x]) = l ++ [y].
Proof. induction l as [|z l IH]; simpl; auto. now rewrite IH. Qed.

Section ExtendLoop.
  Variable hash : str -> N.
  Variable cand : N -> N -> bool.
  Variable growf : N -> bool.
  Variable keycap : N.

  Notation step := (Rodeo.step hash cand growf keycap).
  Notation run := (Rodeo.run hash cand growf keycap).
  Notation intern := (intern hash cand growf keycap).
  Notation t_intern := (t_intern keycap).
  Notation r_extend := (r_extend hash cand growf keycap).
  Notation t_extend := (t_extend keycap).

  Definition is_panic (o : out) : bool := match o with OPanic => true | _ => false end.

  (* the prefix of [l] up to and including the first string whose get_or_intern panics
     (all of [l] if none does), following the world along *)
  Fixpoint extend_prefix (w : world) (i : nat) (l : list str) : list str :=
    match l with
    | [] => []
    | s :: rest =>
        if is_panic (snd (step w (InternP i s))) then [s]
        else s :: extend_prefix (fst (step w (InternP i s))) i rest
    end.

  Definition interner_at (w : world) (i : nat) : Prop :=
    (exists r, get_obj w i = ORodeo r) \/ (exists t, get_obj w i = OThreaded t).

  Lemma interner_lt w i : interner_at w i -> (i < length w)%nat.
  Proof. intros [(r & E)|(t & E)]; apply get_obj_lt; rewrite E; discriminate. Qed.

  Lemma extend_prefix_is_prefix l : forall w i, exists rest, l = extend_prefix w i l ++ rest.
  Proof.
    induction l as [|s l IH]; intros w i; cbn [extend_prefix]; [exists []; reflexivity|].
    destruct (is_panic _).
    - exists l. reflexivity.
    - destruct (IH (fst (step w (InternP i s))) i) as (rest & Hr). exists rest.
      cbn [app]. now rewrite <- Hr.
  Qed.

  Lemma run_cons w o ops :
    run w (o :: ops) = (fst (run (fst (step w o)) ops), snd (step w o) :: snd (run (fst (step w o)) ops)).
  Proof.
    cbn [Rodeo.run]. destruct (step w o) as (w' & x). cbn [fst snd].
    destruct (run w' ops) as (w'' & xs). reflexivity.
  Qed.

  (* Rodeo *)
  Lemma extend_loop_rodeo l : forall w i r,
    get_obj w i = ORodeo r ->
    let res := run w (map (InternP i) (extend_prefix w i l)) in
    fst (step w (Extend i l)) = fst res /\
    snd (step w (Extend i l)) = (if existsb is_panic (snd res) then OPanic else OUnit) /\
    (existsb is_panic (snd res) = false -> extend_prefix w i l = l).
  Proof.
    induction l as [|s l IH]; intros w i r E.
    - cbn [extend_prefix map Rodeo.run Rodeo.step Rodeo.r_extend fst snd existsb]. rewrite E.
      cbn [fst snd]. split; [|split; auto]. rewrite <- E. apply set_nth_self.
    - assert (Hlt : (i < length w)%nat) by (apply get_obj_lt; rewrite E; discriminate).
      cbn zeta. cbn [extend_prefix].
      assert (HP : step w (InternP i s) =
                   (set_obj w i (ORodeo (fst (intern r s))), out_of_resP (snd (intern r s)))).
      { cbn [Rodeo.step]. rewrite E. destruct (intern r s); reflexivity. }
      assert (HE : step w (Extend i (s :: l)) =
                   match snd (intern r s) with
                   | Ok _ => step (set_obj w i (ORodeo (fst (intern r s)))) (Extend i l)
                   | Err _ => (set_obj w i (ORodeo (fst (intern r s))), OPanic)
                   end).
      { cbn [Rodeo.step]. rewrite E. cbn [Rodeo.r_extend].
        destruct (intern r s) as (r' & [k|e]); cbn [fst snd]; [|reflexivity].
        rewrite (get_set_same w i (ORodeo r') Hlt). destruct (r_extend r' l) as (r'' & ok).
        unfold set_obj. rewrite set_nth_twice. reflexivity. }
      rewrite HE, HP. cbn [fst snd].
      destruct (snd (intern r s)) as [k|e]; cbn [out_of_resP is_panic].
      + cbn [map]. rewrite run_cons, HP. cbn [fst snd out_of_resP existsb is_panic orb].
        destruct (IH (set_obj w i (ORodeo (fst (intern r s)))) i (fst (intern r s))
                    (get_set_same w i _ Hlt)) as (I1 & I2 & I3).
        split; [exact I1|]. split; [exact I2|]. intros Hb. f_equal. exact (I3 Hb).
      + cbn [map]. rewrite run_cons, HP. cbn [fst snd Rodeo.run out_of_resP existsb is_panic orb].
        split; [reflexivity|]. split; [reflexivity|discriminate].
  Qed.

  (* ThreadedRodeo *)
  Lemma extend_loop_threaded l : forall w i t,
    get_obj w i = OThreaded t ->
    let res := run w (map (InternP i) (extend_prefix w i l)) in
    fst (step w (Extend i l)) = fst res /\
    snd (step w (Extend i l)) = (if existsb is_panic (snd res) then OPanic else OUnit) /\
    (existsb is_panic (snd res) = false -> extend_prefix w i l = l).
  Proof.
    induction l as [|s l IH]; intros w i t E.
    - cbn [extend_prefix map Rodeo.run Rodeo.step Rodeo.t_extend fst snd existsb]. rewrite E.
      cbn [fst snd]. split; [|split; auto]. rewrite <- E. apply set_nth_self.
    - assert (Hlt : (i < length w)%nat) by (apply get_obj_lt; rewrite E; discriminate).
      cbn zeta. cbn [extend_prefix].
      assert (HP : step w (InternP i s) =
                   (set_obj w i (OThreaded (fst (t_intern t s))), out_of_resP (snd (t_intern t s)))).
      { cbn [Rodeo.step]. rewrite E. destruct (t_intern t s); reflexivity. }
      assert (HE : step w (Extend i (s :: l)) =
                   match snd (t_intern t s) with
                   | Ok _ => step (set_obj w i (OThreaded (fst (t_intern t s)))) (Extend i l)
                   | Err _ => (set_obj w i (OThreaded (fst (t_intern t s))), OPanic)
                   end).
      { cbn [Rodeo.step]. rewrite E. cbn [Rodeo.t_extend].
        destruct (t_intern t s) as (t' & [k|e]); cbn [fst snd]; [|reflexivity].
        rewrite (get_set_same w i (OThreaded t') Hlt). destruct (t_extend t' l) as (t'' & ok).
        unfold set_obj. rewrite set_nth_twice. reflexivity. }
      rewrite HE, HP. cbn [fst snd].
      destruct (snd (t_intern t s)) as [k|e]; cbn [out_of_resP is_panic].
      + cbn [map]. rewrite run_cons, HP. cbn [fst snd out_of_resP existsb is_panic orb].
        destruct (IH (set_obj w i (OThreaded (fst (t_intern t s)))) i (fst (t_intern t s))
                    (get_set_same w i _ Hlt)) as (I1 & I2 & I3).
        split; [exact I1|]. split; [exact I2|]. intros Hb. f_equal. exact (I3 Hb).
      + cbn [map]. rewrite run_cons, HP. cbn [fst snd Rodeo.run out_of_resP existsb is_panic orb].
        split; [reflexivity|]. split; [reflexivity|discriminate].
  Qed.

  (* C17: Extend is the loop of get_or_intern over the iterator, stopped by the first panic;
     it answers () exactly when no get_or_intern panicked (and then the whole list was fed) *)
  Theorem step_extend_is_intern_loop w i l :
    interner_at w i ->
    let l' := extend_prefix w i l in
    let res := run w (map (InternP i) l') in
    fst (step w (Extend i l)) = fst res /\
    (snd (step w (Extend i l)) = OUnit <-> ~ In OPanic (snd res)) /\
    (snd (step w (Extend i l)) = OPanic <-> In OPanic (snd res)) /\
    (snd (step w (Extend i l)) = OUnit -> l' = l) /\
    (exists rest, l = l' ++ rest).
  Proof.
    intros Hi. cbn zeta.
    assert (H : fst (step w (Extend i l)) = fst (run w (map (InternP i) (extend_prefix w i l))) /\
                snd (step w (Extend i l)) =
                  (if existsb is_panic (snd (run w (map (InternP i) (extend_prefix w i l))))
                   then OPanic else OUnit) /\
                (existsb is_panic (snd (run w (map (InternP i) (extend_prefix w i l)))) = false ->
                 extend_prefix w i l = l)).
    { destruct Hi as [(r & E)|(t & E)];
        [exact (extend_loop_rodeo l w i r E)|exact (extend_loop_threaded l w i t E)]. }
    destruct H as (H1 & H2 & H3).
    set (outs := snd (run w (map (InternP i) (extend_prefix w i l)))) in *.
    assert (Hex : existsb is_panic outs = true <-> In OPanic outs).
    { rewrite existsb_exists. split.
      - intros (x & Hx & Hp). destruct x; try discriminate. exact Hx.
      - intros Hin. exists OPanic. auto. }
    split; [exact H1|]. rewrite H2.
    destruct (existsb is_panic outs) eqn:Eb.
    - assert (Hin : In OPanic outs) by (apply Hex; reflexivity).
      split; [split; [discriminate|intros Hn; contradiction]|].
      split; [split; auto|]. split; [discriminate|apply extend_prefix_is_prefix].
    - assert (Hnin : ~ In OPanic outs) by (intros Hin; apply Hex in Hin; discriminate).
      split; [split; auto|].
      split; [split; [discriminate|intros Hin; contradiction]|].
      split; [intros _; apply H3; reflexivity|apply extend_prefix_is_prefix].
  Qed.

  (* FromIterator: Extend into a fresh interner with the default capacity, published in a new
     slot when no get_or_intern panicked *)
  Theorem step_from_iter_is_extend w (threaded : bool) l :
    let fresh := if threaded then OThreaded (trodeo_new default_bytes usize_max)
                 else ORodeo (rodeo_new default_bytes usize_max) in
    let ext := step (w ++ [fresh]) (Extend (length w) l) in
    interner_at (w ++ [fresh]) (length w) /\
    (snd ext = OUnit -> step w (FromIter threaded l) = (fst ext, ONew (N.of_nat (length w)))) /\
    (snd ext <> OUnit -> step w (FromIter threaded l) = (w, OPanic)).
  Proof.
    cbn zeta. destruct threaded.
    - split; [right; eexists; apply get_app_new|].
      cbn [Rodeo.step]. rewrite get_app_new.
      destruct (t_extend (trodeo_new default_bytes usize_max) l) as (t' & [|]); cbn [fst snd].
      + split; [|intros H; contradiction]. intros _. unfold new_slot, set_obj.
        now rewrite set_nth_app_new.
      + split; [discriminate|reflexivity].
    - split; [left; eexists; apply get_app_new|].
      cbn [Rodeo.step]. rewrite get_app_new.
      destruct (r_extend (rodeo_new default_bytes usize_max) l) as (r' & [|]); cbn [fst snd].
      + split; [|intros H; contradiction]. intros _. unfold new_slot, set_obj.
        now rewrite set_nth_app_new.
      + split; [discriminate|reflexivity].
  Qed.
End ExtendLoop.

(* ====================================================================================== *)
(* B. one thread running alone performs the sequential call                                *)
(* ====================================================================================== *)

(* Method: every state of a solo run has the form [St c0 tid th a m strs key L] (the start
   state with thread [tid], the arena, the maps, the counter and the lock table replaced);
   [step] is computed on such forms ([sstep]) and the phases of the call are chained with
   [solo_run] (a sequence of steps of thread [tid] with choice = false). *)

Lemma find_map {A B} (p : B -> bool) (f : A -> B) l :
  find p (map f l) = match find (fun x => p (f x)) l with Some x => Some (f x) | None => None end.
Proof. induction l as [|x l IH]; simpl; auto. destruct (p (f x)); auto. Qed.

Lemma set_nth_same_val {A} (l : list A) n x : nth_error l n = Some x -> set_nth n x l = l.
Proof.
  revert n; induction l as [|y l IH]; intros [|n] H; simpl in *; try discriminate; auto.
  - now injection H as ->.
  - now rewrite IH.
Qed.

Lemma opt_N_eqb_refl o : opt_N_eqb o o = true.
Proof. destruct o; simpl; auto. apply N.eqb_refl. Qed.

Lemma lf_first_fit_cons b t s :
  lf_first_fit (b :: t) s =
  if bused b + slen s <=? bcap b then let (b', r) := push_slice b s in Some (b' :: t, r)
  else match lf_first_fit t s with Some (t', r) => Some (b :: t', r) | None => None end.
Proof. reflexivity. Qed.

Lemma find_block_at id pre b suf :
  ~ In id (map bid pre) -> bid b = id -> find_block id (pre ++ b :: suf) = Some b.
Proof.
  induction pre as [|x pre IH]; cbn [map app find_block]; intros Hn Hb.
  - now rewrite Hb, N.eqb_refl.
  - destruct (bid x =? id) eqn:E; [apply N.eqb_eq in E; exfalso; apply Hn; now left|].
    apply IH; auto. intros Hin. apply Hn. now right.
Qed.

Lemma set_block_at b' pre b suf :
  ~ In (bid b') (map bid pre) -> bid b = bid b' -> set_block b' (pre ++ b :: suf) = pre ++ b' :: suf.
Proof.
  induction pre as [|x pre IH]; cbn [map app set_block]; intros Hn Hb.
  - now rewrite Hb, N.eqb_refl.
  - destruct (bid x =? bid b') eqn:E; [apply N.eqb_eq in E; exfalso; apply Hn; now left|].
    rewrite IH; auto. intros Hin. apply Hn. now right.
Qed.

Section Solo.
  Variable shard_of : str -> N.
  Variable keycap : N.

  Notation cstep := (Conc.step shard_of keycap).

  (* run thread [tid] alone (no spurious failures) until it is back between calls *)
  Fixpoint solo_loop (c : cstate) (tid fuel : nat) : cstate :=
    match fuel with
    | O => c
    | S f =>
        match nth_error (c_threads c) tid with
        | Some t =>
            match t_pc t with
            | PIdle => c
            | _ => match cstep c tid false with
                   | Some c' => solo_loop c' tid f
                   | None => c
                   end
            end
        | None => c
        end
    end.

  (* dispatch the thread's next call, then run it to completion *)
  Definition run_solo (c : cstate) (tid fuel : nat) : cstate :=
    match cstep c tid false with
    | Some c' => solo_loop c' tid fuel
    | None => c
    end.

  (* the states of a solo run: the state [c0] the run started from, with thread [tid]
     replaced by [th], the arena by [a], the maps, counter and lock table as given *)
  Definition St (c0 : cstate) (tid : nat) (th : thread) (a : arena) (m strs : list entry)
             (key : N) (L : list (N * nat)) : cstate :=
    mkC (blocks a) (bucket_cap a) (usage a) (limit a) (next_bid a) m strs key L
        (set_nth tid th (c_threads c0)).

  Lemma St_init c tid t :
    nth_error (c_threads c) tid = Some t ->
    c = St c tid t (as_arena c) (c_map c) (c_strs c) (c_key c) (c_locks c).
  Proof.
    intros H. unfold St, as_arena. cbn [blocks bucket_cap usage limit next_bid].
    rewrite (set_nth_same_val _ _ _ H). now destruct c.
  Qed.

  Lemma nth_St c0 tid th a m strs key L t0 :
    nth_error (c_threads c0) tid = Some t0 ->
    nth_error (c_threads (St c0 tid th a m strs key L)) tid = Some th.
  Proof. intros H. cbn [St c_threads]. eapply ConcInternProofs.nth_error_set_nth_eq; eauto. Qed.

  Lemma goto_St c0 tid th a m strs key L th' p :
    goto (St c0 tid th a m strs key L) tid th' p =
    St c0 tid (mkThread p (t_call th') (t_prog th') (t_outs th')) a m strs key L.
  Proof. unfold goto, with_threads, set_thread, St. cbn. now rewrite set_nth_twice. Qed.

  Lemma finish_St c0 tid th a m strs key L th' o :
    finish (St c0 tid th a m strs key L) tid th' o =
    St c0 tid (mkThread PIdle (t_call th') (t_prog th') ((t_call th', o) :: t_outs th')) a m strs key
       (filter (fun e => negb (Nat.eqb (snd e) tid)) L).
  Proof. unfold finish, with_locks, with_threads, set_thread, unlock, St. cbn. now rewrite set_nth_twice. Qed.

  Lemma as_arena_St c0 tid th a m strs key L : as_arena (St c0 tid th a m strs key L) = a.
  Proof. unfold as_arena, St. cbn. now destruct a. Qed.


  Lemma trodeo_of_St c0 tid th a m strs key L :
    trodeo_of (St c0 tid th a m strs key L) =
    mkT (map (fun e => (e_ref e, e_key e)) m) (map (fun e => (e_key e, e_ref e)) strs) key a.
  Proof. unfold trodeo_of. rewrite as_arena_St. reflexivity. Qed.

  (* field updates and projections of a solo state *)
  Lemma with_blocks_St c0 tid th a m strs key L bs :
    with_blocks (St c0 tid th a m strs key L) bs =
    St c0 tid th (mkArena bs (bucket_cap a) (usage a) (limit a) (next_bid a)) m strs key L.
  Proof. reflexivity. Qed.
  Lemma with_usage_St c0 tid th a m strs key L u :
    with_usage (St c0 tid th a m strs key L) u =
    St c0 tid th (mkArena (blocks a) (bucket_cap a) u (limit a) (next_bid a)) m strs key L.
  Proof. reflexivity. Qed.
  Lemma with_bcap_St c0 tid th a m strs key L x :
    with_bcap (St c0 tid th a m strs key L) x =
    St c0 tid th (mkArena (blocks a) x (usage a) (limit a) (next_bid a)) m strs key L.
  Proof. reflexivity. Qed.
  Lemma with_next_bid_St c0 tid th a m strs key L x :
    with_next_bid (St c0 tid th a m strs key L) x =
    St c0 tid th (mkArena (blocks a) (bucket_cap a) (usage a) (limit a) x) m strs key L.
  Proof. reflexivity. Qed.
  Lemma with_limit_St c0 tid th a m strs key L x :
    with_limit (St c0 tid th a m strs key L) x = St c0 tid th (set_limit a x) m strs key L.
  Proof. reflexivity. Qed.
  Lemma with_key_St c0 tid th a m strs key L x :
    with_key (St c0 tid th a m strs key L) x = St c0 tid th a m strs x L.
  Proof. reflexivity. Qed.
  Lemma with_strs_St c0 tid th a m strs key L x :
    with_strs (St c0 tid th a m strs key L) x = St c0 tid th a m x key L.
  Proof. reflexivity. Qed.
  Lemma with_map_St c0 tid th a m strs key L x :
    with_map (St c0 tid th a m strs key L) x = St c0 tid th a x strs key L.
  Proof. reflexivity. Qed.
  Lemma with_locks_St c0 tid th a m strs key L x :
    with_locks (St c0 tid th a m strs key L) x = St c0 tid th a m strs key x.
  Proof. reflexivity. Qed.
  Lemma c_blocks_St c0 tid th a m strs key L : c_blocks (St c0 tid th a m strs key L) = blocks a.
  Proof. reflexivity. Qed.
  Lemma c_bcap_St c0 tid th a m strs key L : c_bcap (St c0 tid th a m strs key L) = bucket_cap a.
  Proof. reflexivity. Qed.
  Lemma c_usage_St c0 tid th a m strs key L : c_usage (St c0 tid th a m strs key L) = usage a.
  Proof. reflexivity. Qed.
  Lemma c_limit_St c0 tid th a m strs key L : c_limit (St c0 tid th a m strs key L) = limit a.
  Proof. reflexivity. Qed.
  Lemma c_next_bid_St c0 tid th a m strs key L : c_next_bid (St c0 tid th a m strs key L) = next_bid a.
  Proof. reflexivity. Qed.
  Lemma c_map_St c0 tid th a m strs key L : c_map (St c0 tid th a m strs key L) = m.
  Proof. reflexivity. Qed.
  Lemma c_strs_St c0 tid th a m strs key L : c_strs (St c0 tid th a m strs key L) = strs.
  Proof. reflexivity. Qed.
  Lemma c_key_St c0 tid th a m strs key L : c_key (St c0 tid th a m strs key L) = key.
  Proof. reflexivity. Qed.
  Lemma c_locks_St c0 tid th a m strs key L : c_locks (St c0 tid th a m strs key L) = L.
  Proof. reflexivity. Qed.
  Lemma head_id_St c0 tid th a m strs key L :
    head_id (St c0 tid th a m strs key L) = match blocks a with b :: _ => Some (bid b) | [] => None end.
  Proof. reflexivity. Qed.

  (* string -> key lookup on the parts *)
  Definition mget (a : arena) (m : list entry) (s : str) : option N :=
    match find (fun e => match read a (e_ref e) with
                         | Some s' => str_eqb s s' | None => false end) m with
    | Some e => Some (e_key e)
    | None => None
    end.

  Lemma map_get_St c0 tid th a m strs key L s :
    map_get (St c0 tid th a m strs key L) s = mget a m s.
  Proof. unfold map_get. rewrite as_arena_St. reflexivity. Qed.

  (* the lookup of the concurrent model is the sequential [t_get], on every state *)
  Lemma map_get_t_get c s : map_get c s = t_get (trodeo_of c) s.
  Proof.
    unfold map_get, t_get, trodeo_of. cbn [tmap tar]. rewrite find_map. cbn [fst snd].
    destruct (find _ (c_map c)); reflexivity.
  Qed.

  (* a solo thread is never blocked: the lock table is empty or holds its own lock *)
  Lemma blocked_St_nil c0 tid th a m strs key p :
    blocked shard_of (St c0 tid th a m strs key []) tid p = false.
  Proof. destruct p as [|[]| | | | | | | | | | |]; reflexivity. Qed.

  Lemma blocked_St_own c0 tid th a m strs key sh p :
    blocked shard_of (St c0 tid th a m strs key [(sh, tid)]) tid p = false.
  Proof.
    destruct p as [|[]| | | | | | | | | | |]; try reflexivity;
      unfold blocked, lock_holder; cbn [c_locks St find fst snd];
      (destruct (sh =? _); [cbn [snd]; now rewrite Nat.eqb_refl|reflexivity]).
  Qed.

  Hint Rewrite with_limit_St with_blocks_St with_usage_St with_bcap_St with_next_bid_St with_key_St with_strs_St
       with_map_St with_locks_St c_blocks_St c_bcap_St c_usage_St c_limit_St c_next_bid_St c_map_St
       c_strs_St c_key_St c_locks_St head_id_St map_get_St goto_St finish_St : solo.

  Inductive solo_run (tid : nat) : cstate -> cstate -> Prop :=
  | sr_done c : solo_run tid c c
  | sr_step c c1 c' t :
      nth_error (c_threads c) tid = Some t -> t_pc t <> PIdle -> cstep c tid false = Some c1 ->
      solo_run tid c1 c' -> solo_run tid c c'.

  Lemma solo_run_trans tid c1 c2 c3 : solo_run tid c1 c2 -> solo_run tid c2 c3 -> solo_run tid c1 c3.
  Proof. induction 1; auto. intros H3. eapply sr_step; eauto. Qed.

  Lemma solo_run_loop tid c c' :
    solo_run tid c c' ->
    (exists t, nth_error (c_threads c') tid = Some t /\ t_pc t = PIdle) ->
    exists n, forall fuel, (n <= fuel)%nat -> solo_loop c tid fuel = c'.
  Proof.
    induction 1 as [c|c c1 c' t Hn Hpc Hs Hr IH]; intros Hidle.
    - exists 0%nat. intros [|f] _; cbn [solo_loop]; auto.
      destruct Hidle as (t & -> & ->). reflexivity.
    - destruct (IH Hidle) as (n & Hloop). exists (S n). intros [|f] Hf; [lia|].
      cbn [solo_loop]. rewrite Hn, Hs.
      destruct (t_pc t); try contradiction; apply Hloop; lia.
  Qed.

  Ltac norm := cbn [t_call t_prog t_outs t_pc blocks bucket_cap usage limit next_bid];
               autorewrite with solo;
               cbn [t_call t_prog t_outs t_pc blocks bucket_cap usage limit next_bid].

  Ltac sstep H :=
    eapply sr_step;
    [ eapply nth_St; exact H
    | cbn [t_pc]; discriminate
    | unfold Conc.step, step_gen; rewrite (nth_St _ _ _ _ _ _ _ _ _ H);
      rewrite ?blocked_St_nil, ?blocked_St_own; cbn [t_pc store_step]; reflexivity
    | norm ].

  Section Phases.
    Variable c0 : cstate.
    Variable tid : nat.
    Variable t0 : thread.
    Hypothesis H0 : nth_error (c_threads c0) tid = Some t0.

    Definition unl (L : list (N * nat)) : list (N * nat) :=
      filter (fun e => negb (Nat.eqb (snd e) tid)) L.

    (* key.fetch_add, strings.insert, map insert, unlock *)
    Lemma phase_key s r cl pr outs a m strs key sh :
      solo_run tid (St c0 tid (mkThread (PKeyAdd s r) cl pr outs) a m strs key [(sh, tid)])
        (if key <? keycap
         then St c0 tid (mkThread PIdle cl pr ((cl, ROk key) :: outs)) a
                 (m ++ [mkEntry r s key]) (strs_put (mkEntry r s key) strs) (key + 1) []
         else St c0 tid (mkThread PIdle cl pr ((cl, RErr KeySpaceExhaustion) :: outs)) a
                 m strs (key + 1) []).
    Proof.
      sstep H0. unfold Conc.try_key.
      assert (Hu : filter (fun e : N * nat => negb (Nat.eqb (snd e) tid)) [(sh, tid)] = []).
      { cbn [filter snd]. now rewrite Nat.eqb_refl. }
      destruct (key <? keycap).
      - norm. sstep H0. sstep H0. rewrite Hu. apply sr_done.
      - norm. rewrite Hu. apply sr_done.
    Qed.


    Lemma sr_done_eq c c' : c = c' -> solo_run tid c c'.
    Proof. intros ->. apply sr_done. Qed.

    Lemma unl_own sh : filter (fun e : N * nat => negb (Nat.eqb (snd e) tid)) [(sh, tid)] = [].
    Proof. cbn [filter snd]. now rewrite Nat.eqb_refl. Qed.

    (* allocate the block, copy the string into it, push it in front *)
    Lemma phase_new s cap cl pr outs a m strs key sh :
      solo_run tid (St c0 tid (mkThread (PStore s (SNewBlock cap)) cl pr outs) a m strs key [(sh, tid)])
        (St c0 tid (mkThread (PKeyAdd s (RArena (next_bid a) 0 (slen s))) cl pr outs)
            (mkArena (fst (push_slice (fresh_block (next_bid a) cap) s) :: blocks a)
                     (bucket_cap a) (usage a) (limit a) (next_bid a + 1)) m strs key [(sh, tid)]).
    Proof.
      sstep H0. destruct (push_slice (fresh_block (next_bid a) cap) s) as (blk & r0) eqn:Ep. norm.
      sstep H0. sstep H0. rewrite opt_N_eqb_refl. cbn [andb negb]. norm.
      assert (Hb : bid blk = next_bid a).
      { unfold push_slice in Ep. injection Ep as <- _. reflexivity. }
      rewrite Hb. apply sr_done.
    Qed.

    (* what a store that ended leaves behind: the reference in hand, or the call answered *)
    Definition after_store (s : str) (cl : call) (pr : list call) (outs : list (call * cout))
               (m strs : list entry) (key : N) (sh : N) (x : arena * res sref) : cstate :=
      match x with
      | (a', Ok r) => St c0 tid (mkThread (PKeyAdd s r) cl pr outs) a' m strs key [(sh, tid)]
      | (a', Err e) => St c0 tid (mkThread PIdle cl pr ((cl, RErr e) :: outs)) a' m strs key []
      end.

    (* the growth path of store_str *)
    Lemma phase_grow s cl pr outs a m strs key sh :
      solo_run tid (St c0 tid (mkThread (PStore s SBcap) cl pr outs) a m strs key [(sh, tid)])
        (after_store s cl pr outs m strs key sh (grow lf_place true a s)).
    Proof.
      unfold grow. sstep H0.
      destruct (2 * bucket_cap a <? slen s) eqn:E1.
      - norm. sstep H0. sstep H0.
        destruct (limit a <? usage a + slen s) eqn:E2.
        + norm. rewrite unl_own. apply sr_done.
        + rewrite N.eqb_refl. cbn [andb negb]. norm.
          eapply solo_run_trans; [apply phase_new|]. norm.
          unfold push_slice. cbn [after_store fst fresh_block bid bused lf_place]. apply sr_done.
      - norm. sstep H0. sstep H0.
        destruct (limit a <? usage a + 2 * bucket_cap a) eqn:E2.
        + cbn [andb]. destruct (limit a - usage a <? slen s) eqn:E3.
          * norm. rewrite unl_own. apply sr_done.
          * norm. sstep H0. sstep H0.
            destruct (limit a <? usage a + (limit a - usage a)) eqn:E4.
            -- norm. rewrite unl_own. apply sr_done.
            -- rewrite N.eqb_refl. cbn [andb negb].
               destruct (limit a - usage a =? 0) eqn:E5.
               ++ norm. rewrite unl_own. apply sr_done.
               ++ norm. eapply solo_run_trans; [apply phase_new|]. norm.
                  unfold push_slice. cbn [after_store fst fresh_block bid bused lf_place]. apply sr_done.
        + norm. sstep H0. sstep H0. rewrite E2, N.eqb_refl. cbn [andb negb]. norm.
          sstep H0. eapply solo_run_trans; [apply phase_new|]. norm.
          unfold push_slice. cbn [after_store fst fresh_block bid bused lf_place]. apply sr_done.
    Qed.

    (* the first-fit walk over the bucket list, from the bucket [blk0] on *)
    Lemma phase_walk s cl pr outs bc us lim nb m strs key sh : forall suf pre blk0,
      NoDup (map bid (pre ++ blk0 :: suf)) ->
      solo_run tid
        (St c0 tid (mkThread (PStore s (SLen (bid blk0) (map bid suf))) cl pr outs)
            (mkArena (pre ++ blk0 :: suf) bc us lim nb) m strs key [(sh, tid)])
        (match lf_first_fit (blk0 :: suf) s with
         | Some (suf2, r) =>
             St c0 tid (mkThread (PKeyAdd s r) cl pr outs)
                (mkArena (pre ++ suf2) bc us lim nb) m strs key [(sh, tid)]
         | None =>
             St c0 tid (mkThread (PStore s SBcap) cl pr outs)
                (mkArena (pre ++ blk0 :: suf) bc us lim nb) m strs key [(sh, tid)]
         end).
    Proof.
      induction suf as [|b1 suf1 IH]; intros pre blk0 Hnd.
      - assert (Hpre : ~ In (bid blk0) (map bid pre)).
        { rewrite map_app in Hnd. cbn [map] in Hnd. apply NoDup_remove_2 in Hnd.
          intros Hin. apply Hnd. apply in_or_app. now left. }
        sstep H0. rewrite (find_block_at _ pre blk0 [] Hpre eq_refl). norm.
        sstep H0. rewrite (find_block_at _ pre blk0 [] Hpre eq_refl).
        change (Nat.ltb 0 100) with true. cbn [andb lf_first_fit].
        destruct (bused blk0 + slen s <=? bcap blk0) eqn:Efit.
        + rewrite N.eqb_refl. cbn [andb negb]. norm.
          match goal with |- context [set_block ?B _] => rewrite (set_block_at B pre blk0 [] Hpre eq_refl) end.
          sstep H0. match goal with |- context [find_block _ (_ ++ ?B0 :: _)] => rewrite (find_block_at (bid blk0) pre B0 [] Hpre eq_refl) end. norm.
          match goal with |- context [set_block ?B (_ ++ ?B0 :: _)] => rewrite (set_block_at B pre B0 [] Hpre eq_refl) end.
          unfold push_slice. apply sr_done.
        + cbn [map]. norm. apply sr_done.
      - assert (Hpre : ~ In (bid blk0) (map bid pre)).
        { rewrite map_app in Hnd. cbn [map] in Hnd. apply NoDup_remove_2 in Hnd.
          intros Hin. apply Hnd. apply in_or_app. now left. }
        sstep H0. rewrite (find_block_at _ pre blk0 _ Hpre eq_refl). norm.
        sstep H0. rewrite (find_block_at _ pre blk0 _ Hpre eq_refl).
        change (Nat.ltb 0 100) with true. cbn [andb].
        rewrite (lf_first_fit_cons blk0 (b1 :: suf1) s).
        destruct (bused blk0 + slen s <=? bcap blk0) eqn:Efit.
        + rewrite N.eqb_refl. cbn [andb negb]. norm.
          match goal with |- context [set_block ?B _] => rewrite (set_block_at B pre blk0 (b1 :: suf1) Hpre eq_refl) end.
          sstep H0. match goal with |- context [find_block _ (_ ++ ?B0 :: _)] => rewrite (find_block_at (bid blk0) pre B0 (b1 :: suf1) Hpre eq_refl) end. norm.
          match goal with |- context [set_block ?B (_ ++ ?B0 :: _)] => rewrite (set_block_at B pre B0 (b1 :: suf1) Hpre eq_refl) end.
          unfold push_slice. apply sr_done.
        + cbn [map]. norm.
          assert (Hnd' : NoDup (map bid ((pre ++ [blk0]) ++ b1 :: suf1))).
          { rewrite <- app_assoc. exact Hnd. }
          pose proof (IH (pre ++ [blk0]) b1 Hnd') as Hw.
          rewrite <- !app_assoc in Hw. cbn [app] in Hw.
          destruct (lf_first_fit (b1 :: suf1) s) as [(t' & r)|].
          * rewrite <- app_assoc in Hw. exact Hw.
          * exact Hw.
    Qed.

    (* LockfreeArena::store_str as run by a thread alone is the sequential [lf_store] *)
    Lemma phase_store s cl pr outs a m strs key sh :
      s <> [] -> NoDup (map bid (blocks a)) ->
      solo_run tid (St c0 tid (mkThread (PStore s SHead) cl pr outs) a m strs key [(sh, tid)])
        (after_store s cl pr outs m strs key sh (lf_store a s)).
    Proof.
      intros Hs Hnd. destruct a as [bs bc us lim nb]. cbn [blocks] in Hnd.
      unfold lf_store, lf_store_gen. destruct s as [|x s']; [contradiction|].
      remember (x :: s') as s eqn:Es. clear Es Hs. cbn [blocks bucket_cap usage limit next_bid].
      sstep H0. destruct bs as [|b0 bs1]; cbn [map]; norm.
      - cbn [lf_first_fit]. apply phase_grow.
      - eapply solo_run_trans; [apply (phase_walk s cl pr outs bc us lim nb m strs key sh bs1 [] b0 Hnd)|].
        cbn [app]. destruct (lf_first_fit (b0 :: bs1) s) as [(bs' & r)|]; cbn [after_store].
        + apply sr_done.
        + apply phase_grow.
    Qed.

    Lemma dispatch_St th a m strs key L th' :
      with_threads (St c0 tid th a m strs key L) (set_thread (St c0 tid th a m strs key L) tid th') =
      St c0 tid th' a m strs key L.
    Proof. unfold with_threads, set_thread, St. cbn. now rewrite set_nth_twice. Qed.

    (* the state a solo try_get_or_intern ends in *)
    Definition intern_result (s : str) (pr : list call) (outs : list (call * cout))
               (a : arena) (m strs : list entry) (key : N) : cstate :=
      let th o := mkThread PIdle (CIntern s) pr ((CIntern s, o) :: outs) in
      match mget a m s with
      | Some k => St c0 tid (th (ROk k)) a m strs key []
      | None =>
          match lf_store a s with
          | (a', Err e) => St c0 tid (th (RErr e)) a' m strs key []
          | (a', Ok r) =>
              if key <? keycap
              then St c0 tid (th (ROk key)) a' (m ++ [mkEntry r s key])
                      (strs_put (mkEntry r s key) strs) (key + 1) []
              else St c0 tid (th (RErr KeySpaceExhaustion)) a' m strs (key + 1) []
          end
      end.

    Lemma phase_call s pr cl0 outs a m strs key :
      NoDup (map bid (blocks a)) ->
      exists c1,
        cstep (St c0 tid (mkThread PIdle cl0 (CIntern s :: pr) outs) a m strs key []) tid false = Some c1 /\
        solo_run tid c1 (intern_result s pr outs a m strs key).
    Proof.
      intros Hnd. eexists. split.
      - unfold Conc.step, step_gen. rewrite (nth_St _ _ _ _ _ _ _ _ _ H0), blocked_St_nil.
        cbn [t_pc t_prog t_outs pc_of_call]. rewrite dispatch_St. reflexivity.
      - unfold intern_result. sstep H0. destruct (mget a m s) as [k|] eqn:Eg.
        + norm. cbn [filter]. apply sr_done.
        + norm. sstep H0. sstep H0. rewrite Eg.
          destruct s as [|x s'].
          * norm. eapply solo_run_trans; [apply phase_key|].
            unfold lf_store, lf_store_gen. apply sr_done.
          * remember (x :: s') as s eqn:Es. norm.
            assert (Hs : s <> []) by (subst s; discriminate).
            eapply solo_run_trans; [apply (phase_store s _ _ _ a m strs key _ Hs Hnd)|].
            destruct (lf_store a s) as (a' & [r|e]); cbn [after_store].
            -- apply phase_key.
            -- apply sr_done.
    Qed.

    (* ---- the other calls ---- *)

    Definition sget (strs : list entry) (k : N) : option sref :=
      match find (fun e => e_key e =? k) strs with Some e => Some (e_ref e) | None => None end.

    Lemma strs_get_St th a m strs key L k : strs_get (St c0 tid th a m strs key L) k = sget strs k.
    Proof. reflexivity. Qed.

    (* the state a solo call ends in *)
    Definition call_result (cl : call) (pr : list call) (outs : list (call * cout))
               (a : arena) (m strs : list entry) (key : N) : cstate :=
      let th o := mkThread PIdle cl pr ((cl, o) :: outs) in
      match cl with
      | CIntern s => intern_result s pr outs a m strs key
      | CInternStatic addr s =>
          match mget a m s with
          | Some k => St c0 tid (th (ROk k)) a m strs key []
          | None =>
              if key <? keycap
              then St c0 tid (th (ROk key)) a (m ++ [mkEntry (RStatic addr s) s key])
                      (strs_put (mkEntry (RStatic addr s) s key) strs) (key + 1) []
              else St c0 tid (th (RErr KeySpaceExhaustion)) a m strs (key + 1) []
          end
      | CGet s => St c0 tid (th (match mget a m s with Some k => ROk k | None => RNone end)) a m strs key []
      | CResolve k =>
          St c0 tid (th (match sget strs k with
                         | Some r => match read a r with Some s => RStr s | None => RNone end
                         | None => RNone
                         end)) a m strs key []
      | CSetLimit x => St c0 tid (th RUnit) (set_limit a x) m strs key []
      | CUsage => St c0 tid (th (RNum (usage a))) a m strs key []
      end.

    Lemma phase_any_call cl pr cl0 outs a m strs key :
      NoDup (map bid (blocks a)) ->
      exists c1,
        cstep (St c0 tid (mkThread PIdle cl0 (cl :: pr) outs) a m strs key []) tid false = Some c1 /\
        solo_run tid c1 (call_result cl pr outs a m strs key).
    Proof.
      intros Hnd. destruct cl as [s|addr s|s|k|x|]; [now apply phase_call| | | | |];
        (eexists; split;
         [ unfold Conc.step, step_gen; rewrite (nth_St _ _ _ _ _ _ _ _ _ H0), blocked_St_nil;
           cbn [t_pc t_prog t_outs pc_of_call]; rewrite dispatch_St; reflexivity |]);
        unfold call_result.
      - (* try_get_or_intern_static *)
        sstep H0. destruct (mget a m s) as [k|] eqn:Eg.
        + norm. cbn [filter]. apply sr_done.
        + norm. sstep H0. rewrite Eg. norm. sstep H0. unfold Conc.try_key.
          destruct (key <? keycap).
          * norm. sstep H0. sstep H0. rewrite unl_own. apply sr_done.
          * norm. rewrite unl_own. apply sr_done.
      - (* get *)
        sstep H0. cbn [filter]. apply sr_done.
      - (* try_resolve *)
        sstep H0. rewrite strs_get_St, as_arena_St. cbn [filter]. apply sr_done.
      - (* set_memory_limits *)
        sstep H0. cbn [filter]. apply sr_done.
      - (* current_memory_usage *)
        sstep H0. cbn [filter]. apply sr_done.
    Qed.
  End Phases.

  Definition cout_of_res (R : res N) : cout :=
    match R with Ok k => ROk k | Err e => RErr e end.

  Lemma strs_put_insert r s k l :
    map (fun e => (e_key e, e_ref e)) (strs_put (mkEntry r s k) l) =
    strs_insert k r (map (fun e => (e_key e, e_ref e)) l).
  Proof.
    unfold strs_put, strs_insert. rewrite map_app. cbn [map e_key e_ref]. f_equal.
    induction l as [|x l IH]; cbn [filter map]; auto. cbn [fst].
    destruct (e_key x =? k); cbn [negb map]; now rewrite IH.
  Qed.

  (* the end state of the solo run is the sequential model's result, field for field *)
  Lemma intern_result_spec c tid s pr outs :
    let c' := intern_result c tid s pr outs (as_arena c) (c_map c) (c_strs c) (c_key c) in
    let TR := t_intern keycap (trodeo_of c) s in
    trodeo_of c' = fst TR /\
    c_threads c' = set_nth tid (mkThread PIdle (CIntern s) pr
                                         ((CIntern s, cout_of_res (snd TR)) :: outs)) (c_threads c) /\
    c_locks c' = [] /\
    ((c_map c' = c_map c /\ c_strs c' = c_strs c) \/
     (exists r k, snd TR = Ok k /\ c_map c' = c_map c ++ [mkEntry r s k] /\
                  c_strs c' = strs_put (mkEntry r s k) (c_strs c))).
  Proof.
    cbn zeta. unfold intern_result, Rodeo.t_intern.
    rewrite <- (map_get_t_get c s).
    change (map_get c s) with (mget (as_arena c) (c_map c) s).
    destruct (mget (as_arena c) (c_map c) s) as [k|].
    - rewrite trodeo_of_St. cbn [fst snd cout_of_res]. repeat split; auto.
    - change (tar (trodeo_of c)) with (as_arena c).
      destruct (lf_store (as_arena c) s) as (a' & [r|e]).
      + change (tkey (trodeo_of c)) with (c_key c). unfold Rodeo.try_key.
        destruct (c_key c <? keycap).
        * rewrite trodeo_of_St. cbn [fst snd cout_of_res].
          split; [|split; [reflexivity|split; [reflexivity|]]].
          -- unfold trodeo_of. cbn [tmap tstrs tkey tar]. rewrite map_app, strs_put_insert. reflexivity.
          -- right. exists r, (c_key c). auto.
        * rewrite trodeo_of_St. cbn [fst snd cout_of_res]. repeat split; auto.
      + rewrite trodeo_of_St. cbn [fst snd cout_of_res]. repeat split; auto.
  Qed.

  (* B: a thread that runs try_get_or_intern alone from a quiescent state computes exactly the
     sequential model's [t_intern]: same answer, same maps, same counter, same arena (block
     identities included), and the state is quiescent again with no lock held *)
  Theorem solo_intern c tid t s rest :
    NoDup (map bid (c_blocks c)) -> c_locks c = [] -> quiescent c ->
    nth_error (c_threads c) tid = Some t -> t_prog t = CIntern s :: rest ->
    exists n, forall fuel, (n <= fuel)%nat ->
      let c' := run_solo c tid fuel in
      let TR := t_intern keycap (trodeo_of c) s in
      quiescent c' /\
      trodeo_of c' = fst TR /\
      c_threads c' = set_nth tid (mkThread PIdle (CIntern s) rest
                                           ((CIntern s, cout_of_res (snd TR)) :: t_outs t)) (c_threads c) /\
      c_locks c' = [] /\
      ((c_map c' = c_map c /\ c_strs c' = c_strs c) \/
       (exists r k, snd TR = Ok k /\ c_map c' = c_map c ++ [mkEntry r s k] /\
                    c_strs c' = strs_put (mkEntry r s k) (c_strs c))).
  Proof.
    intros Hnd Hl Hq Hn Hp.
    assert (Hpc : t_pc t = PIdle).
    { unfold quiescent in Hq. rewrite Forall_forall in Hq. apply Hq. eapply nth_error_In; eauto. }
    pose proof (St_init c tid t Hn) as Hc. rewrite Hl in Hc.
    assert (Ht : t = mkThread PIdle (t_call t) (CIntern s :: rest) (t_outs t)).
    { destruct t; cbn in *; subst; reflexivity. }
    rewrite Ht in Hc.
    destruct (phase_call c tid t Hn s rest (t_call t) (t_outs t) (as_arena c) (c_map c) (c_strs c)
                         (c_key c) Hnd) as (c1 & Hstep & Hrun).
    rewrite <- Hc in Hstep.
    destruct (intern_result_spec c tid s rest (t_outs t)) as (R1 & R2 & R3 & R4).
    set (cf := intern_result c tid s rest (t_outs t) (as_arena c) (c_map c) (c_strs c) (c_key c)) in *.
    assert (Hidle : exists u, nth_error (c_threads cf) tid = Some u /\ t_pc u = PIdle).
    { rewrite R2. eexists. split; [eapply ConcInternProofs.nth_error_set_nth_eq; eauto|reflexivity]. }
    destruct (solo_run_loop tid c1 cf Hrun Hidle) as (n & Hloop).
    exists n. intros fuel Hf. cbn zeta. unfold run_solo. rewrite Hstep, (Hloop fuel Hf).
    split; [|auto].
    unfold quiescent. rewrite R2. apply Forall_set_nth; [exact Hq|reflexivity].
  Qed.

  (* the same, from the two invariants *)
  Corollary solo_intern_inv c tid t s rest :
    AInv c -> JInv shard_of keycap c -> quiescent c ->
    nth_error (c_threads c) tid = Some t -> t_prog t = CIntern s :: rest ->
    exists n, forall fuel, (n <= fuel)%nat ->
      let c' := run_solo c tid fuel in
      let TR := t_intern keycap (trodeo_of c) s in
      quiescent c' /\
      trodeo_of c' = fst TR /\
      c_threads c' = set_nth tid (mkThread PIdle (CIntern s) rest
                                           ((CIntern s, cout_of_res (snd TR)) :: t_outs t)) (c_threads c) /\
      c_locks c' = [] /\
      ((c_map c' = c_map c /\ c_strs c' = c_strs c) \/
       (exists r k, snd TR = Ok k /\ c_map c' = c_map c ++ [mkEntry r s k] /\
                    c_strs c' = strs_put (mkEntry r s k) (c_strs c))).
  Proof.
    intros HA HJ Hq. apply solo_intern; auto.
    - pose proof (ai_nodup _ HA) as Hnd. unfold all_blocks in Hnd. rewrite map_app in Hnd.
      eapply ConcArenaProofs.NoDup_app_l; eauto.
    - destruct (c_locks c) as [|(sh & h) L] eqn:El; auto. exfalso.
      destruct (ji_locks_held _ _ _ HJ sh h) as (u & s0 & Hu & Hh & _); [rewrite El; now left|].
      unfold quiescent in Hq. rewrite Forall_forall in Hq.
      pose proof (Hq u (nth_error_In _ _ Hu)) as Hpc. unfold holds in Hh. rewrite Hpc in Hh.
      discriminate.
  Qed.

  (* ---- every call ---- *)

  (* the sequential model's transition for each call of the concurrent model's vocabulary
     (the ThreadedRodeo cases of [Rodeo.step]: Intern, InternStatic, Get, TryResolve, SetLimit,
     CurMem) *)
  Definition seq_call (t : trodeo) (cl : call) : trodeo * cout :=
    match cl with
    | CIntern s => let (t', R) := t_intern keycap t s in (t', cout_of_res R)
    | CInternStatic addr s => let (t', R) := t_intern_static keycap t addr s in (t', cout_of_res R)
    | CGet s => (t, match t_get t s with Some k => ROk k | None => RNone end)
    | CResolve k => (t, match t_resolve t k with Some s => RStr s | None => RNone end)
    | CSetLimit x => (t_set_limit t x, RUnit)
    | CUsage => (t, RNum (usage (tar t)))
    end.

  Lemma sget_t_ref c k : sget (c_strs c) k = t_ref (trodeo_of c) k.
  Proof.
    unfold sget, t_ref, trodeo_of. cbn [tstrs]. rewrite find_map. cbn [fst snd].
    destruct (find _ (c_strs c)); reflexivity.
  Qed.

  Definition call_str (cl : call) : option str :=
    match cl with CIntern s | CInternStatic _ s => Some s | _ => None end.

  Lemma call_result_spec c tid cl pr outs :
    let c' := call_result c tid cl pr outs (as_arena c) (c_map c) (c_strs c) (c_key c) in
    let TR := seq_call (trodeo_of c) cl in
    trodeo_of c' = fst TR /\
    c_threads c' = set_nth tid (mkThread PIdle cl pr ((cl, snd TR) :: outs)) (c_threads c) /\
    c_locks c' = [] /\
    ((c_map c' = c_map c /\ c_strs c' = c_strs c) \/
     (exists r s k, call_str cl = Some s /\ snd TR = ROk k /\ c_map c' = c_map c ++ [mkEntry r s k] /\
                    c_strs c' = strs_put (mkEntry r s k) (c_strs c))).
  Proof.
    cbn zeta. destruct cl as [s|addr s|s|k|x|]; unfold call_result, seq_call.
    - destruct (intern_result_spec c tid s pr outs) as (R1 & R2 & R3 & R4).
      destruct (t_intern keycap (trodeo_of c) s) as (t' & R) eqn:Et. cbn [fst snd] in *.
      split; [exact R1|]. split; [exact R2|]. split; [exact R3|].
      destruct R4 as [R4|(r & k & -> & R5 & R6)]; [left; exact R4|].
      right. exists r, s, k. cbn [call_str cout_of_res]. auto.
    - unfold Rodeo.t_intern_static. rewrite <- (map_get_t_get c s).
      change (map_get c s) with (mget (as_arena c) (c_map c) s).
      destruct (mget (as_arena c) (c_map c) s) as [k|].
      + rewrite trodeo_of_St. cbn [fst snd cout_of_res]. repeat split; auto.
      + change (tkey (trodeo_of c)) with (c_key c). unfold Rodeo.try_key.
        destruct (c_key c <? keycap).
        * rewrite trodeo_of_St. cbn [fst snd cout_of_res].
          split; [|split; [reflexivity|split; [reflexivity|]]].
          -- unfold trodeo_of. cbn [tmap tstrs tkey tar]. rewrite map_app, strs_put_insert. reflexivity.
          -- right. exists (RStatic addr s), s, (c_key c). auto.
        * rewrite trodeo_of_St. cbn [fst snd cout_of_res]. repeat split; auto.
    - rewrite trodeo_of_St. cbn [fst snd]. rewrite <- (map_get_t_get c s).
      change (map_get c s) with (mget (as_arena c) (c_map c) s). repeat split; auto.
    - rewrite trodeo_of_St. cbn [fst snd]. unfold t_resolve. rewrite <- (sget_t_ref c k).
      change (tar (trodeo_of c)) with (as_arena c).
      split; [reflexivity|]. split; [|split; [reflexivity|left; auto]].
      destruct (sget (c_strs c) k) as [r|]; [|reflexivity].
      destruct (read (as_arena c) r); reflexivity.
    - rewrite trodeo_of_St. cbn [fst snd]. repeat split; auto.
    - rewrite trodeo_of_St. cbn [fst snd]. repeat split; auto.
  Qed.

  (* B, for every call of the vocabulary: a thread that runs its next call alone from a
     quiescent state performs exactly [seq_call] on [trodeo_of] *)
  Theorem solo_call c tid t cl rest :
    NoDup (map bid (c_blocks c)) -> c_locks c = [] -> quiescent c ->
    nth_error (c_threads c) tid = Some t -> t_prog t = cl :: rest ->
    exists n, forall fuel, (n <= fuel)%nat ->
      let c' := run_solo c tid fuel in
      let TR := seq_call (trodeo_of c) cl in
      quiescent c' /\
      trodeo_of c' = fst TR /\
      c_threads c' = set_nth tid (mkThread PIdle cl rest ((cl, snd TR) :: t_outs t)) (c_threads c) /\
      c_locks c' = [] /\
      ((c_map c' = c_map c /\ c_strs c' = c_strs c) \/
       (exists r s k, call_str cl = Some s /\ snd TR = ROk k /\ c_map c' = c_map c ++ [mkEntry r s k] /\
                      c_strs c' = strs_put (mkEntry r s k) (c_strs c))).
  Proof.
    intros Hnd Hl Hq Hn Hp.
    assert (Hpc : t_pc t = PIdle).
    { unfold quiescent in Hq. rewrite Forall_forall in Hq. apply Hq. eapply nth_error_In; eauto. }
    pose proof (St_init c tid t Hn) as Hc. rewrite Hl in Hc.
    assert (Ht : t = mkThread PIdle (t_call t) (cl :: rest) (t_outs t)).
    { destruct t; cbn in *; subst; reflexivity. }
    rewrite Ht in Hc.
    destruct (phase_any_call c tid t Hn cl rest (t_call t) (t_outs t) (as_arena c) (c_map c) (c_strs c)
                             (c_key c) Hnd) as (c1 & Hstep & Hrun).
    rewrite <- Hc in Hstep.
    destruct (call_result_spec c tid cl rest (t_outs t)) as (R1 & R2 & R3 & R4).
    set (cf := call_result c tid cl rest (t_outs t) (as_arena c) (c_map c) (c_strs c) (c_key c)) in *.
    assert (Hidle : exists u, nth_error (c_threads cf) tid = Some u /\ t_pc u = PIdle).
    { rewrite R2. eexists. split; [eapply ConcInternProofs.nth_error_set_nth_eq; eauto|reflexivity]. }
    destruct (solo_run_loop tid c1 cf Hrun Hidle) as (n & Hloop).
    exists n. intros fuel Hf. cbn zeta. unfold run_solo. rewrite Hstep, (Hloop fuel Hf).
    split; [|auto].
    unfold quiescent. rewrite R2. apply Forall_set_nth; [exact Hq|reflexivity].
  Qed.

  Lemma quiescent_side_conditions c :
    AInv c -> JInv shard_of keycap c -> quiescent c ->
    NoDup (map bid (c_blocks c)) /\ c_locks c = [].
  Proof.
    intros HA HJ Hq. split.
    - pose proof (ai_nodup _ HA) as Hnd. unfold all_blocks in Hnd. rewrite map_app in Hnd.
      eapply ConcArenaProofs.NoDup_app_l; eauto.
    - destruct (c_locks c) as [|(sh & h) L] eqn:El; auto. exfalso.
      destruct (ji_locks_held _ _ _ HJ sh h) as (u & s0 & Hu & Hh & _); [rewrite El; now left|].
      unfold quiescent in Hq. rewrite Forall_forall in Hq.
      pose proof (Hq u (nth_error_In _ _ Hu)) as Hpc. unfold holds in Hh. rewrite Hpc in Hh.
      discriminate.
  Qed.

  (* a solo run is a run of the model: what it reaches is reachable *)
  Lemma solo_loop_reachable c0 tid fuel : forall c,
    reachable shard_of keycap c0 c -> reachable shard_of keycap c0 (solo_loop c tid fuel).
  Proof.
    induction fuel as [|f IH]; intros c Hr; cbn [solo_loop]; auto.
    destruct (nth_error (c_threads c) tid) as [t|]; auto.
    destruct (cstep c tid false) as [c'|] eqn:Es; [|destruct (t_pc t); auto].
    assert (Hr' : reachable shard_of keycap c0 (solo_loop c' tid f)).
    { apply IH. eapply reach_step; eauto. }
    destruct (t_pc t); auto.
  Qed.

  Theorem run_solo_reachable c0 c tid fuel :
    reachable shard_of keycap c0 c -> reachable shard_of keycap c0 (run_solo c tid fuel).
  Proof.
    intros Hr. unfold run_solo. destruct (cstep c tid false) as [c'|] eqn:Es; auto.
    apply solo_loop_reachable. eapply reach_step; eauto.
  Qed.

  (* A and B together: from a quiescent state reachable from [init], a solo call is the
     sequential call, and the state it ends in is again a well-formed ThreadedRodeo *)
  Theorem solo_call_from_init cap lim progs c tid t cl rest :
    0 < cap -> reachable shard_of keycap (init cap lim progs) c -> quiescent c ->
    nth_error (c_threads c) tid = Some t -> t_prog t = cl :: rest ->
    exists n, forall fuel, (n <= fuel)%nat ->
      let c' := run_solo c tid fuel in
      let TR := seq_call (trodeo_of c) cl in
      reachable shard_of keycap (init cap lim progs) c' /\ quiescent c' /\
      trodeo_of c' = fst TR /\
      (exists u, nth_error (c_threads c') tid = Some u /\ t_pc u = PIdle /\ t_prog u = rest /\
                 t_outs u = (cl, snd TR) :: t_outs t) /\
      (exists cs cs', TInv keycap (trodeo_of c) cs /\ TInv keycap (fst TR) cs').
  Proof.
    intros Hcap Hr Hq Hn Hp.
    destruct (reachable_invariants shard_of keycap cap lim progs Hcap c Hr) as (HA & (HJ & HX) & _).
    destruct (quiescent_side_conditions c HA HJ Hq) as (Hnd & Hl).
    destruct (solo_call c tid t cl rest Hnd Hl Hq Hn Hp) as (n & Hsolo).
    exists n. intros fuel Hf. cbn zeta.
    destruct (Hsolo fuel Hf) as (Q1 & Q2 & Q3 & Q4 & _).
    assert (Hr' : reachable shard_of keycap (init cap lim progs) (run_solo c tid fuel))
      by now apply run_solo_reachable.
    split; [exact Hr'|]. split; [exact Q1|]. split; [exact Q2|]. split.
    - rewrite Q3. eexists. split; [eapply ConcInternProofs.nth_error_set_nth_eq; eauto|].
      cbn [t_pc t_prog t_outs]. auto.
    - destruct (quiescent_is_TInv shard_of keycap cap lim progs Hcap c Hr Hq) as (cs & HT & _).
      destruct (quiescent_is_TInv shard_of keycap cap lim progs Hcap _ Hr' Q1) as (cs' & HT' & _).
      rewrite Q2 in HT'. eauto.
  Qed.
End Solo.

Print Assumptions quiescent_TInv.
Print Assumptions quiescent_is_TInv.
Print Assumptions quiescent_into_reader.
Print Assumptions quiescent_strings.
Print Assumptions quiescent_obj_inv.
Print Assumptions t_pairs_enumerate.
Print Assumptions step_iter_threaded.
Print Assumptions step_ser_threaded.
Print Assumptions C14_roundtrip_threaded.
Print Assumptions step_extend_is_intern_loop.
Print Assumptions step_from_iter_is_extend.
Print Assumptions solo_intern.
Print Assumptions solo_intern_inv.
Print Assumptions solo_call.
Print Assumptions run_solo_reachable.
Print Assumptions solo_call_from_init.
