(* Bridge.v — connecting the pieces of the development that are proved separately.

   A. The concurrent model (Conc.v) at quiescence IS a well-formed sequential ThreadedRodeo:
      [trodeo_of c] satisfies [TInv] with the content the key -> string map holds
      ([quiescent_is_TInv]), so every sequential theorem about views, serialisation, equality
      and iteration applies to interners "populated concurrently".
   B. One thread running alone from a quiescent state performs the sequential model's call
      ([run_solo], see the section for what is proved).
   C. The key-ordered listing of a ThreadedRodeo is the enumerated content
      ([t_pairs_enumerate]); serialisation and the serde round trip on top of it.
   D. [Extend] / [FromIter] at world level are loops of [InternP] that stop at the first panic. *)
From Lasso Require Import Base Arena ArenaProofs Rodeo RodeoInv RodeoProofs ThreadedInv
  CloneSerdeProofs ThreadedProofs IterEqProofs WorldProofs
  Conc ConcInv ConcArenaProofs ConcInternProofs ConcTheorems.
From Coq Require Import Permutation Sorted.

#[local] Arguments DOk {A} a.
#[local] Arguments DErr {A}.
#[local] Arguments DPanic {A}.

(* ====================================================================================== *)
(* A. quiescent concurrent state = sequential ThreadedRodeo                                *)
(* ====================================================================================== *)

Definition trodeo_of (c : cstate) : trodeo :=
  mkT (map (fun e => (e_ref e, e_key e)) (c_map c))
      (map (fun e => (e_key e, e_ref e)) (c_strs c))
      (c_key c) (as_arena c).

Lemma flat_map_nil_all {A B} (f : A -> list B) l :
  (forall x, In x l -> f x = []) -> flat_map f l = [].
Proof.
  induction l as [|x l IH]; simpl; auto. intros H. rewrite (H x) by auto. apply IH. auto.
Qed.

Lemma quiescent_no_inflight c : quiescent c -> inflight_blocks c = [].
Proof.
  intros Hq. unfold quiescent in Hq. rewrite Forall_forall in Hq.
  unfold inflight_blocks. apply flat_map_nil_all. intros t Ht.
  unfold inflight_block. now rewrite (Hq t Ht).
Qed.

Lemma quiescent_all_blocks c : quiescent c -> all_blocks c = c_blocks c.
Proof. intros Hq. unfold all_blocks. rewrite (quiescent_no_inflight c Hq). apply app_nil_r. Qed.

Lemma quiescent_tregions c : quiescent c -> tregions (c_threads c) = [].
Proof.
  intros Hq. unfold quiescent in Hq. rewrite Forall_forall in Hq.
  unfold tregions. apply flat_map_nil_all. intros t Ht.
  unfold thread_regions. now rewrite (Hq t Ht).
Qed.

(* the arena of a quiescent state is a well-formed sequential arena *)
Lemma quiescent_ArenaInv c : AInv c -> quiescent c -> ArenaInv (as_arena c).
Proof.
  intros HA Hq. pose proof (quiescent_all_blocks c Hq) as Hall.
  unfold ArenaInv, as_arena; cbn [blocks bucket_cap usage limit next_bid].
  split; [apply HA|]. split; [rewrite <- Hall; apply HA|].
  split; [rewrite <- Hall; apply HA|]. split; [rewrite <- Hall; apply HA|].
  split; [|apply HA].
  now apply C09_accounting_quiescent.
Qed.

(* region disjointness of the key -> string entries is reference disjointness *)
Lemma sregions_refs_disjoint l :
  ForallOrdPairs region_disjoint (sregions l) -> ForallOrdPairs refs_disjoint (map e_ref l).
Proof.
  induction l as [|e l IH]; cbn [sregions flat_map map]; intros H; [constructor|].
  fold (sregions l) in H. apply FOP_app in H as (_ & H2 & H3).
  constructor; [|apply IH; exact H2].
  rewrite Forall_forall. intros r Hr. apply in_map_iff in Hr as (e' & <- & He').
  destruct (e_ref e) as [|a0 s0|b o n] eqn:E1; cbn [refs_disjoint]; auto.
  destruct (e_ref e') as [|a1 s1|b' o' n'] eqn:E2; auto.
  assert (Hd : region_disjoint (mkRegion b o n (e_str e) true) (mkRegion b' o' n' (e_str e') true)).
  { apply H3.
    - cbn [region_of_ref]. now left.
    - unfold sregions. apply in_flat_map. exists e'. split; auto. rewrite E2. now left. }
  exact Hd.
Qed.

Lemma strs_ok_of_entries c :
  AInv c -> NoDup (strs_of (c_strs c)) -> quiescent c ->
  strs_ok (map e_ref (c_strs c)) (as_arena c) (map e_str (c_strs c)).
Proof.
  intros HA Hnd Hq.
  pose proof (ai_strs_denote _ HA) as Hden. rewrite Forall_forall in Hden.
  split; [|split; [|split]].
  - rewrite Forall_forall. intros r Hr. apply in_map_iff in Hr as (e & <- & He).
    apply (Hden e He).
  - apply sregions_refs_disjoint. pose proof (ai_disjoint _ HA) as Hd.
    rewrite regions_split in Hd. apply FOP_app in Hd as (Hd & _). exact Hd.
  - apply contents_map_iff. rewrite Forall_forall. intros e He. apply (Hden e He).
  - exact Hnd.
Qed.

Section Quiescent.
  Variable shard_of : str -> N.
  Variable keycap : N.

  Notation JInv' := (JInv' shard_of keycap).
  Notation TInv := (TInv keycap).

  (* the core statement, on the two invariants *)
  Theorem quiescent_TInv c :
    AInv c -> JInv' c -> quiescent c ->
    exists cs, TInv (trodeo_of c) cs /\
      (forall k s, nth_error cs (N.to_nat k) = Some s <->
                   exists e, In e (c_strs c) /\ e_key e = k /\ e_str e = s).
  Proof.
    intros HA HJ' Hq. pose proof HJ' as [HJ _].
    destruct (C03_dense_when_quiescent shard_of keycap c HJ' Hq) as (_ & Hsame & Hrange & Hndk & Hlen).
    (* the entries sorted by key *)
    assert (Hperm : Permutation (keys_of (c_strs c)) (map N.of_nat (seq 0 (length (keys_of (c_strs c)))))).
    { apply dense_keys_perm; auto. intros k Hk. apply Hrange in Hk.
      unfold keys_of. rewrite map_length. lia. }
    unfold keys_of in Hperm. rewrite map_length in Hperm.
    destruct (Permutation_map_inv e_key _ (Permutation_sym Hperm)) as (l3 & Hsorted & Hp3).
    pose proof (strs_ok_of_entries c HA (ji_strs_strs_nodup _ _ _ HJ) Hq) as Hs.
    assert (Hlook : forall {B} (g : entry -> B) k b,
              In (k, b) (map (fun x => (e_key x, g x)) (c_strs c)) <->
              nth_error (map g l3) (N.to_nat k) = Some b).
    { intros B g k b. rewrite (perm_in_iff (fun x => (e_key x, g x)) _ l3 (k, b) Hp3).
      eapply sorted_lookup. symmetry. exact Hsorted. }
    exists (map e_str l3). split.
    - split; [now apply quiescent_ArenaInv|]. exists (map e_ref l3).
      unfold trodeo_of; cbn [tar tstrs tmap tkey].
      split; [eapply strs_ok_perm; eauto|].
      split; [rewrite map_map; cbn [fst]; exact Hndk|].
      split; [intros k r; apply Hlook|].
      split; [rewrite map_map; cbn [snd]; apply (ji_map_keys_nodup _ _ _ HJ)|].
      split.
      + intros r k. rewrite !in_map_iff.
        split; intros (e & Heq & He); exists e; (split; [|apply Hsame; exact He]);
          injection Heq as <- <-; reflexivity.
      + rewrite map_length, <- (Permutation_length Hp3). exact Hlen.
    - intros k s. rewrite <- Hlook, in_map_iff.
      split.
      + intros (e & Heq & He). injection Heq as <- <-. eauto.
      + intros (e & He & <- & <-). eauto.
  Qed.

  Section FromInit.
    Variables cap lim : N.
    Variable progs : list (list call).
    Hypothesis cap_pos : 0 < cap.

    Theorem quiescent_is_TInv c :
      reachable shard_of keycap (init cap lim progs) c -> quiescent c ->
      exists cs, TInv (trodeo_of c) cs /\
        (forall k s, nth_error cs (N.to_nat k) = Some s <->
                     exists e, In e (c_strs c) /\ e_key e = k /\ e_str e = s).
    Proof.
      intros Hr Hq.
      destruct (reachable_invariants shard_of keycap cap lim progs cap_pos c Hr) as (HA & HJ & _).
      now apply quiescent_TInv.
    Qed.

    (* the corollaries: every sequential theorem with premise TInv / obj_inv applies *)
    Corollary quiescent_into_reader hash cand growf c :
      reachable shard_of keycap (init cap lim progs) c -> quiescent c ->
      exists cs r, TInv (trodeo_of c) cs /\
        t_into_reader hash cand growf (trodeo_of c) = Some r /\ RodeoInv hash keycap r cs /\
        rar r = as_arena c /\ t_strings (trodeo_of c) = Some (rstrs r).
    Proof.
      intros Hr Hq. destruct (quiescent_is_TInv c Hr Hq) as (cs & HT & _).
      destruct (t_into_reader_inv hash cand growf keycap (trodeo_of c) cs HT) as (r & H1 & H2 & H3 & H4).
      exists cs, r. auto.
    Qed.

    Corollary quiescent_strings c :
      reachable shard_of keycap (init cap lim progs) c -> quiescent c ->
      exists cs refs, TInv (trodeo_of c) cs /\
        t_strings (trodeo_of c) = Some refs /\ strs_ok refs (as_arena c) cs.
    Proof.
      intros Hr Hq. destruct (quiescent_is_TInv c Hr Hq) as (cs & HT & _).
      destruct (t_strings_inv keycap _ _ HT) as (refs & H1 & H2). exists cs, refs. auto.
    Qed.

    Corollary quiescent_obj_inv hash c :
      reachable shard_of keycap (init cap lim progs) c -> quiescent c ->
      exists cs, obj_inv hash keycap (OThreaded (trodeo_of c)) cs.
    Proof.
      intros Hr Hq. destruct (quiescent_is_TInv c Hr Hq) as (cs & HT & _).
      exists cs. exact HT.
    Qed.
  End FromInit.
End Quiescent.

(* ====================================================================================== *)
(* C. the key-ordered listing of a ThreadedRodeo                                           *)
(* ====================================================================================== *)

(* the insertion step of [insertion_sort_keys], named *)
Definition ins_key (e : N * sref) : list (N * sref) -> list (N * sref) :=
  fix ins (l : list (N * sref)) :=
    match l with
    | [] => [e]
    | x :: t => if fst e <=? fst x then e :: x :: t else x :: ins t
    end.

Lemma ins_key_nil e : ins_key e [] = [e].
Proof. reflexivity. Qed.

Lemma ins_key_cons e x t :
  ins_key e (x :: t) = if fst e <=? fst x then e :: x :: t else x :: ins_key e t.
Proof. reflexivity. Qed.

Lemma insertion_sort_keys_fold l : insertion_sort_keys l = fold_right ins_key [] l.
Proof. reflexivity. Qed.

Definition klt {B} (x y : N * B) : Prop := fst x < fst y.

Lemma ins_key_in e l x : In x (ins_key e l) <-> x = e \/ In x l.
Proof.
  induction l as [|y l IH]; cbn [ins_key].
  - simpl. split; [intros [H|[]]; auto|intros [H|[]]; auto].
  - destruct (fst e <=? fst y).
    + simpl. split; [intros [H|H]; auto|intros [H|H]; auto].
    + simpl. rewrite IH. tauto.
Qed.

Lemma ins_key_perm e l : Permutation (e :: l) (ins_key e l).
Proof.
  induction l as [|y l IH]; cbn [ins_key]; [apply Permutation_refl|].
  destruct (fst e <=? fst y); [apply Permutation_refl|].
  eapply Permutation_trans; [apply perm_swap|]. now apply perm_skip.
Qed.

Lemma ins_key_sorted e l :
  StronglySorted klt l -> (forall x, In x l -> fst x <> fst e) -> StronglySorted klt (ins_key e l).
Proof.
  induction l as [|y l IH]; intros Hs Hne; cbn [ins_key].
  - constructor; constructor.
  - inversion Hs as [|? ? Hs' Hy]; subst.
    assert (Hye : fst y <> fst e) by (apply Hne; now left).
    destruct (fst e <=? fst y) eqn:E; [apply N.leb_le in E|apply N.leb_gt in E].
    + constructor; [exact Hs|]. rewrite Forall_forall in *. intros x [<-|Hx]; unfold klt in *; [lia|].
      specialize (Hy x Hx). lia.
    + constructor.
      * apply IH; auto. intros x Hx. apply Hne. now right.
      * rewrite Forall_forall in *. intros x Hx. apply ins_key_in in Hx as [->|Hx]; unfold klt in *; [lia|].
        now apply Hy.
Qed.

(* correctness of the sort: a permutation, strictly sorted when the keys are distinct *)
Lemma insertion_sort_keys_perm l : Permutation l (insertion_sort_keys l).
Proof.
  rewrite insertion_sort_keys_fold. induction l as [|e l IH]; cbn [fold_right]; [constructor|].
  eapply Permutation_trans; [apply perm_skip; exact IH|]. apply ins_key_perm.
Qed.

Lemma insertion_sort_keys_sorted l :
  NoDup (map fst l) -> StronglySorted klt (insertion_sort_keys l).
Proof.
  rewrite insertion_sort_keys_fold. induction l as [|e l IH]; cbn [fold_right map]; intros Hnd.
  - constructor.
  - inversion Hnd as [|? ? Hnotin Hnd']; subst. apply ins_key_sorted; [auto|].
    intros x Hx Heq. apply Hnotin.
    assert (Hin : In x l).
    { eapply Permutation_in; [apply Permutation_sym; apply (insertion_sort_keys_perm l)|].
      rewrite insertion_sort_keys_fold. exact Hx. }
    rewrite <- Heq. now apply in_map.
Qed.

(* two strictly sorted lists with the same elements are the same list *)
Lemma sorted_same_elements {B} (l1 l2 : list (N * B)) :
  StronglySorted klt l1 -> StronglySorted klt l2 -> (forall x, In x l1 <-> In x l2) -> l1 = l2.
Proof.
  revert l2; induction l1 as [|x l1 IH]; intros l2 H1 H2 Hin.
  - destruct l2 as [|y l2]; auto. exfalso. apply (Hin y). now left.
  - destruct l2 as [|y l2]; [exfalso; apply (Hin x); now left|].
    inversion H1 as [|? ? H1' Hx]; subst. inversion H2 as [|? ? H2' Hy]; subst.
    rewrite Forall_forall in Hx, Hy.
    assert (Hxy : x = y).
    { destruct (proj1 (Hin x) (or_introl eq_refl)) as [E|Hx2]; [now symmetry|].
      destruct (proj2 (Hin y) (or_introl eq_refl)) as [E|Hy1]; [exact E|].
      specialize (Hx _ Hy1). specialize (Hy _ Hx2). unfold klt in *. lia. }
    subst y. f_equal. apply IH; auto.
    intros z. split; intros Hz.
    + destruct (proj1 (Hin z) (or_intror Hz)) as [E|H]; auto.
      subst z. specialize (Hx _ Hz). unfold klt in Hx. lia.
    + destruct (proj2 (Hin z) (or_intror Hz)) as [E|H]; auto.
      subst z. specialize (Hy _ Hz). unfold klt in Hy. lia.
Qed.

(* a list paired with its positions *)
Definition enum_from {B} (b : nat) (l : list B) : list (N * B) :=
  combine (map N.of_nat (seq b (length l))) l.

Lemma enum_from_sorted {B} (l : list B) : forall b, StronglySorted klt (enum_from b l).
Proof.
  unfold enum_from. induction l as [|x l IH]; intros b; cbn [length seq map combine]; constructor; auto.
  rewrite Forall_forall. intros (j & y) Hin. apply in_combine_seq in Hin as (i & -> & _).
  unfold klt; cbn [fst]. lia.
Qed.

Lemma enum_from_read a refs : forall cs b,
  contents refs a = Some cs ->
  all_some (map (fun e : N * sref => match read a (snd e) with
                                     | Some s => Some (fst e, s) | None => None end)
                (enum_from b refs)) = Some (enum_from b cs).
Proof.
  unfold contents, enum_from.
  induction refs as [|r refs IH]; intros cs b H; cbn [map all_some length seq combine] in *.
  - injection H as <-. reflexivity.
  - destruct (read a r) as [s|] eqn:Er; [|discriminate].
    destruct (all_some (map (read a) refs)) as [cs'|] eqn:E; [|discriminate].
    injection H as <-. cbn [snd fst length seq map combine]. rewrite Er, (IH cs' (S b) eq_refl). reflexivity.
Qed.

Section Listing.
  Variable hash : str -> N.
  Variable cand : N -> N -> bool.
  Variable growf : N -> bool.
  Variable keycap : N.

  Notation TInv := (TInv keycap).
  Notation step := (Rodeo.step hash cand growf keycap).
  Notation obj_inv := (obj_inv hash keycap).

  (* under the invariant the sorted key -> string map IS the witness table with its positions *)
  Lemma sorted_tstrs t cs refs :
    TW keycap t cs refs -> insertion_sort_keys (tstrs t) = enum_from 0 refs.
  Proof.
    intros (_ & _ & (H1 & H2 & _) & _).
    apply sorted_same_elements.
    - now apply insertion_sort_keys_sorted.
    - apply enum_from_sorted.
    - intros (k & r). split.
      + intros Hin. eapply Permutation_in in Hin;
          [|apply Permutation_sym; apply insertion_sort_keys_perm].
        apply H2 in Hin. apply in_combine_seq. exists (N.to_nat k). split; auto.
        simpl. now rewrite N2Nat.id.
      + intros Hin. apply in_combine_seq in Hin as (i & -> & Hi). simpl in Hi.
        eapply Permutation_in; [apply insertion_sort_keys_perm|].
        apply H2. now rewrite Nat2N.id.
  Qed.

  (* iteration / strings() / serialisation of a ThreadedRodeo list the content once, in key order *)
  Theorem t_pairs_enumerate t cs : TInv t cs -> obj_pairs (OThreaded t) = Some (enumerate cs).
  Proof.
    intros H. apply TInv_TW in H as (refs & HW). cbn [obj_pairs].
    rewrite (sorted_tstrs _ _ _ HW).
    destruct HW as (_ & (_ & _ & Hc & _) & _).
    apply (enum_from_read (tar t) refs cs 0%nat Hc).
  Qed.

  Definition swap_pair (p : N * str) : str * N := (snd p, fst p).

  Theorem step_iter_threaded w i plan t cs :
    obj_inv (get_obj w i) cs -> get_obj w i = OThreaded t ->
    step w (IterOp i plan) = (w, OItems (map it_of (enumerate cs))) /\
    step w (StringsOp i plan) = (w, OItems (map it_of (enumerate cs))).
  Proof.
    intros Hinv E. rewrite E in Hinv. cbn [WorldProofs.obj_inv] in Hinv.
    cbn [Rodeo.step]. rewrite E, (t_pairs_enumerate _ _ Hinv). split; reflexivity.
  Qed.

  Theorem step_ser_threaded w i t cs :
    obj_inv (get_obj w i) cs -> get_obj w i = OThreaded t ->
    step w (Ser i) = (w, ODoc (DMap (map swap_pair (enumerate cs)))).
  Proof.
    intros Hinv E. rewrite E in Hinv. cbn [WorldProofs.obj_inv] in Hinv.
    cbn [Rodeo.step]. rewrite E, (t_pairs_enumerate _ _ Hinv). reflexivity.
  Qed.

  (* serialise, then deserialise: a ThreadedRodeo with the same content and the counter at the
     number of strings *)
  Theorem C14_roundtrip_threaded t cs :
    TInv t cs ->
    exists t', de_threaded (map swap_pair (enumerate cs)) = DOk t' /\ TInv t' cs /\
               tkey t' = N.of_nat (length cs).
  Proof.
    intros H. pose proof (TInv_len_le_keycap keycap _ _ H) as Hcap.
    assert (Hndc : NoDup cs).
    { destruct H as (_ & refs & (_ & _ & _ & Hnd) & _). exact Hnd. }
    set (l := map swap_pair (enumerate cs)).
    assert (Hfst : map fst l = cs).
    { unfold l. rewrite map_map. cbn [swap_pair fst]. apply enumerate_strs. }
    assert (Hsnd : map snd l = map N.of_nat (seq 0 (length cs))).
    { unfold l. rewrite map_map. cbn [swap_pair snd]. apply enumerate_keys. }
    assert (Hlen : length l = length cs).
    { unfold l. now rewrite map_length, enumerate_length. }
    assert (Hin : forall s k, In (s, k) l <-> nth_error cs (N.to_nat k) = Some s).
    { intros s k. unfold l. rewrite in_map_iff. split.
      - intros ((k' & s') & Heq & Hp). unfold swap_pair in Heq. cbn [fst snd] in Heq.
        injection Heq as -> ->. apply In_nth_error in Hp as (i & Hi).
        apply enumerate_nth in Hi as (-> & Hi). now rewrite Nat2N.id.
      - intros Hn. exists (k, s). split; [reflexivity|].
        unfold enumerate. apply in_combine_seq. exists (N.to_nat k). split; auto.
        simpl. now rewrite N2Nat.id. }
    assert (P1 : NoDup (map fst l)) by (rewrite Hfst; exact Hndc).
    assert (P2 : forall s k, In (s, k) l -> k < keycap).
    { intros s k Hk. apply Hin in Hk.
      assert (N.to_nat k < length cs)%nat by (apply nth_error_Some; congruence). lia. }
    assert (P3 : keys_dense l (repeat false (length l)) = true).
    { apply keys_dense_perm_iff. rewrite Hsnd, Hlen. apply Permutation_refl. }
    destruct (de_threaded_ok keycap l P1 P2 P3) as (t' & cs' & Hde & HT' & Hl' & Hnth & Hkey).
    assert (Heq : cs' = cs).
    { apply list_eq_nth; [lia|]. intros i Hi.
      destruct (nth_error cs' i) as [s|] eqn:E; [|apply nth_error_None in E; lia].
      rewrite <- (Nat2N.id i) in E. apply Hnth, Hin in E. now rewrite Nat2N.id in E. }
    subst cs'. exists t'. split; [exact Hde|]. split; [exact HT'|]. now rewrite Hkey, Hlen.
  Qed.
End Listing.

(* ====================================================================================== *)
(* D. Extend / FromIter are loops of get_or_intern that stop at the first panic            *)
(* ====================================================================================== *)

Lemma set_nth_twice {A} (l : list A) n x y : set_nth n y (set_nth n x l) = set_nth n y l.
Proof. revert n; induction l as [|z l IH]; intros [|n]; simpl; auto. now rewrite IH. Qed.

Lemma set_nth_self {A} (l : list A) n d : set_nth n (nth n l d) l = l.
Proof. revert n; induction l as [|z l IH]; intros [|n]; simpl; auto. now rewrite IH. Qed.

Lemma set_nth_app_new {A} (l : list A) x y : set_nth (length l) y (l ++ [x]) = l ++ [y].
Proof. induction l as [|z l IH]; simpl; auto. now rewrite IH. Qed.

Section ExtendLoop.
  Variable hash : str -> N.
  Variable cand : N -> N -> bool.
  Variable growf : N -> bool.
  Variable keycap : N.

  Notation step := (Rodeo.step hash cand growf keycap).
  Notation run := (Rodeo.run hash cand growf keycap).
  Notation intern := (intern hash cand growf keycap).
  Notation t_intern := (t_intern keycap).
  Notation r_extend := (r_extend hash cand growf keycap).
  Notation t_extend := (t_extend keycap).

  Definition is_panic (o : out) : bool := match o with OPanic => true | _ => false end.

  (* the prefix of [l] up to and including the first string whose get_or_intern panics
     (all of [l] if none does), following the world along *)
  Fixpoint extend_prefix (w : world) (i : nat) (l : list str) : list str :=
    match l with
    | [] => []
    | s :: rest =>
        if is_panic (snd (step w (InternP i s))) then [s]
        else s :: extend_prefix (fst (step w (InternP i s))) i rest
    end.

  Definition interner_at (w : world) (i : nat) : Prop :=
    (exists r, get_obj w i = ORodeo r) \/ (exists t, get_obj w i = OThreaded t).

  Lemma interner_lt w i : interner_at w i -> (i < length w)%nat.
  Proof. intros [(r & E)|(t & E)]; apply get_obj_lt; rewrite E; discriminate. Qed.

  Lemma extend_prefix_is_prefix l : forall w i, exists rest, l = extend_prefix w i l ++ rest.
  Proof.
    induction l as [|s l IH]; intros w i; cbn [extend_prefix]; [exists []; reflexivity|].
    destruct (is_panic _).
    - exists l. reflexivity.
    - destruct (IH (fst (step w (InternP i s))) i) as (rest & Hr). exists rest.
      cbn [app]. now rewrite <- Hr.
  Qed.

  Lemma run_cons w o ops :
    run w (o :: ops) = (fst (run (fst (step w o)) ops), snd (step w o) :: snd (run (fst (step w o)) ops)).
  Proof.
    cbn [Rodeo.run]. destruct (step w o) as (w' & x). cbn [fst snd].
    destruct (run w' ops) as (w'' & xs). reflexivity.
  Qed.

  (* Rodeo *)
  Lemma extend_loop_rodeo l : forall w i r,
    get_obj w i = ORodeo r ->
    let res := run w (map (InternP i) (extend_prefix w i l)) in
    fst (step w (Extend i l)) = fst res /\
    snd (step w (Extend i l)) = (if existsb is_panic (snd res) then OPanic else OUnit) /\
    (existsb is_panic (snd res) = false -> extend_prefix w i l = l).
  Proof.
    induction l as [|s l IH]; intros w i r E.
    - cbn [extend_prefix map Rodeo.run Rodeo.step Rodeo.r_extend fst snd existsb]. rewrite E.
      cbn [fst snd]. split; [|split; auto]. rewrite <- E. apply set_nth_self.
    - assert (Hlt : (i < length w)%nat) by (apply get_obj_lt; rewrite E; discriminate).
      cbn zeta. cbn [extend_prefix].
      assert (HP : step w (InternP i s) =
                   (set_obj w i (ORodeo (fst (intern r s))), out_of_resP (snd (intern r s)))).
      { cbn [Rodeo.step]. rewrite E. destruct (intern r s); reflexivity. }
      assert (HE : step w (Extend i (s :: l)) =
                   match snd (intern r s) with
                   | Ok _ => step (set_obj w i (ORodeo (fst (intern r s)))) (Extend i l)
                   | Err _ => (set_obj w i (ORodeo (fst (intern r s))), OPanic)
                   end).
      { cbn [Rodeo.step]. rewrite E. cbn [Rodeo.r_extend].
        destruct (intern r s) as (r' & [k|e]); cbn [fst snd]; [|reflexivity].
        rewrite (get_set_same w i (ORodeo r') Hlt). unfold set_obj. rewrite set_nth_twice.
        reflexivity. }
      rewrite HE, HP. cbn [fst snd].
      destruct (snd (intern r s)) as [k|e]; cbn [out_of_resP is_panic].
      + cbn [map]. rewrite run_cons, HP. cbn [fst snd out_of_resP existsb is_panic orb].
        apply (IH _ i (fst (intern r s))). apply get_set_same; exact Hlt.
      + cbn [map]. rewrite run_cons, HP. cbn [fst snd Rodeo.run out_of_resP existsb is_panic orb].
        split; [reflexivity|]. split; [reflexivity|discriminate].
  Qed.

  (* ThreadedRodeo *)
  Lemma extend_loop_threaded l : forall w i t,
    get_obj w i = OThreaded t ->
    let res := run w (map (InternP i) (extend_prefix w i l)) in
    fst (step w (Extend i l)) = fst res /\
    snd (step w (Extend i l)) = (if existsb is_panic (snd res) then OPanic else OUnit) /\
    (existsb is_panic (snd res) = false -> extend_prefix w i l = l).
  Proof.
    induction l as [|s l IH]; intros w i t E.
    - cbn [extend_prefix map Rodeo.run Rodeo.step Rodeo.t_extend fst snd existsb]. rewrite E.
      cbn [fst snd]. split; [|split; auto]. rewrite <- E. apply set_nth_self.
    - assert (Hlt : (i < length w)%nat) by (apply get_obj_lt; rewrite E; discriminate).
      cbn zeta. cbn [extend_prefix].
      assert (HP : step w (InternP i s) =
                   (set_obj w i (OThreaded (fst (t_intern t s))), out_of_resP (snd (t_intern t s)))).
      { cbn [Rodeo.step]. rewrite E. destruct (t_intern t s); reflexivity. }
      assert (HE : step w (Extend i (s :: l)) =
                   match snd (t_intern t s) with
                   | Ok _ => step (set_obj w i (OThreaded (fst (t_intern t s)))) (Extend i l)
                   | Err _ => (set_obj w i (OThreaded (fst (t_intern t s))), OPanic)
                   end).
      { cbn [Rodeo.step]. rewrite E. cbn [Rodeo.t_extend].
        destruct (t_intern t s) as (t' & [k|e]); cbn [fst snd]; [|reflexivity].
        rewrite (get_set_same w i (OThreaded t') Hlt). unfold set_obj. rewrite set_nth_twice.
        reflexivity. }
      rewrite HE, HP. cbn [fst snd].
      destruct (snd (t_intern t s)) as [k|e]; cbn [out_of_resP is_panic].
      + cbn [map]. rewrite run_cons, HP. cbn [fst snd out_of_resP existsb is_panic orb].
        apply (IH _ i (fst (t_intern t s))). apply get_set_same; exact Hlt.
      + cbn [map]. rewrite run_cons, HP. cbn [fst snd Rodeo.run out_of_resP existsb is_panic orb].
        split; [reflexivity|]. split; [reflexivity|discriminate].
  Qed.

  (* C17: Extend is the loop of get_or_intern over the iterator, stopped by the first panic;
     it answers () exactly when no get_or_intern panicked (and then the whole list was fed) *)
  Theorem step_extend_is_intern_loop w i l :
    interner_at w i ->
    let l' := extend_prefix w i l in
    let res := run w (map (InternP i) l') in
    fst (step w (Extend i l)) = fst res /\
    (snd (step w (Extend i l)) = OUnit <-> ~ In OPanic (snd res)) /\
    (snd (step w (Extend i l)) = OPanic <-> In OPanic (snd res)) /\
    (snd (step w (Extend i l)) = OUnit -> l' = l) /\
    (exists rest, l = l' ++ rest).
  Proof.
    intros Hi. cbn zeta.
    assert (H : fst (step w (Extend i l)) = fst (run w (map (InternP i) (extend_prefix w i l))) /\
                snd (step w (Extend i l)) =
                  (if existsb is_panic (snd (run w (map (InternP i) (extend_prefix w i l))))
                   then OPanic else OUnit) /\
                (existsb is_panic (snd (run w (map (InternP i) (extend_prefix w i l)))) = false ->
                 extend_prefix w i l = l)).
    { destruct Hi as [(r & E)|(t & E)];
        [exact (extend_loop_rodeo l w i r E)|exact (extend_loop_threaded l w i t E)]. }
    destruct H as (H1 & H2 & H3).
    set (outs := snd (run w (map (InternP i) (extend_prefix w i l)))) in *.
    assert (Hex : existsb is_panic outs = true <-> In OPanic outs).
    { rewrite existsb_exists. split.
      - intros (x & Hx & Hp). destruct x; try discriminate. exact Hx.
      - intros Hin. exists OPanic. auto. }
    split; [exact H1|]. rewrite H2.
    destruct (existsb is_panic outs) eqn:Eb.
    - assert (Hin : In OPanic outs) by (apply Hex; reflexivity).
      split; [split; [discriminate|intros Hn; contradiction]|].
      split; [split; auto|]. split; [discriminate|apply extend_prefix_is_prefix].
    - assert (Hnin : ~ In OPanic outs) by (intros Hin; apply Hex in Hin; discriminate).
      split; [split; auto|].
      split; [split; [discriminate|intros Hin; contradiction]|].
      split; [intros _; apply H3; reflexivity|apply extend_prefix_is_prefix].
  Qed.

  (* FromIterator: Extend into a fresh interner with the default capacity, published in a new
     slot when no get_or_intern panicked *)
  Theorem step_from_iter_is_extend w threaded l :
    let fresh := if threaded then OThreaded (trodeo_new default_bytes usize_max)
                 else ORodeo (rodeo_new default_bytes usize_max) in
    let ext := step (w ++ [fresh]) (Extend (length w) l) in
    interner_at (w ++ [fresh]) (length w) /\
    (snd ext = OUnit -> step w (FromIter threaded l) = (fst ext, ONew (N.of_nat (length w)))) /\
    (snd ext <> OUnit -> step w (FromIter threaded l) = (w, OPanic)).
  Proof.
    cbn zeta. destruct threaded.
    - split; [right; eexists; apply get_app_new|].
      cbn [Rodeo.step]. rewrite get_app_new.
      destruct (t_extend (trodeo_new default_bytes usize_max) l) as (t' & [|]); cbn [fst snd].
      + split; [|intros H; contradiction]. intros _. unfold new_slot, set_obj.
        now rewrite set_nth_app_new.
      + split; [discriminate|reflexivity].
    - split; [left; eexists; apply get_app_new|].
      cbn [Rodeo.step]. rewrite get_app_new.
      destruct (r_extend (rodeo_new default_bytes usize_max) l) as (r' & [|]); cbn [fst snd].
      + split; [|intros H; contradiction]. intros _. unfold new_slot, set_obj.
        now rewrite set_nth_app_new.
      + split; [discriminate|reflexivity].
  Qed.
End ExtendLoop.
