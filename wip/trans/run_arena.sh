#!/bin/sh
# run_arena.sh <repo> <workdir> -- regenerate ArenaGen.v from <repo>/src/arenas/{bucket,single_threaded}.rs and check
# ArenaGenProofs.v against it.  Works in <workdir> (created; the hand-written files are COPIED there).
# Exit 0 iff the translator succeeds and every theorem is proved and closed.  One line per theorem.
set -u
HERE=$(cd "$(dirname "$0")" && pwd)
REPO=${1:?usage: run_arena.sh <repo> <workdir>}
WORK=${2:?usage: run_arena.sh <repo> <workdir>}
COQ_LASSO=${LASSO_COQ_DIR:-/verif/coq}
mkdir -p "$WORK" || exit 2
cp "$HERE/GenPrelude.v" "$HERE/GenIR.v" "$HERE/GenTactics.v" "$HERE/ArenaGenProofs.v" "$WORK/" || exit 2
rm -f "$WORK/ArenaGen.v" "$WORK"/ArenaGen.vo "$WORK"/ArenaGenProofs.vo
python3 "$HERE/rust2coq.py" --repo "$REPO" --out "$WORK" --only arena || { echo "run_arena: TRANSLATOR LOST"; exit 1; }
cd "$WORK" || exit 2
for f in GenPrelude GenIR GenTactics ArenaGen; do
  timeout 300 coqc -Q "$COQ_LASSO" Lasso -Q . LassoGen $f.v || { echo "run_arena: $f.v does not compile"; exit 1; }
done
python3 "$HERE/check_thms.py" "$WORK" ArenaGenProofs.v
rc=$?
[ $rc -eq 0 ] && echo "run_arena: OK" || echo "run_arena: FAIL"
exit $rc
