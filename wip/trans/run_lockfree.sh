#!/bin/sh
# run_lockfree.sh <repo> <workdir> -- regenerate LockfreeGen.v from <repo>/src/arenas/{atomic_bucket,lockfree}.rs and check
# LockfreeGenProofs.v and AtomicBucketGenProofs.v against them (LockfreeGen.v, AtomicBucketGen.v).  Works in <workdir> (created; the hand-written files are COPIED there).
# Exit 0 iff the translator succeeds and every theorem is proved and closed.  One line per theorem.
set -u
HERE=$(cd "$(dirname "$0")" && pwd)
REPO=${1:?usage: run_lockfree.sh <repo> <workdir>}
WORK=${2:?usage: run_lockfree.sh <repo> <workdir>}
COQ_LASSO=${LASSO_COQ_DIR:-/verif/coq}
mkdir -p "$WORK" || exit 2
cp "$HERE/GenPrelude.v" "$HERE/GenIR.v" "$HERE/GenTactics.v" "$HERE/GenIRLf.v" "$HERE/GenTacticsLf.v" "$HERE/GenIRAb.v" "$HERE/LockfreeGenProofs.v" "$HERE/AtomicBucketGenProofs.v" "$WORK/" || exit 2
rm -f "$WORK/LockfreeGen.v" "$WORK/AtomicBucketGen.v" "$WORK"/LockfreeGen.vo "$WORK"/AtomicBucketGen.vo "$WORK"/LockfreeGenProofs.vo "$WORK"/AtomicBucketGenProofs.vo
python3 "$HERE/rust2coq.py" --repo "$REPO" --out "$WORK" --only lockfree || { echo "run_lockfree: TRANSLATOR LOST"; exit 1; }
cd "$WORK" || exit 2
for f in GenPrelude GenIR GenTactics GenIRLf GenTacticsLf GenIRAb LockfreeGen AtomicBucketGen; do
  timeout 300 coqc -Q "$COQ_LASSO" Lasso -Q . LassoGen $f.v || { echo "run_lockfree: $f.v does not compile"; exit 1; }
done
python3 "$HERE/check_thms.py" "$WORK" LockfreeGenProofs.v
rc=$?
python3 "$HERE/check_thms.py" "$WORK" AtomicBucketGenProofs.v || rc=1
[ $rc -eq 0 ] && echo "run_lockfree: OK" || echo "run_lockfree: FAIL"
exit $rc
