#!/bin/sh
# run_findings.sh <repo> <workdir> -- INFORMATIONAL: check the witnesses of ArenaFindings.v (obligations of the generated
# programs that do not hold on the naive domain) against the current source.  Not part of the pass/fail chain.
set -u
HERE=$(cd "$(dirname "$0")" && pwd)
REPO=${1:?usage: run_findings.sh <repo> <workdir>}
WORK=${2:?usage: run_findings.sh <repo> <workdir>}
"$HERE/run_arena.sh" "$REPO" "$WORK" > "$WORK.arena.log" 2>&1 || { echo "run_findings: run_arena.sh fails, see $WORK.arena.log"; exit 1; }
cp "$HERE/ArenaFindings.v" "$WORK/" || exit 2
python3 "$HERE/check_thms.py" "$WORK" ArenaFindings.v
