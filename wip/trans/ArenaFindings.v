(* ArenaFindings.v -- HAND-WRITTEN.  Obligations of the generated programs that are NOT provable on the naive
   domain "every size is a usize", each with its witness.  (Informational: compiled by run_findings.sh, not by
   run_arena.sh -- a repair of the source makes these statements false, which is not an alarm.) *)
From Lasso Require Import Base Arena ArenaProofs.
From LassoGen Require Import GenPrelude GenIR GenTactics ArenaGen.
Open Scope N_scope.

(* run the generated program symbolically on the concrete input (the data bytes are never materialised), then
   find the violated obligation among the collected ones *)
Ltac cmp_step :=
  match goal with
  | |- context [N.ltb ?a ?b] => destruct (N.ltb_spec a b); try (exfalso; lia)
  | |- context [N.leb ?a ?b] => destruct (N.leb_spec a b); try (exfalso; lia)
  | |- context [N.eqb ?a ?b] => destruct (N.eqb_spec a b); try (exfalso; lia)
  end.
Ltac refute_obligations :=
  unfold_all; norm_pow;
  repeat (cbn; unfold alloc_spec, push_slice, free_spec, is_full_spec, last_opt; try cmp_step);
  unfold_props; norm_pow; cbn;
  let H := fresh in intros H; split_hyps; lia.

(* Bucket::with_capacity(capacity) calls Layout::from_size_align_unchecked(capacity, 1), whose safety precondition
   is capacity <= isize::MAX.  NonZeroUsize does not ensure that: with capacity = 2^63 (a legal argument of the
   safe constructors Capacity::for_bytes / Rodeo::with_capacity / Arena::new) the obligation is violated.
   In a debug build the preceding debug_assert! panics; in a release build this is a violated `unsafe`
   precondition (in practice the allocator then returns null and FailedAllocation is reported). *)
Theorem with_capacity_layout_obligation_fails :
  let cap := 2 ^ 63 in 0 < cap <= usize_max /\ ~ snd (run_wc gen_with_capacity 0 cap).
Proof.
  cbv zeta. split; [unfold usize_max; lia|].
  refute_obligations.
Qed.

(* the same through Arena::new *)
Theorem new_layout_obligation_fails :
  let cap := 2 ^ 63 in 0 < cap <= usize_max /\ ~ snd (run_new gen_new [cap; usize_max]).
Proof.
  cbv zeta. split; [unfold usize_max; lia|].
  refute_obligations.
Qed.

(* store_str: with a bucket capacity of 2^62 the doubled bucket has 2^63 bytes; ArenaInv and "all fields are
   usizes" hold, usage + 2*cap does not overflow, and still an obligation (wc_pre: the Layout bound) fails.  This
   is why store_dom has the two isize_max clauses. *)
Definition big_arena : arena := mkArena [mkBlock 0 1 1 [0]] (2 ^ 62) 1 usize_max 1.
Theorem store_str_needs_isize_bound :
  ArenaInv big_arena /\ arena_typed big_arena /\
  usage big_arena + 2 * bucket_cap big_arena <= usize_max /\
  ~ snd (run_fun gen_store_str big_arena [7] []).
Proof.
  split; [|split; [|split]].
  - unfold ArenaInv, big_arena, block_ok; cbn. repeat split; try discriminate; try lia;
      repeat constructor; cbn; try lia; try tauto; try reflexivity.
  - unfold arena_typed, big_arena, usize_max; cbn. repeat split; try lia. repeat constructor; cbn; lia.
  - unfold big_arena, usize_max; cbn; norm_pow; lia.
  - unfold big_arena. refute_obligations.
Qed.

Print Assumptions with_capacity_layout_obligation_fails.
Print Assumptions new_layout_obligation_fails.
Print Assumptions store_str_needs_isize_bound.
