(* LockfreeGenProofs.v -- HAND-WRITTEN ONCE (not generated).  The one-thread view of src/arenas/lockfree.rs,
   regenerated as IR terms (LockfreeGen.v) and run by the interpreter of GenIRLf.v, computes the hand-written
   model Arena.lf_store / alloc_spec / arena_new / set_limit for ALL inputs, and on the stated domain every
   collected obligation holds.  One generic tactic, [gen_lf_tac]. *)
From Lasso Require Import Base Arena ArenaProofs.
From LassoGen Require Import GenPrelude GenIR GenIRLf GenTactics GenTacticsLf LockfreeGen.
Open Scope N_scope.

(* ---------------- accessors, constructor, setters ---------------- *)

Theorem gen_lf_current_memory_usage_eq : forall a s,
  as_num (fst (run_lfun gen_lf_current_memory_usage a s [])) = Some (a, usage a)
  /\ snd (run_lfun gen_lf_current_memory_usage a s []).
Proof. gen_lf_tac. Qed.

Theorem gen_lf_get_max_memory_usage_eq : forall a s,
  as_num (fst (run_lfun gen_lf_get_max_memory_usage a s [])) = Some (a, limit a)
  /\ snd (run_lfun gen_lf_get_max_memory_usage a s []).
Proof. gen_lf_tac. Qed.

Theorem gen_lf_new_eq : forall cap lim,
  fst (run_lnew gen_lf_new [cap; lim]) = Some (arena_new cap lim).
Proof. gen_lf_tac. Qed.
Theorem gen_lf_new_safe : forall cap lim, wc_pre cap ->
  snd (run_lnew gen_lf_new [cap; lim]).
Proof. gen_lf_tac. Qed.

Theorem gen_lf_set_max_memory_usage_eq : forall a s m,
  as_unit (fst (run_lfun gen_lf_set_max_memory_usage a s [m])) = Some (set_limit a m)
  /\ snd (run_lfun gen_lf_set_max_memory_usage a s [m]).
Proof. gen_lf_tac. Qed.

Theorem gen_lf_set_bucket_capacity_eq : forall a s c,
  as_unit (fst (run_lfun gen_lf_set_bucket_capacity a s [c]))
  = Some (mkArena (blocks a) c (usage a) (limit a) (next_bid a)).
Proof. gen_lf_tac. Qed.
Theorem gen_lf_set_bucket_capacity_safe : forall a s c, set_cap_pre c ->
  snd (run_lfun gen_lf_set_bucket_capacity a s [c]).
Proof. gen_lf_tac. Qed.

(* ---------------- allocate_memory: the fetch_update closure is the budget check ---------------- *)

Theorem gen_lf_allocate_memory_eq : forall a s n,
  as_unit_result (fst (run_lfun gen_lf_allocate_memory a s [n])) = Some (alloc_spec a n).
Proof. gen_lf_tac. Qed.
Theorem gen_lf_allocate_memory_safe : forall a s n, alloc_pre a n ->
  snd (run_lfun gen_lf_allocate_memory a s [n]).
Proof. gen_lf_tac. Qed.

(* ---------------- store_str ---------------- *)

Theorem gen_lf_store_str_eq : forall a s,
  as_str_result (fst (run_lfun gen_lf_store_str a s [])) = Some (Arena.lf_store a s).
Proof. gen_lf_tac. Qed.

Theorem gen_lf_store_str_safe : forall a s, ArenaInv a -> lf_typed a -> store_dom a s ->
  snd (run_lfun gen_lf_store_str a s []).
Proof. gen_lf_tac. Qed.

Print Assumptions gen_lf_current_memory_usage_eq.
Print Assumptions gen_lf_get_max_memory_usage_eq.
Print Assumptions gen_lf_new_eq.
Print Assumptions gen_lf_new_safe.
Print Assumptions gen_lf_set_max_memory_usage_eq.
Print Assumptions gen_lf_set_bucket_capacity_eq.
Print Assumptions gen_lf_set_bucket_capacity_safe.
Print Assumptions gen_lf_allocate_memory_eq.
Print Assumptions gen_lf_allocate_memory_safe.
Print Assumptions gen_lf_store_str_eq.
Print Assumptions gen_lf_store_str_safe.
