#!/bin/sh
# run_all.sh <repo> <workroot> -- keys, arena and lock-free chains in <workroot>/{keys,arena,lockfree}; exit 0 iff all pass.
set -u
HERE=$(cd "$(dirname "$0")" && pwd)
REPO=${1:?usage: run_all.sh <repo> <workroot>}
ROOT=${2:?usage: run_all.sh <repo> <workroot>}
rc=0
"$HERE/run_keys.sh" "$REPO" "$ROOT/keys" || rc=1
"$HERE/run_arena.sh" "$REPO" "$ROOT/arena" || rc=1
"$HERE/run_lockfree.sh" "$REPO" "$ROOT/lockfree" || rc=1
[ $rc -eq 0 ] && echo "run_all: OK" || echo "run_all: FAIL"
exit $rc
