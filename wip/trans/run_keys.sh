#!/bin/sh
# run_keys.sh <repo> <workdir> -- regenerate KeysGen.v from <repo>/src/keys.rs and check KeysGenProofs.v against it.
# Works in <workdir> (created; the hand-written files are COPIED there), never writes into the directory of this script.
# Exit 0 iff the translator succeeds and every theorem is proved and closed.  One line per theorem.
set -u
HERE=$(cd "$(dirname "$0")" && pwd)
REPO=${1:?usage: run_keys.sh <repo> <workdir>}
WORK=${2:?usage: run_keys.sh <repo> <workdir>}
COQ_LASSO=${LASSO_COQ_DIR:-/verif/coq}
mkdir -p "$WORK" || exit 2
cp "$HERE/GenPrelude.v" "$HERE/KeysGenProofs.v" "$WORK/" || exit 2
rm -f "$WORK/KeysGen.v" "$WORK"/KeysGen.vo "$WORK"/KeysGenProofs.vo
python3 "$HERE/rust2coq.py" --repo "$REPO" --out "$WORK" --only keys || { echo "run_keys: TRANSLATOR LOST"; exit 1; }
cd "$WORK" || exit 2
for f in GenPrelude KeysGen; do
  timeout 300 coqc -Q "$COQ_LASSO" Lasso -Q . LassoGen $f.v || { echo "run_keys: $f.v does not compile"; exit 1; }
done
python3 "$HERE/check_thms.py" "$WORK" KeysGenProofs.v
rc=$?
[ $rc -eq 0 ] && echo "run_keys: OK" || echo "run_keys: FAIL"
exit $rc
