#!/usr/bin/env python3
"""check_thms.py <workdir> <Proofs.v> -- compile a hand-written proofs file against freshly generated definitions
and print one line per `Theorem`:   PROVED <name> | FAILED <name> | OPEN-ASSUMPTIONS <name>

First the whole file is compiled.  If that works, every theorem is PROVED (and the number of
`Closed under the global context` lines must equal the number of `Print Assumptions`).  If it fails, each theorem
is re-checked in isolation (common text + that one theorem) so that the report names every failing theorem, not just
the first.  Exit status 0 iff all theorems are proved and closed."""
import os, re, subprocess, sys

COQ_LASSO = os.environ.get("LASSO_COQ_DIR", "/verif/coq")
FORBIDDEN = re.compile(r"\b(Axiom|Parameter|Conjecture|Admitted|admit|Variable|Hypothesis)\b")


def coqc(workdir, fname):
    cmd = ["timeout", "300", "coqc", "-Q", COQ_LASSO, "Lasso", "-Q", ".", "LassoGen", fname]
    r = subprocess.run(cmd, cwd=workdir, stdout=subprocess.PIPE, stderr=subprocess.STDOUT, universal_newlines=True)
    return r.returncode, r.stdout


def split(text):
    """-> list of ('common', text) / ('thm', name, text)"""
    chunks, cur, mode, name = [], [], "common", None
    for line in text.splitlines(True):
        m = re.match(r"Theorem\s+([A-Za-z0-9_']+)", line)
        if mode == "common" and m:
            if cur: chunks.append(("common", "".join(cur)))
            cur, mode, name = [line], "thm", m.group(1)
            if re.search(r"\bQed\.\s*$", line):
                chunks.append(("thm", name, "".join(cur))); cur, mode = [], "common"
            continue
        cur.append(line)
        if mode == "thm" and re.search(r"\bQed\.\s*$", line):
            chunks.append(("thm", name, "".join(cur))); cur, mode = [], "common"
    if mode == "thm":
        raise SystemExit("check_thms: theorem %s has no Qed" % name)
    if cur: chunks.append(("common", "".join(cur)))
    return chunks


def main():
    workdir, fname = sys.argv[1], sys.argv[2]
    text = open(os.path.join(workdir, fname)).read()
    nocomment = re.sub(r"\(\*.*?\*\)", "", text, flags=re.S)
    m = FORBIDDEN.search(nocomment)
    if m:
        print("FORBIDDEN vernacular `%s` in %s" % (m.group(1), fname)); sys.exit(1)
    chunks = split(text)
    names = [c[1] for c in chunks if c[0] == "thm"]
    rc, out = coqc(workdir, fname)
    if rc == 0:
        closed = out.count("Closed under the global context")
        asked = len(re.findall(r"^Print Assumptions", text, flags=re.M))
        bad = closed != asked or asked < len(names)
        for n in names:
            print("%s %s" % ("OPEN-ASSUMPTIONS" if bad else "PROVED", n))
        if bad: print(out)
        sys.exit(1 if bad else 0)
    # isolate
    print("-- %s does not compile as a whole; first error:" % fname)
    print("\n".join("   " + l for l in out.strip().splitlines()[-8:]))
    ok_all = False
    base = os.path.splitext(fname)[0]
    common = ""
    for c in chunks:
        if c[0] == "common":
            # Print Assumptions lines of other theorems would fail in isolation: drop them
            common += re.sub(r"^Print Assumptions.*$", "", c[1], flags=re.M)
            continue
        tmp = "%s_iso_%s.v" % (base, c[1])
        open(os.path.join(workdir, tmp), "w").write(common + c[2] + "\nPrint Assumptions %s.\n" % c[1])
        rc1, out1 = coqc(workdir, tmp)
        if rc1 == 0 and "Closed under the global context" in out1:
            print("PROVED %s" % c[1])
            common += c[2]          # later theorems may use it
        elif rc1 == 0:
            print("OPEN-ASSUMPTIONS %s" % c[1])
        else:
            err = [l for l in out1.strip().splitlines() if l.strip()]
            print("FAILED %s    (%s)" % (c[1], " ".join(err[-2:])[:160]))
    sys.exit(1)


if __name__ == "__main__":
    main()
