(* ArenaGenProofs.v -- HAND-WRITTEN ONCE (not generated).  For ALL inputs: the IR terms that rust2coq.py
   regenerates from src/arenas/bucket.rs and single_threaded.rs (ArenaGen.v), run by the interpreter of
   GenIR.v, compute exactly the hand-written model Lasso.Arena -- and on the stated domain every
   obligation the interpreter collects (no overflow / underflow, NonZero arguments non-zero,
   debug_assert!s true, Vec::insert index in range, copy destination inside the allocation, each callee's
   precondition) holds.  Every theorem is proved by the one tactic [gen_arena_tac]; the script does not
   follow the shape of the generated terms. *)
From Lasso Require Import Base Arena ArenaProofs.
From LassoGen Require Import GenPrelude GenIR GenTactics ArenaGen.
Open Scope N_scope.

(* ---------------- Bucket (src/arenas/bucket.rs) ---------------- *)

Theorem gen_with_capacity_eq : forall id cap,
  fst (run_wc gen_with_capacity id cap) = Some (fresh_block id cap).
Proof. gen_arena_tac. Qed.
Theorem gen_with_capacity_safe : forall id cap, wc_pre cap ->
  snd (run_wc gen_with_capacity id cap).
Proof. gen_arena_tac. Qed.

Theorem gen_free_elements_eq : forall b s,
  as_bnum (fst (run_bfun gen_free_elements b s [])) = Some (b, free_spec b).
Proof. gen_arena_tac. Qed.
Theorem gen_free_elements_safe : forall b s, free_pre b ->
  snd (run_bfun gen_free_elements b s []).
Proof. gen_arena_tac. Qed.

Theorem gen_is_full_eq : forall b s,
  as_bbool (fst (run_bfun gen_is_full b s [])) = Some (b, is_full_spec b) /\ snd (run_bfun gen_is_full b s []).
Proof. gen_arena_tac. Qed.

Theorem gen_bucket_clear_eq : forall b s,
  as_bunit (fst (run_bfun gen_bucket_clear b s [])) = Some (block_clear b) /\ snd (run_bfun gen_bucket_clear b s []).
Proof. gen_arena_tac. Qed.

Theorem gen_push_slice_eq : forall b s,
  as_bref (fst (run_bfun gen_push_slice b s [])) = Some (Arena.push_slice b s).
Proof. gen_arena_tac. Qed.
(* the unchecked copy stays inside the bucket's allocation whenever the caller keeps push_slice's contract *)
Theorem gen_push_slice_safe : forall b s, push_pre b s ->
  snd (run_bfun gen_push_slice b s []).
Proof. gen_arena_tac. Qed.

(* ---------------- Arena (src/arenas/single_threaded.rs) ---------------- *)

Theorem gen_new_eq : forall cap lim,
  fst (run_new gen_new [cap; lim]) = Some (arena_new cap lim).
Proof. gen_arena_tac. Qed.
Theorem gen_new_safe : forall cap lim, wc_pre cap ->
  snd (run_new gen_new [cap; lim]).
Proof. gen_arena_tac. Qed.

Theorem gen_memory_usage_eq : forall a s,
  as_num (fst (run_fun gen_memory_usage a s [])) = Some (a, usage a) /\ snd (run_fun gen_memory_usage a s []).
Proof. gen_arena_tac. Qed.

Theorem gen_clear_eq : forall a s,
  as_unit (fst (run_fun gen_clear a s [])) = Some (arena_clear a) /\ snd (run_fun gen_clear a s []).
Proof. gen_arena_tac. Qed.

Theorem gen_allocate_memory_eq : forall a s n,
  as_unit_result (fst (run_fun gen_allocate_memory a s [n])) = Some (alloc_spec a n).
Proof. gen_arena_tac. Qed.
Theorem gen_allocate_memory_safe : forall a s n, alloc_pre a n ->
  snd (run_fun gen_allocate_memory a s [n]).
Proof. gen_arena_tac. Qed.

(* store_str computes vec_store: no hypothesis at all is needed for the VALUE *)
Theorem gen_store_str_eq : forall a s,
  as_str_result (fst (run_fun gen_store_str a s [])) = Some (Arena.vec_store a s).
Proof. gen_arena_tac. Qed.

(* ... and on well-formed arenas with representable sizes every obligation holds; in particular every
   push_slice call site establishes push_pre: "the unchecked copy is guarded", for the code as written *)
Theorem gen_store_str_safe : forall a s, ArenaInv a -> arena_typed a -> store_dom a s ->
  snd (run_fun gen_store_str a s []).
Proof. unfold store_dom. gen_arena_tac. Qed.

(* the same domain from the customary bounds "everything is below 2^63" *)
Theorem gen_store_str_safe_63 : forall a s, ArenaInv a -> arena_typed a ->
  usage a <= isize_max -> 2 * bucket_cap a <= isize_max -> slen s <= isize_max ->
  snd (run_fun gen_store_str a s []).
Proof.
  intros a s Hi Ht H1 H2 H3. apply gen_store_str_safe; auto.
  unfold store_dom, isize_max, usize_max in *. lia.
Qed.

Print Assumptions gen_with_capacity_eq.
Print Assumptions gen_with_capacity_safe.
Print Assumptions gen_free_elements_eq.
Print Assumptions gen_free_elements_safe.
Print Assumptions gen_is_full_eq.
Print Assumptions gen_bucket_clear_eq.
Print Assumptions gen_push_slice_eq.
Print Assumptions gen_push_slice_safe.
Print Assumptions gen_new_eq.
Print Assumptions gen_new_safe.
Print Assumptions gen_memory_usage_eq.
Print Assumptions gen_clear_eq.
Print Assumptions gen_allocate_memory_eq.
Print Assumptions gen_allocate_memory_safe.
Print Assumptions gen_store_str_eq.
Print Assumptions gen_store_str_safe.
Print Assumptions gen_store_str_safe_63.
