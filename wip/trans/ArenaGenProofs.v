(* ArenaGenProofs.v -- HAND-WRITTEN ONCE (not generated).  For ALL inputs: the IR terms that rust2coq.py
   regenerates from src/arenas/bucket.rs and single_threaded.rs (ArenaGen.v), run by the interpreter of
   GenIR.v, compute exactly the hand-written model Lasso.Arena -- and on the stated domain every
   obligation the interpreter collects (no overflow / underflow, NonZero arguments non-zero,
   debug_assert!s true, Vec::insert index in range, copy destination inside the allocation, each callee's
   precondition) holds.  Every theorem is proved by the one tactic [gen_arena_tac]; the script does not
   follow the shape of the generated terms. *)
From Lasso Require Import Base Arena ArenaProofs.
From LassoGen Require Import GenPrelude GenIR ArenaGen.
Open Scope N_scope.

(* ---------------- the generic tactic ---------------- *)

Ltac unfold_all :=
  unfold run_fun, run_bfun, run_wc, run_new, as_str_result, as_unit_result, as_unit, as_num,
         as_bnum, as_bbool, as_bunit, as_bref in *;
  repeat autounfold with arenagen in *;
  unfold vec_store, vec_store_legacy, vec_store_gen, grow, vec_place, arena_new, arena_clear, block_clear in *.

Ltac unfold_props :=
  unfold ArenaInv, arena_typed, push_pre, alloc_pre, wc_pre, free_pre, block_ok, alloc_size,
         usize_max, isize_max in *.

Ltac split_hyps :=
  repeat match goal with
  | H : _ /\ _ |- _ => destruct H
  end.

(* what the invariant says about the last bucket, once the execution has looked at it *)
Ltac use_last :=
  repeat match goal with
  | H : last_opt (blocks ?a) = Some ?b |- _ =>
      apply last_opt_In in H;
      repeat match goal with
      | F : Forall _ (blocks a) |- _ =>
          let F' := fresh in
          pose proof (proj1 (Forall_forall _ _) F _ H) as F'; cbv beta in F'; clear F
      end
  end.

(* one case split on whatever blocks the symbolic execution *)
Ltac sym_step :=
  match goal with
  | |- context [last_opt ?l] => destruct (last_opt l) eqn:?
  | |- context [N.ltb ?a ?b] => destruct (N.ltb_spec a b); try (exfalso; lia)
  | |- context [N.leb ?a ?b] => destruct (N.leb_spec a b); try (exfalso; lia)
  | |- context [N.eqb ?a ?b] => destruct (N.eqb_spec a b); try (exfalso; lia)
  end.

Ltac sym_exec :=
  repeat (cbn; unfold alloc_spec, push_slice, free_spec, is_full_spec; sym_step);
  cbn; unfold alloc_spec, push_slice, free_spec, is_full_spec, with_blocks, fresh_block; cbn.

Ltac finish :=
  unfold_props; split_hyps; use_last; split_hyps;
  cbn [bid bcap bused bdata blocks bucket_cap usage limit next_bid];
  rewrite ?repeat_length, ?N2Nat.id;
  first [ eq_close | solve [prop_close] | idtac ].

(* the string argument: empty, or non-empty with only its (positive) length known *)
Ltac case_string s :=
  let c := fresh "c" in let s0 := fresh "s0" in
  destruct s as [|c s0];
  [ change (slen []) with 0 in *
  | let Hs := fresh "Hs" in
    assert (Hs : 0 < slen (c :: s0)) by (apply slen_pos; discriminate);
    set (s := c :: s0) in * ].

Ltac gen_arena_tac :=
  intros; unfold_all;
  try match goal with s : str |- _ => case_string s end;
  sym_exec; finish.

(* ---------------- Bucket (src/arenas/bucket.rs) ---------------- *)

Theorem gen_with_capacity_eq : forall id cap,
  fst (run_wc gen_with_capacity id cap) = Some (fresh_block id cap).
Proof. gen_arena_tac. Qed.
Theorem gen_with_capacity_safe : forall id cap, wc_pre cap ->
  snd (run_wc gen_with_capacity id cap).
Proof. gen_arena_tac. Qed.

Theorem gen_free_elements_eq : forall b s,
  as_bnum (fst (run_bfun gen_free_elements b s [])) = Some (b, free_spec b).
Proof. gen_arena_tac. Qed.
Theorem gen_free_elements_safe : forall b s, free_pre b ->
  snd (run_bfun gen_free_elements b s []).
Proof. gen_arena_tac. Qed.

Theorem gen_is_full_eq : forall b s,
  as_bbool (fst (run_bfun gen_is_full b s [])) = Some (b, is_full_spec b) /\ snd (run_bfun gen_is_full b s []).
Proof. gen_arena_tac. Qed.

Theorem gen_bucket_clear_eq : forall b s,
  as_bunit (fst (run_bfun gen_bucket_clear b s [])) = Some (block_clear b) /\ snd (run_bfun gen_bucket_clear b s []).
Proof. gen_arena_tac. Qed.

Theorem gen_push_slice_eq : forall b s,
  as_bref (fst (run_bfun gen_push_slice b s [])) = Some (Arena.push_slice b s).
Proof. gen_arena_tac. Qed.
(* the unchecked copy stays inside the bucket's allocation whenever the caller keeps push_slice's contract *)
Theorem gen_push_slice_safe : forall b s, push_pre b s ->
  snd (run_bfun gen_push_slice b s []).
Proof. gen_arena_tac. Qed.

(* ---------------- Arena (src/arenas/single_threaded.rs) ---------------- *)

Theorem gen_new_eq : forall cap lim,
  fst (run_new gen_new [cap; lim]) = Some (arena_new cap lim).
Proof. gen_arena_tac. Qed.
Theorem gen_new_safe : forall cap lim, wc_pre cap ->
  snd (run_new gen_new [cap; lim]).
Proof. gen_arena_tac. Qed.

Theorem gen_memory_usage_eq : forall a s,
  as_num (fst (run_fun gen_memory_usage a s [])) = Some (a, usage a) /\ snd (run_fun gen_memory_usage a s []).
Proof. gen_arena_tac. Qed.

Theorem gen_clear_eq : forall a s,
  as_unit (fst (run_fun gen_clear a s [])) = Some (arena_clear a) /\ snd (run_fun gen_clear a s []).
Proof. gen_arena_tac. Qed.

Theorem gen_allocate_memory_eq : forall a s n,
  as_unit_result (fst (run_fun gen_allocate_memory a s [n])) = Some (alloc_spec a n).
Proof. gen_arena_tac. Qed.
Theorem gen_allocate_memory_safe : forall a s n, alloc_pre a n ->
  snd (run_fun gen_allocate_memory a s [n]).
Proof. gen_arena_tac. Qed.

(* the domain of store_str's obligations: representable sizes, stated as weakly as the proof allows *)
Definition store_dom (a : arena) (s : str) : Prop :=
  usage a + 2 * bucket_cap a <= usize_max /\ usage a + slen s <= usize_max /\
  2 * bucket_cap a <= isize_max /\ slen s <= isize_max.

(* store_str computes vec_store: no hypothesis at all is needed for the VALUE *)
Theorem gen_store_str_eq : forall a s,
  as_str_result (fst (run_fun gen_store_str a s [])) = Some (Arena.vec_store a s).
Proof. gen_arena_tac. Qed.

(* ... and on well-formed arenas with representable sizes every obligation holds; in particular every
   push_slice call site establishes push_pre: "the unchecked copy is guarded", for the code as written *)
Theorem gen_store_str_safe : forall a s, ArenaInv a -> arena_typed a -> store_dom a s ->
  snd (run_fun gen_store_str a s []).
Proof. unfold store_dom. gen_arena_tac. Qed.

(* the same domain from the customary bounds "everything is below 2^63" *)
Corollary gen_store_str_safe_63 : forall a s, ArenaInv a -> arena_typed a ->
  usage a <= isize_max -> 2 * bucket_cap a <= isize_max -> slen s <= isize_max ->
  snd (run_fun gen_store_str a s []).
Proof.
  intros a s Hi Ht H1 H2 H3. apply gen_store_str_safe; auto.
  unfold store_dom, isize_max, usize_max in *. lia.
Qed.
