#!/bin/bash
# build.sh <outdir>: extract Sync.step (ExtractSync.v) into <outdir> and build <outdir>/sreplay.
# Needs /verif/coq compiled (Sync.vo, Orderings.vo); writes nothing outside <outdir>.
set -e
here=$(cd "$(dirname "$0")" && pwd)
out=${1:?usage: build.sh <outdir>}
mkdir -p "$out"
cd "$out"
rm -f *.ml *.mli *.cm* *.o ExtractSync.v* .ExtractSync.aux ExtractSync.glob
for f in Sync.vo Orderings.vo; do
  n=0; while [ ! -f /verif/coq/$f ] && [ $n -lt 12 ]; do sleep 10; n=$((n+1)); done
done
cp "$here/ExtractSync.v" .
coqc -Q /verif/coq Lasso ExtractSync.v > /dev/null
cp "$here"/snat.ml "$here"/snorm.ml "$here"/smap.ml "$here"/sreplay.ml .
ocamlfind ocamlopt -O3 -package str -linkpkg -w -a \
  Datatypes.mli Datatypes.ml Nat.mli Nat.ml PeanoNat.mli PeanoNat.ml Specif.mli Specif.ml List.mli List.ml \
  Sync.mli Sync.ml Orderings.mli Orderings.ml ExtractSync.mli ExtractSync.ml \
  snat.ml snorm.ml smap.ml sreplay.ml -o sreplay.new 2>&1 | grep -v "^$" | grep -v "options -O3 is only relevant" | head -30
[ -x sreplay.new ] && mv -f sreplay.new sreplay
ls -la "$out/sreplay"
