(* ExtractSync.v — extraction of the release/acquire view machine of Sync.v for the trace replayer sreplay.
   Directives in force: those of ExtrOcamlBasic only; nat stays the extracted inductive type. *)
From Lasso Require Import Sync Orderings.
Require Import ExtrOcamlBasic.
Extraction Language OCaml.

(* sensitivity experiment: the extracted configuration with the successful head CAS of push_front weakened to Relaxed
   (not adequate: Sync.race_free does not apply) *)
Definition weak_cfg : cfg :=
  {| ord := fun s => match s with PushCasOk => Relaxed | _ => ord extracted_cfg s end;
     next_first := next_first extracted_cfg |}.
Definition weak_adequate : bool := adequate (ord weak_cfg).
Definition extracted_adequate : bool := adequate (ord extracted_cfg).

Separate Extraction Sync.step Sync.init Sync.run Sync.raced Sync.thr Sync.pst Sync.cur Sync.tw Sync.have Sync.tv
  Sync.hist Sync.na Sync.nb Sync.mval Sync.mpay Sync.mview Sync.nval Sync.wrs Sync.rds Sync.vc Sync.co Sync.ptr_of
  Sync.ord Sync.next_first Orderings.ord_of Orderings.extracted_cfg weak_cfg weak_adequate extracted_adequate.
