//! The concurrent driver (see `BRIEF_CONC.md`): runs the real `lasso::ThreadedRodeo` with
//! several OS threads, either under a controlled scheduler that parks every worker at the
//! `PRE_*` hooks of `lasso::verif` and writes an event trace (`run_file`), or free-running
//! with monitors (`stress`).

use crate::talloc;
use crate::{hex, install_silent_panic_hook, push_hex, set_dyn_cap, unhex_str, DynKey};
use lasso::verif::{self, site, ArenaAudit};
use lasso::{
    Capacity, Key, LargeSpur, LassoErrorKind, MemoryLimits, MicroSpur, MiniSpur, Spur,
    ThreadedRodeo,
};
use std::cell::Cell;
use std::collections::hash_map::RandomState;
use std::collections::{BTreeMap, BTreeSet, HashMap};
use std::fmt::Write as _;
use std::fs::{File, OpenOptions};
use std::hash::{BuildHasher, Hash, Hasher};
use std::io::{self, BufWriter, Write};
use std::num::NonZeroUsize;
use std::panic::{catch_unwind, AssertUnwindSafe};
use std::sync::atomic::{AtomicBool, AtomicUsize, Ordering};
use std::sync::{Barrier, Condvar, Mutex, MutexGuard};
use std::time::{Duration, Instant};

// ------------------------------------------------------------------------------------------
// ShardHasher
// ------------------------------------------------------------------------------------------

/// hash(bytes) = ((first byte of the first `write`, or 0) & 63) << 51 | (fnv1a(all bytes) & (2^51 - 1)).
/// With dashmap's `determine_shard` (`(hash << 7) >> shift`) the shard becomes a function of
/// the first byte (for up to 64 shards).  Shards are never computed here: ask `verif_shard_of`.
#[derive(Clone, Copy, Debug, Default, PartialEq, Eq)]
pub struct ShardHasher;

#[derive(Clone, Debug)]
pub struct ShardHash {
    started: bool,
    first: u8,
    state: u64,
}

const FNV_OFFSET: u64 = 0xcbf2_9ce4_8422_2325;
const FNV_PRIME: u64 = 0x0000_0100_0000_01b3;

impl Hasher for ShardHash {
    fn write(&mut self, bytes: &[u8]) {
        if !self.started {
            self.started = true;
            self.first = bytes.first().copied().unwrap_or(0);
        }
        for b in bytes {
            self.state ^= *b as u64;
            self.state = self.state.wrapping_mul(FNV_PRIME);
        }
    }

    fn finish(&self) -> u64 {
        ((self.first as u64 & 63) << 51) | (self.state & ((1u64 << 51) - 1))
    }
}

impl BuildHasher for ShardHasher {
    type Hasher = ShardHash;

    fn build_hasher(&self) -> ShardHash {
        ShardHash {
            started: false,
            first: 0,
            state: FNV_OFFSET,
        }
    }
}

// ------------------------------------------------------------------------------------------
// calls and results
// ------------------------------------------------------------------------------------------

/// Everything the drivers need of a key type
pub trait CKey: Key + Hash + Eq + Copy + Send + Sync + serde::Serialize + 'static {}
impl<T: Key + Hash + Eq + Copy + Send + Sync + serde::Serialize + 'static> CKey for T {}

/// Everything the drivers need of a hasher
pub trait CHasher: BuildHasher + Clone + Send + Sync + 'static {}
impl<T: BuildHasher + Clone + Send + Sync + 'static> CHasher for T {}

#[derive(Clone, Debug, PartialEq, Eq)]
pub enum Call {
    Intern(String),
    /// the content; the leaked copy is in `PCall::stat`
    InternStatic(String),
    Get(String),
    /// key index
    Resolve(usize),
    SetLimit(usize),
    Usage,
}

impl Call {
    /// The string of an intern / get call
    pub fn string(&self) -> Option<&str> {
        match self {
            Call::Intern(s) | Call::InternStatic(s) | Call::Get(s) => Some(s),
            _ => None,
        }
    }

    pub fn is_intern(&self) -> bool {
        matches!(self, Call::Intern(_) | Call::InternStatic(_))
    }
}

/// A call ready to run (static strings leaked)
#[derive(Clone, Debug)]
pub struct PCall {
    pub call: Call,
    pub stat: Option<&'static str>,
}

#[derive(Clone, Debug, PartialEq, Eq)]
pub enum Res {
    Key(usize),
    Err(&'static str),
    None,
    Str(Vec<u8>),
    Unit,
    Num(usize),
    Panic,
}

impl Res {
    pub fn push_text(&self, out: &mut String) {
        match self {
            Res::Key(k) => {
                let _ = write!(out, "K{k}");
            }
            Res::Err(e) => out.push_str(e),
            Res::None => out.push('N'),
            Res::Str(s) => {
                out.push_str("S:");
                push_hex(out, s);
            }
            Res::Unit => out.push('U'),
            Res::Num(n) => {
                let _ = write!(out, "#{n}");
            }
            Res::Panic => out.push('P'),
        }
    }
}

fn err_name(kind: LassoErrorKind) -> &'static str {
    match kind {
        LassoErrorKind::MemoryLimitReached => "E:mem",
        LassoErrorKind::KeySpaceExhaustion => "E:key",
        LassoErrorKind::FailedAllocation => "E:alloc",
    }
}

/// One finished call of a worker
#[derive(Clone, Debug)]
pub struct CallRec {
    pub tid: usize,
    pub idx: usize,
    pub call: Call,
    pub res: Res,
}

/// A monitor finding: (property, message)
pub type Finding = (&'static str, String);

fn exec_call<K: CKey, S: CHasher>(rodeo: &ThreadedRodeo<K, S>, c: &PCall) -> Res {
    catch_unwind(AssertUnwindSafe(|| match &c.call {
        Call::Intern(s) => match rodeo.try_get_or_intern(s.as_str()) {
            Ok(k) => Res::Key(k.into_usize()),
            Err(e) => Res::Err(err_name(e.kind())),
        },
        Call::InternStatic(s) => {
            let leaked: &'static str = c.stat.expect("static call without a leaked string");
            debug_assert_eq!(leaked, s.as_str());
            match rodeo.try_get_or_intern_static(leaked) {
                Ok(k) => Res::Key(k.into_usize()),
                Err(e) => Res::Err(err_name(e.kind())),
            }
        }
        Call::Get(s) => match rodeo.get(s.as_str()) {
            Some(k) => Res::Key(k.into_usize()),
            None => Res::None,
        },
        Call::Resolve(k) => match K::try_from_usize(*k) {
            None => Res::None,
            Some(key) => match rodeo.try_resolve(&key) {
                Some(s) => Res::Str(s.as_bytes().to_vec()),
                None => Res::None,
            },
        },
        Call::SetLimit(l) => {
            rodeo.set_memory_limits(MemoryLimits::new(*l));
            Res::Unit
        }
        Call::Usage => Res::Num(rodeo.current_memory_usage()),
    }))
    .unwrap_or(Res::Panic)
}

/// (key index, address, length) of what a key resolved to right after a call returned it
static SEEN_PTRS: Mutex<Vec<(usize, usize, usize, usize, usize)>> = Mutex::new(Vec::new());

/// The checks a worker makes itself right after a call returned a key (C03): the key resolves
/// to the call's string, and after an intern call a `get` of the string returns the key
fn post_checks<K: CKey, S: CHasher>(
    rodeo: &ThreadedRodeo<K, S>,
    tid: usize,
    idx: usize,
    call: &Call,
    res: &Res,
    notes: &mut Vec<Finding>,
) {
    let (Some(s), Res::Key(k)) = (call.string(), res) else {
        return;
    };
    let outcome = catch_unwind(AssertUnwindSafe(|| {
        let mut found: Vec<String> = Vec::new();
        match K::try_from_usize(*k) {
            None => found.push(format!("call {tid}.{idx} returned the unrepresentable key {k}")),
            Some(key) => match rodeo.try_resolve(&key) {
                Some(t) if t == s => {
                    // a process-global list: not something the case has to release
                    talloc::untracked(|| {
                        SEEN_PTRS.lock().unwrap_or_else(|e| e.into_inner()).push((*k, t.as_ptr() as usize, t.len(), tid, idx));
                    });
                }
                Some(t) => found.push(format!(
                    "call {tid}.{idx} returned K{k} for {} but K{k} resolves to {} right afterwards",
                    hex(s.as_bytes()),
                    hex(t.as_bytes())
                )),
                None => found.push(format!(
                    "call {tid}.{idx} returned K{k} for {} but K{k} does not resolve right afterwards",
                    hex(s.as_bytes())
                )),
            },
        }
        if call.is_intern() {
            match rodeo.get(s) {
                Some(k2) if k2.into_usize() == *k => {}
                Some(k2) => found.push(format!(
                    "intern call {tid}.{idx} returned K{k} for {} but get() by the same thread gives K{}",
                    hex(s.as_bytes()),
                    k2.into_usize()
                )),
                None => found.push(format!(
                    "intern call {tid}.{idx} returned K{k} for {} but get() by the same thread gives None",
                    hex(s.as_bytes())
                )),
            }
        }
        found
    }));
    match outcome {
        Ok(found) => notes.extend(found.into_iter().map(|m| ("C03", m))),
        Err(_) => notes.push(("C03", format!("the follow-up checks of call {tid}.{idx} panicked"))),
    }
}

// ------------------------------------------------------------------------------------------
// leaked static strings
// ------------------------------------------------------------------------------------------

/// Leaked buffers, one per (content, ordinal); re-used by later cases / rounds
static LEAKS: Mutex<Option<HashMap<(String, usize), &'static str>>> = Mutex::new(None);

fn leaked(content: &str, ordinal: usize) -> &'static str {
    // intentional: the `'static` copies and their cache live as long as the process
    talloc::untracked(|| leaked_inner(content, ordinal))
}

fn leaked_inner(content: &str, ordinal: usize) -> &'static str {
    let mut cache = LEAKS.lock().unwrap_or_else(|e| e.into_inner());
    let cache = cache.get_or_insert_with(HashMap::new);
    *cache.entry((content.to_string(), ordinal)).or_insert_with(|| {
        // at least one byte is allocated so that even an empty string has an address of its own
        let mut v: Vec<u8> = Vec::with_capacity(content.len().max(1));
        v.extend_from_slice(content.as_bytes());
        let v = std::mem::ManuallyDrop::new(v);
        // Safety: the buffer is never freed or written again and holds valid UTF-8
        unsafe {
            std::str::from_utf8_unchecked(std::slice::from_raw_parts(v.as_ptr(), content.len()))
        }
    })
}

// ------------------------------------------------------------------------------------------
// final state and the model-independent monitors
// ------------------------------------------------------------------------------------------

#[derive(Clone, Debug)]
pub struct TableEntry {
    pub idx: usize,
    pub ptr: usize,
    pub bytes: Vec<u8>,
}

/// The quiescent state of an interner
#[derive(Clone, Debug)]
pub struct Final {
    pub audit: ArenaAudit,
    pub key: usize,
    pub len: usize,
    /// `iter()`, sorted by key index
    pub table: Vec<TableEntry>,
}

fn take_final<K: CKey, S: CHasher>(rodeo: &ThreadedRodeo<K, S>) -> Final {
    let mut table: Vec<TableEntry> = rodeo
        .iter()
        .map(|(k, s)| TableEntry {
            idx: k.into_usize(),
            ptr: s.as_ptr() as usize,
            bytes: s.as_bytes().to_vec(),
        })
        .collect();
    table.sort_by_key(|e| e.idx);
    Final {
        audit: rodeo.verif_audit(),
        key: rodeo.verif_key_counter(),
        len: rodeo.len(),
        table,
    }
}

#[derive(Clone, Copy, PartialEq, Eq, Debug)]
enum RefKind {
    Static,
    Empty,
    /// position in `audit.blocks`, offset
    Arena(usize, usize),
    Unknown,
}

fn classify(e: &TableEntry, statics: &[&'static str], audit: &ArenaAudit) -> RefKind {
    if statics
        .iter()
        .any(|p| p.as_ptr() as usize == e.ptr && p.len() == e.bytes.len())
    {
        return RefKind::Static;
    }
    if e.bytes.is_empty() {
        return RefKind::Empty;
    }
    for (pos, b) in audit.blocks.iter().enumerate() {
        if e.ptr >= b.data && e.ptr - b.data < b.capacity {
            return RefKind::Arena(pos, e.ptr - b.data);
        }
    }
    RefKind::Unknown
}

/// Collects findings, at most `PER_PROP` per property and case
struct Sink<'a> {
    id: &'a str,
    buffer: &'a mut String,
    counts: HashMap<&'static str, usize>,
    total: usize,
    /// appended to every message (the configuration of a stress round)
    context: String,
}

const PER_PROP: usize = 8;

impl<'a> Sink<'a> {
    fn new(id: &'a str, buffer: &'a mut String) -> Self {
        Sink {
            id,
            buffer,
            counts: HashMap::new(),
            total: 0,
            context: String::new(),
        }
    }

    fn rep(&mut self, prop: &'static str, msg: impl AsRef<str>) {
        self.total += 1;
        let n = self.counts.entry(prop).or_insert(0);
        *n += 1;
        let n = *n;
        // the buffer outlives the round in stress mode
        talloc::untracked(|| {
            if n <= PER_PROP {
                let _ = writeln!(self.buffer, "M {} {} {}{}", self.id, prop, msg.as_ref(), self.context);
            } else if n == PER_PROP + 1 {
                let _ = writeln!(self.buffer, "M {} {} (further findings suppressed)", self.id, prop);
            }
        });
    }
}

/// The checks shared by the controlled and the free-running mode (C03, C05, C07, C09 at quiescence)
fn check_common<K: CKey, S: CHasher>(
    rodeo: &ThreadedRodeo<K, S>,
    calls: &[CallRec],
    statics: &[&'static str],
    fin: &Final,
    keycap: u64,
    sink: &mut Sink<'_>,
) {
    // ---- C03: one key per string, keys resolve, dense keys
    let mut by_str: BTreeMap<&str, usize> = BTreeMap::new();
    let mut by_key: BTreeMap<usize, &str> = BTreeMap::new();
    let mut interned: BTreeSet<&str> = BTreeSet::new();
    for c in calls {
        if c.res == Res::Panic {
            sink.rep("PANIC", format!("call {}.{} ({:?}) panicked", c.tid, c.idx, c.call));
        }
        let (Some(s), Res::Key(k)) = (c.call.string(), &c.res) else {
            continue;
        };
        if c.call.is_intern() {
            interned.insert(s);
        }
        match by_str.get(s) {
            Some(k0) if k0 != k => sink.rep(
                "C03",
                format!(
                    "the string {} got two keys: K{k0} and K{k} (call {}.{})",
                    hex(s.as_bytes()),
                    c.tid,
                    c.idx
                ),
            ),
            Some(_) => {}
            None => {
                by_str.insert(s, *k);
            }
        }
        match by_key.get(k) {
            Some(s0) if *s0 != s => sink.rep(
                "C03",
                format!(
                    "the key K{k} was returned for two strings: {} and {} (call {}.{})",
                    hex(s0.as_bytes()),
                    hex(s.as_bytes()),
                    c.tid,
                    c.idx
                ),
            ),
            Some(_) => {}
            None => {
                by_key.insert(*k, s);
            }
        }
    }
    for (s, k) in &by_str {
        let now = K::try_from_usize(*k).and_then(|key| rodeo.try_resolve(&key));
        if now != Some(*s) {
            sink.rep(
                "C03",
                format!(
                    "K{k} was returned for {} but resolves to {} at the end",
                    hex(s.as_bytes()),
                    now.map_or("nothing".to_string(), |t| hex(t.as_bytes()))
                ),
            );
        }
        let got = rodeo.get(*s).map(|k| k.into_usize());
        if got != Some(*k) {
            sink.rep(
                "C03",
                format!("K{k} was returned for {} but get() gives {got:?} at the end", hex(s.as_bytes())),
            );
        }
    }
    if fin.len != interned.len() || fin.len != fin.table.len() {
        sink.rep(
            "C03",
            format!(
                "len() = {}, distinct strings successfully interned = {}, distinct keys in iter() = {}",
                fin.len,
                interned.len(),
                fin.table.len()
            ),
        );
    }
    for (pos, e) in fin.table.iter().enumerate() {
        if e.idx != pos {
            sink.rep(
                "C03",
                format!("the keys in use are not 0..{}: position {pos} holds K{}", fin.table.len(), e.idx),
            );
            break;
        }
    }

    // ---- C05: storage integrity from the audit
    let audit = &fin.audit;
    for b in &audit.blocks {
        if b.used > b.capacity {
            sink.rep("C05", format!("block {} has used {} > capacity {}", b.block, b.used, b.capacity));
        }
    }
    let mut regions: Vec<(usize, usize, usize)> = Vec::new(); // (start, end, key)
    for e in &fin.table {
        match classify(e, statics, audit) {
            RefKind::Static | RefKind::Empty => {}
            RefKind::Arena(pos, off) => {
                let b = &audit.blocks[pos];
                if off + e.bytes.len() > b.used {
                    sink.rep(
                        "C05",
                        format!(
                            "K{} occupies [{off}, {}) of block {} whose used length is {}",
                            e.idx,
                            off + e.bytes.len(),
                            b.block,
                            b.used
                        ),
                    );
                }
                regions.push((e.ptr, e.ptr + e.bytes.len(), e.idx));
            }
            RefKind::Unknown => sink.rep(
                "C05",
                format!("K{} = {} points outside every block and is not a static string", e.idx, hex(&e.bytes)),
            ),
        }
        if let Some(s) = by_key.get(&e.idx) {
            if s.as_bytes() != &e.bytes[..] {
                sink.rep(
                    "C05",
                    format!(
                        "K{} was created for {} but its stored content is {}",
                        e.idx,
                        hex(s.as_bytes()),
                        hex(&e.bytes)
                    ),
                );
            }
        }
    }
    regions.sort();
    for w in regions.windows(2) {
        if w[1].0 < w[0].1 {
            sink.rep(
                "C05",
                format!(
                    "the strings of K{} [{}, {}) and K{} [{}, {}) overlap",
                    w[0].2, w[0].0, w[0].1, w[1].2, w[1].0, w[1].1
                ),
            );
        }
    }

    // ---- C09 at quiescence: the reported usage is the memory held
    let held: usize = audit.blocks.iter().map(|b| b.capacity).sum();
    if audit.memory_usage != held {
        sink.rep(
            "C09",
            format!(
                "final usage {} != sum of the block capacities {held}",
                audit.memory_usage
            ),
        );
    }

    // ---- C07
    if fin.len as u128 > keycap as u128 {
        sink.rep("C07", format!("len() = {} exceeds the key capacity {keycap}", fin.len));
    }
    if (fin.key as u128) < keycap as u128 {
        for c in calls {
            if c.res == Res::Err("E:key") {
                sink.rep(
                    "C07",
                    format!(
                        "call {}.{} returned E:key although the key counter ended at {} < {keycap}",
                        c.tid, c.idx, fin.key
                    ),
                );
            }
        }
    }
}

// ------------------------------------------------------------------------------------------
// the controlled scheduler
// ------------------------------------------------------------------------------------------

/// Pseudo site of the synthetic `CALL` park point
const SITE_CALL: u16 = 0;

fn is_pre_site(s: u16) -> bool {
    matches!(
        s,
        site::PRE_MAP_GET
            | site::PRE_SHARD_WRITE
            | site::PRE_KEY_FETCH_ADD
            | site::PRE_STRINGS_INSERT
            | site::PRE_MAP_INSERT
            | site::PRE_MAP_ENTRY
            | site::PRE_STRINGS_GET
            | site::PRE_ITER_LOAD
            | site::PRE_LEN_LOAD
            | site::PRE_LEN_CAS
            | site::PRE_BUCKET_CAP_LOAD
            | site::PRE_USAGE_LOAD
            | site::PRE_LIMIT_LOAD
            | site::PRE_USAGE_CAS
            | site::PRE_BUCKET_CAP_STORE
            | site::PRE_HEAD_LOAD
            | site::PRE_HEAD_CAS
            | site::PRE_LIMIT_STORE
    )
}

#[derive(Clone, Debug)]
enum Rec {
    Call { tid: usize, idx: usize },
    Ev { tid: usize, site: u16, a: usize, b: usize },
    /// `usage` = `current_memory_usage()` read by the worker right after the call
    Ret { tid: usize, idx: usize, res: Res, usage: usize },
}

#[derive(Clone, Copy, PartialEq, Eq, Debug)]
enum Status {
    Running,
    Parked { site: u16, a: usize },
    Finished,
}

#[derive(Debug)]
struct WState {
    status: Status,
    go: bool,
    /// the shards of the string-to-key map whose write lock this worker holds
    holds: Vec<usize>,
    /// the next `PRE_ITER_LOAD` is the first since the last `OBS_SHARD_FIND`
    iter_fresh: bool,
}

struct Ctl {
    trace: Vec<Rec>,
    workers: Vec<WState>,
    progress: u64,
}

static CTL: Mutex<Ctl> = Mutex::new(Ctl {
    trace: Vec::new(),
    workers: Vec::new(),
    progress: 0,
});
/// workers -> controller
static CV_CTL: Condvar = Condvar::new();
/// controller -> workers
static CV_W: Condvar = Condvar::new();

const NO_WORKER: usize = usize::MAX;

thread_local! {
    static WORKER: Cell<usize> = const { Cell::new(NO_WORKER) };
    static MUTED: Cell<bool> = const { Cell::new(false) };
}

fn ctl() -> MutexGuard<'static, Ctl> {
    CTL.lock().unwrap_or_else(|e| e.into_inner())
}

/// Marks the worker parked and blocks until the controller releases it
fn park(mut g: MutexGuard<'static, Ctl>, tid: usize, site: u16, a: usize) {
    g.workers[tid].status = Status::Parked { site, a };
    g.progress += 1;
    CV_CTL.notify_all();
    while !g.workers[tid].go {
        g = CV_W.wait(g).unwrap_or_else(|e| e.into_inner());
    }
    g.workers[tid].go = false;
}

/// The process-global observer of `lasso::verif`
fn observer(s: u16, a: usize, b: usize) {
    let tid = WORKER.with(|w| w.get());
    if tid == NO_WORKER || MUTED.with(|m| m.get()) {
        return;
    }
    // the trace is the harness's own bookkeeping in the middle of lasso's calls
    talloc::untracked(|| observe(tid, s, a, b));
}

fn observe(tid: usize, s: u16, a: usize, b: usize) {
    let mut g = ctl();
    g.trace.push(Rec::Ev { tid, site: s, a, b });
    g.progress += 1;
    let w = &mut g.workers[tid];
    let parks = if s == site::OBS_SHARD_FIND {
        w.iter_fresh = true;
        false
    } else if s == site::PRE_ITER_LOAD {
        // park on the head load of a bucket-list walk, not on the next-pointer loads
        std::mem::replace(&mut w.iter_fresh, false)
    } else {
        is_pre_site(s)
    };
    if parks {
        park(g, tid, s, a);
    }
}

fn worker<K: CKey, S: CHasher>(
    tid: usize,
    rodeo: &ThreadedRodeo<K, S>,
    prog: &[PCall],
    dyn_cap: Option<usize>,
) -> Vec<Finding> {
    if let Some(n) = dyn_cap {
        set_dyn_cap(n);
    }
    WORKER.with(|w| w.set(tid));
    let mut notes: Vec<Finding> = Vec::new();
    for (idx, c) in prog.iter().enumerate() {
        {
            let mut g = ctl();
            g.trace.push(Rec::Call { tid, idx });
            park(g, tid, SITE_CALL, idx);
        }
        let res = exec_call(rodeo, c);
        MUTED.with(|m| m.set(true));
        post_checks(rodeo, tid, idx, &c.call, &res, &mut notes);
        let usage = rodeo.current_memory_usage();
        MUTED.with(|m| m.set(false));
        let mut g = ctl();
        g.trace.push(Rec::Ret { tid, idx, res, usage });
        g.workers[tid].holds.clear();
        g.progress += 1;
    }
    let mut g = ctl();
    g.workers[tid].status = Status::Finished;
    g.workers[tid].holds.clear();
    g.progress += 1;
    CV_CTL.notify_all();
    drop(g);
    WORKER.with(|w| w.set(NO_WORKER));
    notes
}

#[derive(Clone, Copy, PartialEq, Eq, Debug)]
enum Abort {
    Deadlock,
    Timeout,
}

/// Waits until no worker is running; `Err` when nothing happened for `timeout`
fn wait_quiescent(
    mut g: MutexGuard<'static, Ctl>,
    timeout: Duration,
) -> Result<MutexGuard<'static, Ctl>, MutexGuard<'static, Ctl>> {
    let mut last = g.progress;
    let mut deadline = Instant::now() + timeout;
    while g.workers.iter().any(|w| w.status == Status::Running) {
        let now = Instant::now();
        if g.progress != last {
            last = g.progress;
            deadline = now + timeout;
        } else if now >= deadline {
            return Err(g);
        }
        let wait = deadline.saturating_duration_since(now).max(Duration::from_millis(1));
        g = CV_CTL
            .wait_timeout(g, wait)
            .unwrap_or_else(|e| e.into_inner())
            .0;
    }
    Ok(g)
}

/// Asks the interner under test whether a shard of its string-to-key map is locked right now
/// (`ThreadedRodeo::verif_shard_locked`).  Installed per case by `run_case`.  All workers are
/// parked when the controller asks, so a locked shard is one whose write lock a PARKED worker holds.
static PROBE: Mutex<Option<Box<dyn Fn(usize) -> bool + Send>>> = Mutex::new(None);

fn shard_locked(shard: usize) -> Option<bool> {
    let p = PROBE.lock().unwrap_or_else(|e| e.into_inner());
    p.as_ref().map(|f| f(shard))
}

fn is_enabled(g: &Ctl, t: usize, ignore_holds: bool) -> bool {
    match g.workers[t].status {
        Status::Parked { site: s, a } => {
            let needs_shard =
                matches!(s, site::PRE_MAP_GET | site::PRE_SHARD_WRITE | site::PRE_MAP_ENTRY);
            if needs_shard && !ignore_holds {
                // the real lock state decides; the bookkeeping below is only the fallback
                match shard_locked(a) {
                    Some(locked) => !locked,
                    None => !g
                        .workers
                        .iter()
                        .enumerate()
                        .any(|(u, w)| u != t && w.holds.contains(&a)),
                }
            } else {
                true
            }
        }
        _ => false,
    }
}

/// Releases the parked worker `t`
fn release(g: &mut Ctl, t: usize) {
    if let Status::Parked { site: s, a } = g.workers[t].status {
        if matches!(s, site::PRE_SHARD_WRITE | site::PRE_MAP_ENTRY) {
            g.workers[t].holds.push(a);
        }
    }
    g.workers[t].status = Status::Running;
    g.workers[t].go = true;
    CV_W.notify_all();
}

fn push_recs(out: &mut String, recs: &[Rec]) {
    for r in recs {
        match r {
            Rec::Call { tid, idx } => {
                let _ = writeln!(out, "CALL {tid} {idx}");
            }
            Rec::Ev { tid, site, a, b } => {
                let _ = writeln!(out, "EV {tid} {site} {a} {b}");
            }
            Rec::Ret { tid, res, .. } => {
                let _ = write!(out, "RET {tid} ");
                res.push_text(out);
                out.push('\n');
            }
        }
    }
}

// ------------------------------------------------------------------------------------------
// case files
// ------------------------------------------------------------------------------------------

#[derive(Clone, Copy, Debug, PartialEq, Eq)]
pub enum KeySel {
    Micro,
    Mini,
    Spur,
    Large,
    Cap(usize),
}

#[derive(Clone, Debug)]
pub struct Case {
    pub id: String,
    pub key: KeySel,
    pub cap: usize,
    pub lim: usize,
    pub seed: u64,
    pub progs: Vec<Vec<Call>>,
    pub schedule: Vec<usize>,
}

fn parse_lim(tok: &str) -> Option<usize> {
    if tok == "max" {
        Some(usize::MAX)
    } else {
        tok.parse::<usize>().ok()
    }
}

fn parse_call(tok: &str) -> Result<Call, String> {
    let bad = || format!("bad call {tok}");
    if tok == "U" {
        return Ok(Call::Usage);
    }
    let (op, arg) = tok.split_once(':').ok_or_else(bad)?;
    Ok(match op {
        "I" => Call::Intern(unhex_str(arg).ok_or_else(bad)?),
        "IS" => Call::InternStatic(unhex_str(arg).ok_or_else(bad)?),
        "G" => Call::Get(unhex_str(arg).ok_or_else(bad)?),
        "R" => Call::Resolve(arg.parse::<usize>().map_err(|_| bad())?),
        "L" => Call::SetLimit(parse_lim(arg).ok_or_else(bad)?),
        _ => return Err(bad()),
    })
}

/// Parses a `CONC` line; `Err((id, message))`
pub fn parse_case(line: &str) -> Result<Case, (String, String)> {
    let (left, sched) = match line.split_once('|') {
        Some((l, r)) => (l, r),
        None => (line, ""),
    };
    let mut segments = left.split(';');
    let head: Vec<&str> = segments.next().unwrap_or("").split_whitespace().collect();
    let id = head.get(1).copied().unwrap_or("?").to_string();
    let fail = |m: String| (id.clone(), m);
    if head.first() != Some(&"CONC") || head.len() != 6 {
        return Err(fail("expected `CONC <id> K= CAP= LIM= SEED=`".to_string()));
    }
    let field = |i: usize, name: &str| -> Result<&str, (String, String)> {
        head[i]
            .strip_prefix(name)
            .ok_or_else(|| fail(format!("expected {name}... but found {}", head[i])))
    };
    let key = match field(2, "K=")? {
        "micro" => KeySel::Micro,
        "mini" => KeySel::Mini,
        "spur" => KeySel::Spur,
        "large" => KeySel::Large,
        other => match other.strip_prefix("cap").and_then(|n| n.parse::<usize>().ok()) {
            Some(n) => KeySel::Cap(n),
            None => return Err(fail(format!("bad key type {other}"))),
        },
    };
    let cap = field(3, "CAP=")?
        .parse::<usize>()
        .ok()
        .filter(|c| *c > 0)
        .ok_or_else(|| fail("CAP must be a positive number".to_string()))?;
    let lim = parse_lim(field(4, "LIM=")?).ok_or_else(|| fail("bad LIM".to_string()))?;
    let seed = field(5, "SEED=")?
        .parse::<u64>()
        .map_err(|_| fail("bad SEED".to_string()))?;
    let mut progs: Vec<Vec<Call>> = Vec::new();
    for seg in segments {
        let seg = seg.trim();
        if seg == "-" {
            progs.push(Vec::new());
            continue;
        }
        let mut prog = Vec::new();
        for tok in seg.split(',') {
            prog.push(parse_call(tok.trim()).map_err(&fail)?);
        }
        progs.push(prog);
    }
    if progs.is_empty() {
        return Err(fail("no programs".to_string()));
    }
    let mut schedule = Vec::new();
    for tok in sched.split_whitespace() {
        schedule.push(
            tok.parse::<usize>()
                .map_err(|_| fail(format!("bad schedule entry {tok}")))?,
        );
    }
    Ok(Case {
        id,
        key,
        cap,
        lim,
        seed,
        progs,
        schedule,
    })
}

// ------------------------------------------------------------------------------------------
// controlled mode
// ------------------------------------------------------------------------------------------

pub struct RunOpts {
    /// skip the cases up to and including this id (the output files are then appended to)
    pub skip_to: Option<String>,
    /// EXPERIMENT ONLY: release workers parked at a shard access even when another worker holds the shard
    pub ignore_holds: bool,
    /// how long nothing may happen before a case is aborted with `TIMEOUT`
    pub timeout: Duration,
}

impl Default for RunOpts {
    fn default() -> Self {
        RunOpts {
            skip_to: None,
            ignore_holds: false,
            timeout: Duration::from_secs(5),
        }
    }
}

struct Out {
    traces: BufWriter<File>,
    mon: BufWriter<File>,
}

impl Out {
    fn flush(&mut self) -> io::Result<()> {
        self.traces.flush()?;
        self.mon.flush()
    }
}

/// The exit status of an aborted run
pub const EXIT_ABORTED: i32 = 3;

fn abort_case(out: &mut Out, id: &str, header: &str, g: MutexGuard<'static, Ctl>, kind: Abort) -> ! {
    let mut text = String::from(header);
    push_recs(&mut text, &g.trace);
    let word = match kind {
        Abort::Deadlock => "DEADLOCK",
        Abort::Timeout => "TIMEOUT",
    };
    text.push_str(word);
    text.push('\n');
    let mut states = String::new();
    for (t, w) in g.workers.iter().enumerate() {
        let _ = write!(states, " {t}:");
        match w.status {
            Status::Running => states.push_str("running"),
            Status::Finished => states.push_str("finished"),
            Status::Parked { site: SITE_CALL, a } => {
                let _ = write!(states, "parked@CALL{a}");
            }
            Status::Parked { site, a } => {
                let _ = write!(states, "parked@{site}({a})");
            }
        }
        if !w.holds.is_empty() {
            let _ = write!(states, "/holds{:?}", w.holds);
        }
    }
    drop(g);
    let _ = out.traces.write_all(text.as_bytes());
    let _ = writeln!(out.mon, "M {id} {word} the case was aborted; workers:{states}");
    let _ = out.flush();
    std::process::exit(EXIT_ABORTED);
}

/// Runs one case inside a scope of the allocation-discipline monitor (C04, `talloc`): all
/// threads are tracked from before the interner is created until it has been dropped; whatever
/// was allocated in between and is still live afterwards leaked.
fn run_case<K: CKey>(
    case: &Case,
    keycap: u64,
    dyn_cap: Option<usize>,
    opts: &RunOpts,
    out: &mut Out,
) -> io::Result<()> {
    let snapshot = talloc::scope_begin();
    talloc::set_all_threads(true);
    let result = run_case_inner::<K>(case, keycap, dyn_cap, opts, out);
    talloc::set_all_threads(false);
    let report = talloc::scope_end(snapshot);
    write_alloc_report(&mut out.mon, &case.id, &report, "the interner and the workers of the case were dropped")?;
    if !report.is_clean() || report.overflow {
        out.flush()?;
    }
    result
}

/// The findings of a `talloc` scope as monitor lines
fn write_alloc_report(mon: &mut impl Write, id: &str, report: &talloc::Report, when: &str) -> io::Result<usize> {
    let mut lines = 0usize;
    if report.overflow {
        writeln!(mon, "M {id} MON internal: the allocation table overflowed, the allocation discipline (C04) is no longer checked")?;
        lines += 1;
    }
    for message in report.messages(when) {
        writeln!(mon, "M {id} C04 {message}")?;
        lines += 1;
    }
    Ok(lines)
}

fn run_case_inner<K: CKey>(
    case: &Case,
    keycap: u64,
    dyn_cap: Option<usize>,
    opts: &RunOpts,
    out: &mut Out,
) -> io::Result<()> {
    if let Some(n) = dyn_cap {
        set_dyn_cap(n);
    }
    let id = case.id.as_str();
    let built = catch_unwind(|| {
        ThreadedRodeo::<K, ShardHasher>::with_capacity_memory_limits_and_hasher(
            Capacity::new(0, NonZeroUsize::new(case.cap).expect("CAP > 0")),
            MemoryLimits::new(case.lim),
            ShardHasher,
        )
    });
    let rodeo = match built {
        Ok(r) => r,
        Err(_) => {
            writeln!(out.mon, "M {id} CFG the interner could not be constructed")?;
            return Ok(());
        }
    };

    // the programs, with one leaked copy per IS call (distinct addresses even for equal content)
    let mut ordinals: HashMap<&str, usize> = HashMap::new();
    let mut statics: Vec<&'static str> = Vec::new();
    let progs: Vec<Vec<PCall>> = case
        .progs
        .iter()
        .map(|p| {
            p.iter()
                .map(|call| {
                    let stat = if let Call::InternStatic(s) = call {
                        let n = ordinals.entry(s.as_str()).or_insert(0);
                        let l = leaked(s, *n);
                        *n += 1;
                        statics.push(l);
                        Some(l)
                    } else {
                        None
                    };
                    PCall {
                        call: call.clone(),
                        stat,
                    }
                })
                .collect()
        })
        .collect();
    let strings: BTreeSet<&str> = case
        .progs
        .iter()
        .flatten()
        .filter_map(|c| c.string())
        .collect();
    let mut by_hex: Vec<(String, &str)> = strings.iter().map(|s| (hex(s.as_bytes()), *s)).collect();
    by_hex.sort();

    let mut header = String::new();
    let _ = writeln!(header, "BEGIN {id}");
    for (h, s) in &by_hex {
        let _ = writeln!(header, "SHARD {h} {}", rodeo.verif_shard_of(s));
    }
    let initial = rodeo.verif_audit();
    for b in &initial.blocks {
        let _ = writeln!(header, "BLOCK {} {} {}", b.block, b.data, b.capacity);
    }

    let n = progs.len();
    {
        let mut g = ctl();
        g.trace.clear();
        g.progress = 0;
        g.workers = (0..n)
            .map(|_| WState {
                status: Status::Running,
                go: false,
                holds: Vec::new(),
                iter_fresh: true,
            })
            .collect();
    }

    let rodeo_ref = &rodeo;
    SEEN_PTRS.lock().unwrap_or_else(|e| e.into_inner()).clear();
    {
        // Safety: the probe is removed again below, before the interner is dropped
        let raw: usize = rodeo_ref as *const ThreadedRodeo<K, ShardHasher> as usize;
        let probe = move |shard: usize| unsafe { (*(raw as *const ThreadedRodeo<K, ShardHasher>)).verif_shard_locked(shard) };
        *PROBE.lock().unwrap_or_else(|e| e.into_inner()) = Some(Box::new(probe));
    }
    let progs_ref = &progs;
    let header_ref = header.as_str();
    let joined: Vec<Result<Vec<Finding>, ()>> = std::thread::scope(|s| {
        let mut handles = Vec::with_capacity(n);
        // workers are started one after the other so that the initial `CALL <tid> 0` lines
        // appear in thread order
        for tid in 0..n {
            {
                // the workers not yet started must not count as running
                let mut g = ctl();
                for w in g.workers.iter_mut().skip(tid + 1) {
                    w.status = Status::Finished;
                }
                g.workers[tid].status = Status::Running;
            }
            handles.push(s.spawn(move || worker::<K, ShardHasher>(tid, rodeo_ref, &progs_ref[tid], dyn_cap)));
            match wait_quiescent(ctl(), opts.timeout) {
                Ok(g) => drop(g),
                Err(g) => abort_case(out, id, header_ref, g, Abort::Timeout),
            }
        }
        let mut pos = 0usize;
        let mut rr = 0usize;
        loop {
            let mut g = match wait_quiescent(ctl(), opts.timeout) {
                Ok(g) => g,
                Err(g) => abort_case(out, id, header_ref, g, Abort::Timeout),
            };
            if g.workers.iter().all(|w| w.status == Status::Finished) {
                break;
            }
            let enabled: Vec<bool> = (0..n).map(|t| is_enabled(&g, t, opts.ignore_holds)).collect();
            if !enabled.iter().any(|e| *e) {
                abort_case(out, id, header_ref, g, Abort::Deadlock);
            }
            let pick = loop {
                if pos < case.schedule.len() {
                    let t = case.schedule[pos];
                    pos += 1;
                    if t < n && enabled[t] {
                        break t;
                    }
                } else {
                    let t = (0..n)
                        .map(|i| (rr + i) % n)
                        .find(|t| enabled[*t])
                        .expect("some worker is enabled");
                    rr = (t + 1) % n;
                    break t;
                }
            };
            release(&mut g, pick);
        }
        handles
            .into_iter()
            .map(|h| h.join().map_err(|_| ()))
            .collect()
    });

    let trace: Vec<Rec> = std::mem::take(&mut ctl().trace);
    let mut text = header;
    push_recs(&mut text, &trace);

    // ---- FINAL
    let fin = take_final(rodeo_ref);
    let _ = write!(text, "FINAL key={} cur={} max=", fin.key, fin.audit.memory_usage);
    if fin.audit.max_memory_usage == usize::MAX {
        text.push_str("max");
    } else {
        let _ = write!(text, "{}", fin.audit.max_memory_usage);
    }
    let _ = write!(text, " bc={} blocks=", fin.audit.bucket_capacity);
    for (i, b) in fin.audit.blocks.iter().enumerate() {
        if i > 0 {
            text.push(',');
        }
        let _ = write!(text, "{}:{}:{}", b.block, b.capacity, b.used);
    }
    text.push_str(" strs=");
    for (i, e) in fin.table.iter().enumerate() {
        if i > 0 {
            text.push(',');
        }
        let _ = write!(text, "{}:", e.idx);
        match classify(e, &statics, &fin.audit) {
            RefKind::Static => {
                // which IS call's own leaked string this is (1-based, in program order thread by thread)
                let n = statics
                    .iter()
                    .position(|p| p.as_ptr() as usize == e.ptr && p.len() == e.bytes.len())
                    .map_or(0, |i| i + 1);
                let _ = write!(text, "S{}=", n);
                push_hex(&mut text, &e.bytes);
            }
            RefKind::Empty => text.push('E'),
            RefKind::Arena(pos, off) => {
                let _ = write!(text, "A{}.{}=", fin.audit.blocks[pos].block, off);
                push_hex(&mut text, &e.bytes);
            }
            RefKind::Unknown => {
                text.push('?');
                push_hex(&mut text, &e.bytes);
            }
        }
    }
    text.push_str(" map=");
    let mut first = true;
    for (h, s) in &by_hex {
        if let Some(k) = rodeo.get(*s) {
            if !first {
                text.push(',');
            }
            first = false;
            let _ = write!(text, "{h}={}", k.into_usize());
        }
    }
    text.push('\n');
    let _ = writeln!(text, "END {id}");
    out.traces.write_all(text.as_bytes())?;

    // ---- monitors
    let mut buffer = String::new();
    {
        let mut sink = Sink::new(id, &mut buffer);
        for (tid, j) in joined.into_iter().enumerate() {
            match j {
                Ok(notes) => {
                    for (p, m) in notes {
                        sink.rep(p, m);
                    }
                }
                Err(()) => sink.rep("PANIC", format!("worker {tid} died outside a call")),
            }
        }
        let calls: Vec<CallRec> = trace
            .iter()
            .filter_map(|r| match r {
                Rec::Ret { tid, idx, res, .. } => Some(CallRec {
                    tid: *tid,
                    idx: *idx,
                    call: case.progs[*tid][*idx].clone(),
                    res: res.clone(),
                }),
                _ => None,
            })
            .collect();
        check_common(rodeo_ref, &calls, &statics, &fin, keycap, &mut sink);
        check_trace(case, &trace, &initial, &fin, &mut sink);
        // C16 / C01: what a key resolves to never changes identity: every observation made right after a call
        // returned the key must be the very reference the key->string table holds at the end
        for (k, ptr, len, tid, idx) in SEEN_PTRS.lock().unwrap_or_else(|e| e.into_inner()).iter() {
            if let Some(e) = fin.table.iter().find(|e| e.idx == *k) {
                if e.ptr != *ptr || e.bytes.len() != *len {
                    sink.rep("C16", format!("K{k} resolved to address {ptr:#x} (len {len}) right after call {tid}.{idx} returned it, but to {:#x} (len {}) at the end: the stored reference was replaced", e.ptr, e.bytes.len()));
                }
            }
        }
    }
    out.mon.write_all(buffer.as_bytes())?;
    out.flush()?;
    *PROBE.lock().unwrap_or_else(|e| e.into_inner()) = None;
    // the interner is dropped here; nothing observes it any more
    let _ = catch_unwind(AssertUnwindSafe(move || drop(rodeo)));
    // the process-global bookkeeping of the case is released with it
    {
        let mut g = ctl();
        g.workers = Vec::new();
        g.trace = Vec::new();
    }
    *SEEN_PTRS.lock().unwrap_or_else(|e| e.into_inner()) = Vec::new();
    Ok(())
}

/// The monitors that need the event trace: C05 (blocks and reservations), C09 (observed usage)
fn check_trace(case: &Case, trace: &[Rec], initial: &ArenaAudit, fin: &Final, sink: &mut Sink<'_>) {
    // ---- C05: no block is lost
    let allocs: Vec<(usize, usize)> = trace
        .iter()
        .filter_map(|r| match r {
            Rec::Ev { site: site::OBS_BUCKET_ALLOC, a, b, .. } => Some((*a, *b)),
            _ => None,
        })
        .collect();
    if fin.audit.blocks.len() != initial.blocks.len() + allocs.len() {
        sink.rep(
            "C05",
            format!(
                "{} blocks at the end but {} at the start + {} allocated",
                fin.audit.blocks.len(),
                initial.blocks.len(),
                allocs.len()
            ),
        );
    }
    let mut caps: HashMap<usize, usize> = HashMap::new();
    for (addr, cap) in initial
        .blocks
        .iter()
        .map(|b| (b.block, b.capacity))
        .chain(allocs.iter().copied())
    {
        caps.insert(addr, cap);
        match fin.audit.blocks.iter().find(|b| b.block == addr) {
            None => sink.rep("C05", format!("the block {addr} (capacity {cap}) is not in the final list")),
            Some(b) if b.capacity != cap => sink.rep(
                "C05",
                format!("the block {addr} was allocated with capacity {cap} but reports {}", b.capacity),
            ),
            Some(_) => {}
        }
    }

    // ---- C05: the regions handed to calls (also to calls that failed later) are disjoint
    let n = case.progs.len();
    let mut current: Vec<Option<usize>> = vec![None; n];
    let mut regions: Vec<(usize, usize, usize, usize, usize)> = Vec::new(); // (block, start, end, tid, idx)
    for r in trace {
        match r {
            Rec::Call { tid, idx } => current[*tid] = Some(*idx),
            Rec::Ret { tid, .. } => current[*tid] = None,
            Rec::Ev { tid, site: s, a, b } => {
                let (block, off) = match *s {
                    site::OBS_STORED => (*a, *b),
                    site::OBS_BUCKET_ALLOC => (*a, 0),
                    _ => continue,
                };
                let Some(idx) = current[*tid] else { continue };
                let Some(text) = case.progs[*tid][idx].string() else { continue };
                regions.push((block, off, off + text.len(), *tid, idx));
                if let Some(cap) = caps.get(&block) {
                    if off + text.len() > *cap {
                        sink.rep(
                            "C05",
                            format!(
                                "call {tid}.{idx} was handed [{off}, {}) of block {block} whose capacity is {cap}",
                                off + text.len()
                            ),
                        );
                    }
                }
            }
        }
    }
    regions.sort();
    for w in regions.windows(2) {
        if w[0].0 == w[1].0 && w[1].1 < w[0].2 {
            sink.rep(
                "C05",
                format!(
                    "block {}: call {}.{} was handed [{}, {}) and call {}.{} [{}, {})",
                    w[0].0, w[0].3, w[0].4, w[0].1, w[0].2, w[1].3, w[1].4, w[1].1, w[1].2
                ),
            );
        }
    }

    // ---- C09: no observable usage above the limit in force (checked while no L call is in flight).
    // The bound is max(limit in force, usage when that limit came into force): lowering the limit
    // below the usage is documented to do nothing.
    let is_limit_call = |tid: usize, idx: usize| matches!(case.progs[tid][idx], Call::SetLimit(_));
    let mut lim = case.lim;
    let mut floor = initial.memory_usage;
    let mut inflight = 0usize;
    for r in trace {
        match r {
            Rec::Call { tid, idx } => {
                if is_limit_call(*tid, *idx) {
                    inflight += 1;
                }
            }
            Rec::Ret { tid, idx, res, usage } => {
                if let Call::SetLimit(l) = case.progs[*tid][*idx] {
                    inflight = inflight.saturating_sub(1);
                    if *res == Res::Unit {
                        lim = l;
                        floor = *usage;
                    }
                } else if inflight == 0 {
                    if let (Call::Usage, Res::Num(u)) = (&case.progs[*tid][*idx], res) {
                        if *u > lim.max(floor) {
                            sink.rep(
                                "C09",
                                format!("call {tid}.{idx} observed usage {u} > limit {lim} (usage when the limit was set: {floor})"),
                            );
                        }
                    }
                }
            }
            Rec::Ev { tid, site: site::OBS_USAGE_LOAD, a, .. } => {
                if inflight == 0 && *a > lim.max(floor) {
                    sink.rep(
                        "C09",
                        format!("thread {tid} loaded usage {a} > limit {lim} (usage when the limit was set: {floor})"),
                    );
                }
            }
            Rec::Ev { .. } => {}
        }
    }
    if inflight == 0 && fin.audit.memory_usage > lim.max(floor) {
        sink.rep(
            "C09",
            format!(
                "final usage {} > limit {lim} (usage when the limit was set: {floor})",
                fin.audit.memory_usage
            ),
        );
    }
}

fn keycap_of(key: KeySel) -> u64 {
    match key {
        KeySel::Micro => 255,
        KeySel::Mini => 65535,
        KeySel::Spur => u32::MAX as u64,
        KeySel::Large => u64::MAX,
        KeySel::Cap(n) => (n as u64).min(1 << 32),
    }
}

/// Makes the libraries allocate what they keep for the rest of the process before the first
/// `talloc` scope is opened: the main thread's handle, the panic machinery, and above all
/// parking_lot's global hash table of parked threads (dashmap's shard locks park through it).
/// That table is created when a thread first parks and is replaced by a larger one -- the old
/// one is leaked on purpose -- whenever more threads than ever before have parked and are alive;
/// here `max_threads` threads register at once, so it never grows again during the cases.
fn warm_up(max_threads: usize) {
    let _ = std::thread::current();
    let n = max_threads + 8;
    let barrier = Barrier::new(n);
    std::thread::scope(|s| {
        for _ in 0..n {
            s.spawn(|| {
                let key = &barrier as *const Barrier as usize;
                // Safety: `validate` answers false, so nothing is queued and nobody sleeps; the
                // call only makes this thread register with parking_lot (and size the table)
                let _ = unsafe {
                    parking_lot_core::park(key, || false, || {}, |_, _| {}, parking_lot_core::DEFAULT_PARK_TOKEN, None)
                };
                // all registrations are alive at the same time
                barrier.wait();
            });
        }
    });
    let _ = catch_unwind(|| panic!("warm-up"));
}

/// `concdriver run <cases> <traces>`: returns the process exit status
pub fn run_file(cases_path: &str, traces_path: &str, opts: &RunOpts) -> io::Result<i32> {
    let cases = std::fs::read_to_string(cases_path)?;
    let open = |path: &str| -> io::Result<BufWriter<File>> {
        let f = if opts.skip_to.is_some() {
            OpenOptions::new().create(true).append(true).open(path)?
        } else {
            File::create(path)?
        };
        Ok(BufWriter::new(f))
    };
    let mut out = Out {
        traces: open(traces_path)?,
        mon: open(&format!("{traces_path}.mon"))?,
    };
    install_silent_panic_hook();
    verif::set_observer(Some(observer));
    // (a case has one thread per `;`-separated program)
    warm_up(cases.lines().map(|l| l.matches(';').count()).max().unwrap_or(0).max(16));
    let mut skipping = opts.skip_to.is_some();
    for line in cases.lines() {
        let line = line.trim_end_matches('\r');
        if line.trim().is_empty() || line.starts_with('#') {
            continue;
        }
        let case = match parse_case(line) {
            Ok(c) => c,
            Err((id, msg)) => {
                if skipping {
                    if Some(&id) == opts.skip_to.as_ref() {
                        skipping = false;
                    }
                    continue;
                }
                writeln!(out.mon, "M {id} CFG {msg}")?;
                continue;
            }
        };
        if skipping {
            if Some(&case.id) == opts.skip_to.as_ref() {
                skipping = false;
            }
            continue;
        }
        let keycap = keycap_of(case.key);
        match case.key {
            KeySel::Micro => run_case::<MicroSpur>(&case, keycap, None, opts, &mut out)?,
            KeySel::Mini => run_case::<MiniSpur>(&case, keycap, None, opts, &mut out)?,
            KeySel::Spur => run_case::<Spur>(&case, keycap, None, opts, &mut out)?,
            KeySel::Large => run_case::<LargeSpur>(&case, keycap, None, opts, &mut out)?,
            KeySel::Cap(n) => run_case::<DynKey>(&case, keycap, Some(n), opts, &mut out)?,
        }
    }
    verif::set_observer(None);
    out.flush()?;
    Ok(0)
}

// ------------------------------------------------------------------------------------------
// free-running stress mode
// ------------------------------------------------------------------------------------------

/// xorshift64*
struct Rng(u64);

impl Rng {
    fn new(seed: u64) -> Self {
        // splitmix64 step so that small seeds give unrelated streams
        let mut z = seed.wrapping_add(0x9e37_79b9_7f4a_7c15);
        z = (z ^ (z >> 30)).wrapping_mul(0xbf58_476d_1ce4_e5b9);
        z = (z ^ (z >> 27)).wrapping_mul(0x94d0_49bb_1331_11eb);
        z ^= z >> 31;
        Rng(if z == 0 { 0x1234_5678_9abc_def1 } else { z })
    }

    fn next(&mut self) -> u64 {
        let mut x = self.0;
        x ^= x >> 12;
        x ^= x << 25;
        x ^= x >> 27;
        self.0 = x;
        x.wrapping_mul(0x2545_f491_4f6c_dd1d)
    }

    /// uniform in `0..n` (n > 0)
    fn below(&mut self, n: usize) -> usize {
        (self.next() % n as u64) as usize
    }

    /// uniform in `lo..=hi`
    fn range(&mut self, lo: usize, hi: usize) -> usize {
        lo + self.below(hi - lo + 1)
    }
}

/// The configuration of one stress round
struct Round {
    id: String,
    cap: usize,
    lim: usize,
    keycap: u64,
    dyn_cap: Option<usize>,
    pool: Vec<String>,
    ops: usize,
    /// whether workers change the limit during the round
    limit_changes: bool,
    seed: u64,
    /// the configuration in words, appended to every finding
    context: String,
}

/// The i-th string of a pool: a unique prefix (its first byte spreads the strings over the
/// shards of `ShardHasher`) padded to `len` bytes
fn pool_string(i: usize, len: usize) -> String {
    let mut s = String::new();
    s.push((0x30 + (i % 64) as u8) as char);
    if i >= 64 {
        s.push((0x30 + ((i / 64) % 64) as u8) as char);
    }
    let mut fill = b'a' + (i % 26) as u8;
    while s.len() < len {
        s.push(fill as char);
        fill = if fill == b'z' { b'a' } else { fill + 1 };
    }
    s
}

struct RoundResult {
    findings: usize,
}

/// How often the serialiser thread of a stress round takes a snapshot
const SNAPSHOTS_PER_ROUND: usize = 20;

/// The entries of a JSON object in document order, repeated names kept (a `serde_json::Map` would merge them)
struct ObjectEntries(Vec<(String, serde_json::Value)>);

impl<'de> serde::Deserialize<'de> for ObjectEntries {
    fn deserialize<D: serde::Deserializer<'de>>(d: D) -> Result<Self, D::Error> {
        struct V;
        impl<'de> serde::de::Visitor<'de> for V {
            type Value = ObjectEntries;
            fn expecting(&self, f: &mut std::fmt::Formatter<'_>) -> std::fmt::Result {
                f.write_str("a JSON object")
            }
            fn visit_map<A: serde::de::MapAccess<'de>>(self, mut map: A) -> Result<ObjectEntries, A::Error> {
                let mut entries = Vec::new();
                while let Some(entry) = map.next_entry::<String, serde_json::Value>()? {
                    entries.push(entry);
                }
                Ok(ObjectEntries(entries))
            }
        }
        d.deserialize_map(V)
    }
}

/// C14 on the snapshots a serialiser thread took while the workers interned: each is a JSON object whose entries
/// `"s": k` name a string of the pool once, with a raw key k >= 1 under which the interner (now quiescent; a key
/// resolves to one string forever) resolves exactly that string.  NOT required: that the keys of a snapshot are dense.
fn check_snapshots<K: CKey, S: CHasher>(
    rodeo: &ThreadedRodeo<K, S>,
    pool: &[String],
    snapshots: &[Result<String, String>],
    sink: &mut Sink<'_>,
) {
    let shorten = |text: &str| -> String {
        let mut cut = text.len().min(160);
        while !text.is_char_boundary(cut) {
            cut -= 1;
        }
        format!("{}{}", &text[..cut], if cut < text.len() { "..." } else { "" })
    };
    for (n, snapshot) in snapshots.iter().enumerate() {
        let text = match snapshot {
            Ok(text) => text,
            Err(msg) => {
                sink.rep("C14", format!("snapshot {n}: {msg}"));
                continue;
            }
        };
        match serde_json::from_str::<serde_json::Value>(text) {
            Err(e) => {
                sink.rep("C14", format!("snapshot {n} is not a JSON value ({e}): {}", shorten(text)));
                continue;
            }
            Ok(serde_json::Value::Object(_)) => {}
            Ok(_) => {
                sink.rep("C14", format!("snapshot {n} is not a JSON object: {}", shorten(text)));
                continue;
            }
        }
        let entries = match serde_json::from_str::<ObjectEntries>(text) {
            Ok(e) => e.0,
            Err(e) => {
                sink.rep("C14", format!("snapshot {n} cannot be read entry by entry ({e}): {}", shorten(text)));
                continue;
            }
        };
        let mut seen: BTreeSet<&str> = BTreeSet::new();
        for (s, v) in &entries {
            if !seen.insert(s.as_str()) {
                sink.rep("C14", format!("snapshot {n} lists the string {} twice", hex(s.as_bytes())));
            }
            if !pool.iter().any(|p| p == s) {
                sink.rep("C14", format!("snapshot {n} lists {} which nobody interns", hex(s.as_bytes())));
            }
            let raw = match v.as_u64() {
                Some(raw) if raw >= 1 => raw,
                _ => {
                    sink.rep("C14", format!("snapshot {n}: the key of {} is {v}, not a positive integer", hex(s.as_bytes())));
                    continue;
                }
            };
            let key = usize::try_from(raw - 1).ok().and_then(K::try_from_usize);
            let resolved = match key {
                Some(key) => catch_unwind(AssertUnwindSafe(|| rodeo.try_resolve(&key).map(|r| r.as_bytes().to_vec()))),
                None => Ok(None),
            };
            match resolved {
                Ok(Some(r)) if r == s.as_bytes() => {}
                Ok(Some(r)) => sink.rep(
                    "C14",
                    format!("snapshot {n} says {} has the raw key {raw}, which resolves to {}", hex(s.as_bytes()), hex(&r)),
                ),
                Ok(None) => sink.rep(
                    "C14",
                    format!("snapshot {n} says {} has the raw key {raw}, which does not resolve", hex(s.as_bytes())),
                ),
                Err(_) => sink.rep("C14", format!("snapshot {n}: try_resolve of the raw key {raw} panicked")),
            }
        }
    }
}

/// One round inside a scope of the allocation-discipline monitor (C04, `talloc`)
fn stress_round<K: CKey, S: CHasher>(
    round: &Round,
    hasher: S,
    threads: usize,
    mon: &mut String,
) -> RoundResult {
    let snapshot = talloc::scope_begin();
    talloc::set_all_threads(true);
    let mut result = stress_round_inner::<K, S>(round, hasher, threads, mon);
    talloc::set_all_threads(false);
    let report = talloc::scope_end(snapshot);
    let mut lines: Vec<u8> = Vec::new();
    let when = "the interner and the workers of the round were dropped";
    result.findings += write_alloc_report(&mut lines, &round.id, &report, when).unwrap_or(0);
    for line in String::from_utf8_lossy(&lines).lines() {
        let _ = writeln!(mon, "{line} [{}]", round.context);
    }
    result
}

fn stress_round_inner<K: CKey, S: CHasher>(
    round: &Round,
    hasher: S,
    threads: usize,
    mon: &mut String,
) -> RoundResult {
    SEEN_PTRS.lock().unwrap_or_else(|e| e.into_inner()).clear();
    if let Some(n) = round.dyn_cap {
        set_dyn_cap(n);
    }
    let mut sink = Sink::new(&round.id, mon);
    sink.context = format!(" [{}]", round.context);
    let built = catch_unwind(AssertUnwindSafe(|| {
        ThreadedRodeo::<K, S>::with_capacity_memory_limits_and_hasher(
            Capacity::new(0, NonZeroUsize::new(round.cap).expect("CAP > 0")),
            MemoryLimits::new(round.lim),
            hasher,
        )
    }));
    let rodeo = match built {
        Ok(r) => r,
        Err(_) => {
            sink.rep("CFG", "the interner could not be constructed");
            return RoundResult { findings: sink.total };
        }
    };
    let initial = rodeo.verif_audit();
    // every limit that is or was in force: usage can only grow while usage + request <= some limit
    let hi_bound = AtomicUsize::new(round.lim.max(initial.memory_usage));
    let done = AtomicBool::new(false);
    // the workers, the usage sampler and the serialiser
    let barrier = Barrier::new(threads + 2);
    let statics: Vec<Vec<&'static str>> = (0..threads)
        .map(|t| round.pool.iter().map(|s| leaked(s, t)).collect())
        .collect();
    let all_statics: Vec<&'static str> = statics.iter().flatten().copied().collect();

    let rodeo_ref = &rodeo;
    let hi_ref = &hi_bound;
    let done_ref = &done;
    let barrier_ref = &barrier;
    let statics_ref = &statics;
    type WorkerOut = (Vec<CallRec>, Vec<Finding>);
    let (results, sampler_notes, snapshots): (Vec<Result<WorkerOut, ()>>, Vec<Finding>, Vec<Result<String, String>>) = std::thread::scope(|s| {
        let handles: Vec<_> = (0..threads)
            .map(|tid| {
                s.spawn(move || -> WorkerOut {
                    if let Some(n) = round.dyn_cap {
                        set_dyn_cap(n);
                    }
                    let mut rng = Rng::new(round.seed ^ ((tid as u64 + 1) << 32));
                    let mut recs: Vec<CallRec> = Vec::with_capacity(round.ops);
                    let mut notes: Vec<Finding> = Vec::new();
                    let mut known: Vec<usize> = Vec::new();
                    barrier_ref.wait();
                    for idx in 0..round.ops {
                        let pick = rng.below(round.pool.len());
                        let roll = rng.below(100);
                        let call = if round.limit_changes && roll < 3 {
                            let usage = rodeo_ref.current_memory_usage();
                            let l = match rng.below(4) {
                                0 => usize::MAX,
                                1 => usage,
                                _ => usage + rng.below(2 * round.cap + 2),
                            };
                            Call::SetLimit(l)
                        } else if roll < 50 {
                            Call::Intern(round.pool[pick].clone())
                        } else if roll < 65 {
                            Call::InternStatic(round.pool[pick].clone())
                        } else if roll < 82 {
                            Call::Get(round.pool[pick].clone())
                        } else if roll < 94 {
                            let k = if known.is_empty() || rng.below(4) == 0 {
                                rng.below(round.pool.len() + 2)
                            } else {
                                known[rng.below(known.len())]
                            };
                            Call::Resolve(k)
                        } else {
                            Call::Usage
                        };
                        if let Call::SetLimit(l) = call {
                            // published before the store so that the bound never lags behind
                            hi_ref.fetch_max(l, Ordering::SeqCst);
                        }
                        let pcall = PCall {
                            stat: matches!(call, Call::InternStatic(_)).then(|| statics_ref[tid][pick]),
                            call,
                        };
                        let res = exec_call(rodeo_ref, &pcall);
                        post_checks(rodeo_ref, tid, idx, &pcall.call, &res, &mut notes);
                        match (&pcall.call, &res) {
                            (_, Res::Key(k)) => known.push(*k),
                            (Call::Usage, Res::Num(u)) => {
                                let bound = hi_ref.load(Ordering::SeqCst);
                                if *u > bound {
                                    notes.push((
                                        "C09",
                                        format!("call {tid}.{idx} observed usage {u} > every limit so far ({bound})"),
                                    ));
                                }
                            }
                            (Call::Resolve(k), Res::Str(s)) => {
                                // a key resolves to one string forever: compare with the pool by content
                                if !round.pool.iter().any(|p| p.as_bytes() == &s[..]) {
                                    notes.push((
                                        "C05",
                                        format!("call {tid}.{idx}: K{k} resolved to {} which nobody interns", hex(s)),
                                    ));
                                }
                            }
                            _ => {}
                        }
                        recs.push(CallRec {
                            tid,
                            idx,
                            call: pcall.call,
                            res,
                        });
                    }
                    (recs, notes)
                })
            })
            .collect();
        let sampler = s.spawn(move || -> Vec<Finding> {
            let mut notes: Vec<Finding> = Vec::new();
            barrier_ref.wait();
            let mut last = 0usize;
            while !done_ref.load(Ordering::SeqCst) {
                let u = rodeo_ref.current_memory_usage();
                let bound = hi_ref.load(Ordering::SeqCst);
                if u > bound && notes.len() < 3 {
                    notes.push(("C09", format!("sampled usage {u} > every limit so far ({bound})")));
                }
                if u < last && notes.len() < 3 {
                    notes.push(("C09", format!("sampled usage went down from {last} to {u}")));
                }
                last = u;
                std::hint::spin_loop();
            }
            notes
        });
        // C14: serialises the interner again and again while the others intern (the first time right after the
        // barrier, when it may still be empty); the documents are judged after the join
        let serialiser = s.spawn(move || -> Vec<Result<String, String>> {
            let mut docs: Vec<Result<String, String>> = Vec::with_capacity(SNAPSHOTS_PER_ROUND);
            barrier_ref.wait();
            for n in 0..SNAPSHOTS_PER_ROUND {
                // one more after the workers are done (the final state), then stop
                let last = n >= 2 && done_ref.load(Ordering::SeqCst);
                docs.push(match catch_unwind(AssertUnwindSafe(|| serde_json::to_string(rodeo_ref))) {
                    Ok(Ok(text)) => Ok(text),
                    Ok(Err(e)) => Err(format!("serde_json::to_string failed: {e}")),
                    Err(_) => Err("serde_json::to_string panicked".to_string()),
                });
                if last {
                    break;
                }
            }
            docs
        });
        let results: Vec<Result<WorkerOut, ()>> =
            handles.into_iter().map(|h| h.join().map_err(|_| ())).collect();
        done_ref.store(true, Ordering::SeqCst);
        let sampler_notes = sampler.join().unwrap_or_default();
        let snapshots = serialiser
            .join()
            .unwrap_or_else(|_| vec![Err("the serialiser thread died".to_string())]);
        (results, sampler_notes, snapshots)
    });

    let mut calls: Vec<CallRec> = Vec::new();
    for (tid, r) in results.into_iter().enumerate() {
        match r {
            Ok((recs, notes)) => {
                calls.extend(recs);
                for (p, m) in notes {
                    sink.rep(p, m);
                }
            }
            Err(()) => sink.rep("PANIC", format!("worker {tid} died outside a call")),
        }
    }
    for (p, m) in sampler_notes {
        sink.rep(p, m);
    }
    check_snapshots(rodeo_ref, &round.pool, &snapshots, &mut sink);
    drop(snapshots);
    let fin = take_final(rodeo_ref);
    check_common(rodeo_ref, &calls, &all_statics, &fin, round.keycap, &mut sink);
    let bound = hi_bound.load(Ordering::SeqCst);
    if fin.audit.memory_usage > bound {
        sink.rep(
            "C09",
            format!("final usage {} > every limit of the round ({bound})", fin.audit.memory_usage),
        );
    }
    // E:mem must be justified: with an unlimited interner it can never be reported
    if bound == usize::MAX && !round.limit_changes {
        for c in &calls {
            if c.res == Res::Err("E:mem") {
                sink.rep("C07", format!("call {}.{} returned E:mem without a memory limit", c.tid, c.idx));
            }
        }
    }
    let findings = sink.total;
    let _ = catch_unwind(AssertUnwindSafe(move || drop(rodeo)));
    RoundResult { findings }
}

/// `concdriver stress <seconds> <threads> <seed> <monfile>`
pub fn stress(seconds: u64, threads: usize, seed: u64, monfile: &str) -> io::Result<()> {
    let mut mon = BufWriter::new(File::create(monfile)?);
    install_silent_panic_hook();
    verif::set_observer(None);
    let threads = threads.max(1);
    warm_up(threads + 2);
    let deadline = Instant::now() + Duration::from_secs(seconds);
    let mut rounds = 0u64;
    let mut violations = 0usize;
    let mut buffer = String::new();
    while Instant::now() < deadline {
        let round_seed = seed
            .wrapping_mul(0x9e37_79b9_7f4a_7c15)
            .wrapping_add(rounds.wrapping_mul(0xd1b5_4a32_d192_ed03));
        let mut rng = Rng::new(round_seed);
        let ksel = rng.below(3); // 0 spur, 1 micro, 2 cap5
        let shard_hasher = rounds % 2 == 0;
        let cap = rng.range(1, 64);
        let (keycap, dyn_cap, pool_len) = match ksel {
            0 => (u32::MAX as u64, None, rng.range(4, 40)),
            1 => {
                // now and then more strings than an 8-bit key admits
                let n = if rng.below(6) == 0 { rng.range(250, 300) } else { rng.range(4, 32) };
                (255, None, n)
            }
            _ => (5, Some(5), rng.range(3, 10)),
        };
        let big = pool_len > 64;
        let pool: Vec<String> = (0..pool_len)
            .map(|i| {
                let len = if big {
                    rng.range(1, 3)
                } else {
                    match rng.below(10) {
                        0 => 1,
                        1 => cap,
                        2 => cap + 1,
                        3 => 2 * cap + 1,
                        4 => (2 * cap).max(1),
                        _ => rng.range(1, cap + 2),
                    }
                };
                pool_string(i, len)
            })
            .collect();
        // one round in four also races the empty string
        let mut pool = pool;
        if rng.below(4) == 0 {
            pool[0] = String::new();
        }
        let total: usize = pool.iter().map(|s| s.len()).sum();
        let lim = match rng.below(6) {
            0 | 1 => usize::MAX,
            2 => cap,
            3 => cap + rng.below(3 * cap + 1),
            4 => cap + total / 2,
            _ => cap + rng.below(total + 1),
        };
        let ops = if big {
            (2 * pool_len / threads).max(20)
        } else {
            rng.range(8, 48)
        };
        let round = Round {
            id: format!("stress-{seed}-{rounds}"),
            cap,
            lim,
            keycap,
            dyn_cap,
            pool,
            ops,
            limit_changes: rng.below(4) == 0,
            seed: rng.next(),
            context: String::new(),
        };
        let round = Round {
            context: format!(
                "K={} hasher={} CAP={} LIM={} pool={} ops={} threads={} limit_changes={}",
                ["spur", "micro", "cap5"][ksel],
                if shard_hasher { "shard" } else { "random" },
                round.cap,
                if round.lim == usize::MAX { "max".to_string() } else { round.lim.to_string() },
                round.pool.len(),
                round.ops,
                threads,
                round.limit_changes
            ),
            ..round
        };
        buffer.clear();
        let result = match (ksel, shard_hasher) {
            (0, true) => stress_round::<Spur, ShardHasher>(&round, ShardHasher, threads, &mut buffer),
            (0, false) => stress_round::<Spur, RandomState>(&round, RandomState::new(), threads, &mut buffer),
            (1, true) => stress_round::<MicroSpur, ShardHasher>(&round, ShardHasher, threads, &mut buffer),
            (1, false) => {
                stress_round::<MicroSpur, RandomState>(&round, RandomState::new(), threads, &mut buffer)
            }
            (_, true) => stress_round::<DynKey, ShardHasher>(&round, ShardHasher, threads, &mut buffer),
            (_, false) => stress_round::<DynKey, RandomState>(&round, RandomState::new(), threads, &mut buffer),
        };
        if !buffer.is_empty() {
            mon.write_all(buffer.as_bytes())?;
            mon.flush()?;
        }
        violations += result.findings;
        rounds += 1;
    }
    mon.flush()?;
    println!("STRESS rounds={rounds} violations={violations}");
    Ok(())
}
