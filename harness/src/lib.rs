//! Shared pieces of the correspondence drivers (see `/verif/FORMAT.md`):
//! the seeded hasher families (`VHasher`), the capacity-limited key (`DynKey`), the hex
//! helpers, the static pool and the snapshot / digest code.  The sequential case
//! interpreter lives in `interp`, the model-independent property checks in `monitors`.

use lasso::verif::ArenaAudit;
use std::cell::Cell;
use std::collections::hash_map::DefaultHasher;
use std::collections::HashMap;
use std::fmt::Write as _;
use std::hash::{BuildHasher, Hasher};
use std::sync::atomic::{AtomicU64, Ordering};
use std::sync::Mutex;

pub mod conc;
pub mod interp;
pub mod monitors;
pub mod talloc;

// ------------------------------------------------------------------------------------------
// hex helpers
// ------------------------------------------------------------------------------------------

const HEXDIGITS: &[u8; 16] = b"0123456789abcdef";

/// Appends the lower-case hex of `bytes` to `out`; the empty string is `-`
pub fn push_hex(out: &mut String, bytes: &[u8]) {
    if bytes.is_empty() {
        out.push('-');
        return;
    }
    for b in bytes {
        out.push(HEXDIGITS[(b >> 4) as usize] as char);
        out.push(HEXDIGITS[(b & 15) as usize] as char);
    }
}

/// Lower-case hex of `bytes`; the empty string is `-`
pub fn hex(bytes: &[u8]) -> String {
    let mut s = String::with_capacity(bytes.len() * 2 + 1);
    push_hex(&mut s, bytes);
    s
}

/// Inverse of [`hex`]: `-` is the empty string; anything that is not an even number of
/// lower-case hex digits is rejected
pub fn unhex(text: &str) -> Option<Vec<u8>> {
    if text == "-" {
        return Some(Vec::new());
    }
    let t = text.as_bytes();
    if t.is_empty() || t.len() % 2 != 0 {
        return None;
    }
    fn val(c: u8) -> Option<u8> {
        match c {
            b'0'..=b'9' => Some(c - b'0'),
            b'a'..=b'f' => Some(c - b'a' + 10),
            _ => None,
        }
    }
    let mut out = Vec::with_capacity(t.len() / 2);
    for pair in t.chunks(2) {
        out.push(val(pair[0])? << 4 | val(pair[1])?);
    }
    Some(out)
}

/// [`unhex`] followed by UTF-8 validation
pub fn unhex_str(text: &str) -> Option<String> {
    String::from_utf8(unhex(text)?).ok()
}

// ------------------------------------------------------------------------------------------
// VHasher: the five hasher families
// ------------------------------------------------------------------------------------------

pub const FAM_RS: u8 = 0;
pub const FAM_C0: u8 = 1;
pub const FAM_LEN: u8 = 2;
pub const FAM_LOW3: u8 = 3;
pub const FAM_FNV: u8 = 4;
/// like `fnv`, but `Clone` draws a NEW seed: every table that is handed a clone of the hasher hashes differently
/// (legal for `S: BuildHasher + Clone`; an interner must hash each table with that table's own hasher instance)
pub const FAM_RCL: u8 = 5;

/// Parses the `H=` token
pub fn family_from_name(name: &str) -> Option<u8> {
    Some(match name {
        "rs" => FAM_RS,
        "c0" => FAM_C0,
        "len" => FAM_LEN,
        "low3" => FAM_LOW3,
        "fnv" => FAM_FNV,
        "rcl" => FAM_RCL,
        _ => return None,
    })
}

thread_local! {
    static CURRENT_FAMILY: Cell<u8> = const { Cell::new(FAM_RS) };
    static DYN_CAP: Cell<usize> = const { Cell::new(0) };
}

/// Seeds handed to `VHasher::default()`, never repeated within a process
static DEFAULT_SEED: AtomicU64 = AtomicU64::new(0xD5EE_D000_0000_0001);

/// Sets the family `VHasher::default()` uses on this thread
pub fn set_current_family(family: u8) {
    CURRENT_FAMILY.with(|f| f.set(family));
}

/// The family `VHasher::default()` uses on this thread
pub fn current_family() -> u8 {
    CURRENT_FAMILY.with(|f| f.get())
}

/// A `BuildHasher` of one of six families; every instance carries a seed
#[derive(Debug, PartialEq, Eq)]
pub struct VHasher {
    pub family: u8,
    pub seed: u64,
}

impl VHasher {
    pub fn new(family: u8, seed: u64) -> Self {
        Self { family, seed }
    }

    /// A hasher of the thread's current family with the given seed
    pub fn seeded(seed: u64) -> Self {
        Self {
            family: current_family(),
            seed,
        }
    }
}

impl Clone for VHasher {
    fn clone(&self) -> Self {
        Self {
            family: self.family,
            seed: if self.family == FAM_RCL {
                DEFAULT_SEED.fetch_add(1, Ordering::Relaxed)
            } else {
                self.seed
            },
        }
    }
}

impl Default for VHasher {
    fn default() -> Self {
        Self {
            family: current_family(),
            seed: DEFAULT_SEED.fetch_add(1, Ordering::Relaxed),
        }
    }
}

const FNV_OFFSET: u64 = 0xcbf2_9ce4_8422_2325;
const FNV_PRIME: u64 = 0x0000_0100_0000_01b3;

fn fnv_feed(mut h: u64, bytes: &[u8]) -> u64 {
    for b in bytes {
        h ^= *b as u64;
        h = h.wrapping_mul(FNV_PRIME);
    }
    h
}

/// The `Hasher` of [`VHasher`]
#[derive(Clone, Debug)]
pub enum VHash {
    Sip(DefaultHasher),
    Zero,
    Len { seed: u64, fed: u64 },
    Fnv { state: u64, mask: u64 },
}

impl Hasher for VHash {
    fn write(&mut self, bytes: &[u8]) {
        match self {
            VHash::Sip(h) => h.write(bytes),
            VHash::Zero => {}
            VHash::Len { fed, .. } => *fed = fed.wrapping_add(bytes.len() as u64),
            VHash::Fnv { state, .. } => *state = fnv_feed(*state, bytes),
        }
    }

    fn finish(&self) -> u64 {
        match self {
            VHash::Sip(h) => h.finish(),
            VHash::Zero => 0,
            VHash::Len { seed, fed } => seed ^ fed,
            VHash::Fnv { state, mask } => state & mask,
        }
    }
}

impl BuildHasher for VHasher {
    type Hasher = VHash;

    fn build_hasher(&self) -> VHash {
        match self.family {
            FAM_C0 => VHash::Zero,
            FAM_LEN => VHash::Len {
                seed: self.seed,
                fed: 0,
            },
            FAM_LOW3 => VHash::Fnv {
                state: fnv_feed(FNV_OFFSET, &self.seed.to_le_bytes()),
                mask: 7,
            },
            FAM_FNV | FAM_RCL => VHash::Fnv {
                state: fnv_feed(FNV_OFFSET, &self.seed.to_le_bytes()),
                mask: u64::MAX,
            },
            _ => {
                let mut h = DefaultHasher::new();
                h.write_u64(self.seed);
                VHash::Sip(h)
            }
        }
    }
}

// ------------------------------------------------------------------------------------------
// DynKey: a key type admitting exactly CAP keys (thread-local CAP)
// ------------------------------------------------------------------------------------------

/// Sets how many keys `DynKey` admits on this thread (`K=cap<N>`)
pub fn set_dyn_cap(cap: usize) {
    DYN_CAP.with(|c| c.set(cap));
}

/// How many keys `DynKey` admits on this thread
pub fn dyn_cap() -> usize {
    DYN_CAP.with(|c| c.get())
}

/// The custom key of `K=cap<N>`: index `i` is representable iff `i < N`
#[derive(Copy, Clone, PartialEq, Eq, Hash, Debug, PartialOrd, Ord)]
pub struct DynKey(pub u32);

unsafe impl lasso::Key for DynKey {
    fn into_usize(self) -> usize {
        self.0 as usize
    }

    fn try_from_usize(int: usize) -> Option<Self> {
        if int < dyn_cap() && int <= u32::MAX as usize {
            Some(DynKey(int as u32))
        } else {
            None
        }
    }
}

impl serde::Serialize for DynKey {
    fn serialize<S: serde::Serializer>(&self, serializer: S) -> Result<S::Ok, S::Error> {
        serializer.serialize_u64(self.0 as u64 + 1)
    }
}

impl<'de> serde::Deserialize<'de> for DynKey {
    fn deserialize<D: serde::Deserializer<'de>>(deserializer: D) -> Result<Self, D::Error> {
        let raw = <u64 as serde::Deserialize>::deserialize(deserializer)?;
        if raw >= 1 && raw - 1 <= u32::MAX as u64 && raw <= dyn_cap() as u64 {
            Ok(DynKey((raw - 1) as u32))
        } else {
            Err(serde::de::Error::custom("raw key value out of range"))
        }
    }
}

// ------------------------------------------------------------------------------------------
// the pool of 'static strings
// ------------------------------------------------------------------------------------------

/// Own-buffer pool entries, leaked once per (content, ordinal among the entries of that
/// content within one case) and re-used by later cases
static POOL_CACHE: Mutex<Option<HashMap<(Vec<u8>, usize), &'static str>>> = Mutex::new(None);

fn leak_own_buffer(content: &str) -> &'static str {
    // at least one byte is allocated so that even an empty entry has an address of its own
    let mut v: Vec<u8> = Vec::with_capacity(content.len().max(1));
    v.extend_from_slice(content.as_bytes());
    let v = std::mem::ManuallyDrop::new(v);
    // Safety: the buffer is never freed or written again and holds valid UTF-8
    unsafe { std::str::from_utf8_unchecked(std::slice::from_raw_parts(v.as_ptr(), content.len())) }
}

/// Builds the pool of a case from its `P=` value (without the `P=` prefix).
/// The own-buffer entries are leaked on purpose and cached for the rest of the process: none
/// of this is part of what a case must release (`talloc::untracked`).
pub fn build_pool(spec: &str) -> Result<Vec<&'static str>, String> {
    talloc::untracked(|| build_pool_inner(spec))
}

fn build_pool_inner(spec: &str) -> Result<Vec<&'static str>, String> {
    let mut pool: Vec<&'static str> = Vec::new();
    if spec == "-" {
        return Ok(pool);
    }
    let mut own: Vec<bool> = Vec::new();
    let mut ordinals: HashMap<Vec<u8>, usize> = HashMap::new();
    let mut cache = POOL_CACHE.lock().unwrap_or_else(|e| e.into_inner());
    let cache = cache.get_or_insert_with(HashMap::new);
    for entry in spec.split(',') {
        if let Some(rest) = entry.strip_prefix('@') {
            let mut parts = rest.split('.');
            let (j, off, len) = match (parts.next(), parts.next(), parts.next(), parts.next()) {
                (Some(j), Some(off), Some(len), None) => (
                    j.parse::<usize>().map_err(|_| format!("bad pool entry {entry}"))?,
                    off.parse::<usize>().map_err(|_| format!("bad pool entry {entry}"))?,
                    len.parse::<usize>().map_err(|_| format!("bad pool entry {entry}"))?,
                ),
                _ => return Err(format!("bad pool entry {entry}")),
            };
            let base: &'static str = *pool
                .get(j)
                .ok_or_else(|| format!("pool entry {entry} refers to a later entry"))?;
            if !own[j] {
                return Err(format!("pool entry {entry} refers to a slice entry"));
            }
            let end = off.checked_add(len).ok_or_else(|| format!("bad pool entry {entry}"))?;
            let slice = base
                .get(off..end)
                .ok_or_else(|| format!("pool entry {entry} is out of range or splits a char"))?;
            pool.push(slice);
            own.push(false);
        } else {
            let content = unhex_str(entry).ok_or_else(|| format!("bad pool entry {entry}"))?;
            let ordinal = ordinals.entry(content.clone().into_bytes()).or_insert(0);
            let key = (content.clone().into_bytes(), *ordinal);
            *ordinal += 1;
            let leaked = *cache.entry(key).or_insert_with(|| leak_own_buffer(&content));
            pool.push(leaked);
            own.push(true);
        }
    }
    Ok(pool)
}

// ------------------------------------------------------------------------------------------
// snapshots and digests
// ------------------------------------------------------------------------------------------

#[derive(Clone, Copy, PartialEq, Eq, Debug)]
pub enum Kind {
    Rodeo,
    Threaded,
    Reader,
    Resolver,
}

impl Kind {
    pub fn name(self) -> &'static str {
        match self {
            Kind::Rodeo => "rodeo",
            Kind::Threaded => "threaded",
            Kind::Reader => "reader",
            Kind::Resolver => "resolver",
        }
    }
}

/// One row of a key -> string table: where the `&str` points and what it reads
#[derive(Clone, Debug, PartialEq, Eq)]
pub struct Entry {
    pub idx: usize,
    pub ptr: usize,
    pub len: usize,
    pub bytes: Box<[u8]>,
}

/// Everything a digest line is made of
#[derive(Clone, Debug)]
pub struct Snap {
    pub kind: Kind,
    pub len: usize,
    pub audit: ArenaAudit,
    /// `ThreadedRodeo::verif_key_counter()`
    pub key: Option<usize>,
    /// sorted by `idx`
    pub table: Vec<Entry>,
}

/// A private copy of the bytes a `&str` handed out by the crate points at.  The reference may dangle (that is what
/// the monitors are there to find out), and the block it points into may just have been handed to THIS allocation:
/// the copy must tolerate source == destination (`copy_nonoverlapping`, i.e. `to_vec` / `into`, aborts on that in
/// builds with debug assertions).
pub fn copy_out(s: &str) -> Box<[u8]> {
    let len = s.len();
    let mut v: Vec<u8> = Vec::with_capacity(len);
    // Safety: `v` has room for `len` bytes; `copy` is a memmove
    unsafe {
        std::ptr::copy(s.as_ptr(), v.as_mut_ptr(), len);
        v.set_len(len);
    }
    v.into_boxed_slice()
}

/// Builds a [`Snap`] from what the object reports
pub fn make_snap<'a>(
    kind: Kind,
    len: usize,
    audit: ArenaAudit,
    key: Option<usize>,
    table: impl IntoIterator<Item = (usize, &'a str)>,
) -> Snap {
    let mut table: Vec<Entry> = table
        .into_iter()
        .map(|(idx, s)| Entry {
            idx,
            ptr: s.as_ptr() as usize,
            len: s.len(),
            bytes: copy_out(s),
        })
        .collect();
    if kind == Kind::Threaded {
        table.sort_by_key(|e| e.idx);
    }
    Snap {
        kind,
        len,
        audit,
        key,
        table,
    }
}

/// How a `&str` of a string table relates to the pool and the object's own blocks
#[derive(Clone, Copy, PartialEq, Eq, Debug)]
pub enum Ref {
    /// a zero-length string that is not a pool entry
    Empty,
    /// exactly `pool[sidx]`
    Static(usize),
    /// starts at offset `off` of the block at position `pos`
    Arena { pos: usize, off: usize },
    Unknown,
}

pub fn classify(pool: &[&'static str], audit: &ArenaAudit, ptr: usize, len: usize) -> Ref {
    if let Some(sidx) = pool
        .iter()
        .position(|p| p.as_ptr() as usize == ptr && p.len() == len)
    {
        return Ref::Static(sidx);
    }
    if len == 0 {
        return Ref::Empty;
    }
    for (pos, block) in audit.blocks.iter().enumerate() {
        if ptr >= block.data && ptr - block.data < block.capacity {
            return Ref::Arena {
                pos,
                off: ptr - block.data,
            };
        }
    }
    Ref::Unknown
}

fn push_ref(out: &mut String, pool: &[&'static str], snap: &Snap, e: &Entry, unordered: bool) {
    match classify(pool, &snap.audit, e.ptr, e.len) {
        Ref::Empty => out.push('E'),
        Ref::Static(sidx) => {
            let _ = write!(out, "S{sidx}");
        }
        Ref::Arena { pos, off } => {
            if unordered {
                out.push_str("U=");
            } else {
                let _ = write!(out, "A{pos}.{off}=");
            }
            push_hex(out, &e.bytes);
        }
        Ref::Unknown => {
            out.push('?');
            push_hex(out, &e.bytes);
        }
    }
}

/// Appends everything after `D <id> <opno> <slot> ` of a digest line
pub fn push_digest_body(out: &mut String, pool: &[&'static str], snap: &Snap, unordered: bool) {
    let _ = write!(out, "{} len={} cur={} max=", snap.kind.name(), snap.len, snap.audit.memory_usage);
    if snap.audit.max_memory_usage == usize::MAX {
        out.push_str("max");
    } else {
        let _ = write!(out, "{}", snap.audit.max_memory_usage);
    }
    let _ = write!(out, " bc={}", snap.audit.bucket_capacity);
    if let Some(key) = snap.key {
        let _ = write!(out, " key={key}");
    }
    out.push_str(" blocks=");
    for (i, b) in snap.audit.blocks.iter().enumerate() {
        if i > 0 {
            out.push(',');
        }
        let _ = write!(out, "{}:{}", b.capacity, b.used);
    }
    out.push_str(" strs=");
    for (i, e) in snap.table.iter().enumerate() {
        if i > 0 {
            out.push(',');
        }
        if snap.kind == Kind::Threaded {
            let _ = write!(out, "{}:", e.idx);
        }
        push_ref(out, pool, snap, e, unordered);
    }
}

/// Installs a panic hook that prints nothing (panics are results here, not failures)
pub fn install_silent_panic_hook() {
    std::panic::set_hook(Box::new(|_| {}));
}
