//! `seqdriver <cases-file> <results-file> <monitors-file>`
//!
//! Runs the real `lasso` crate on every case of the case file (format: `/verif/FORMAT.md`),
//! writes the canonical result file and the findings of the monitors.
//! Exit status 0 unless an I/O error occurs (2) or the arguments are wrong (2).

use lasso_verif_harness::{install_silent_panic_hook, interp};
use std::fs::File;
use std::io::BufWriter;
use std::process::ExitCode;

/// Every allocation of the process goes through the tracking allocator (monitor of C04's
/// allocation discipline, see `talloc`)
#[global_allocator]
static ALLOC: lasso_verif_harness::talloc::TrackingAlloc = lasso_verif_harness::talloc::TrackingAlloc;

fn main() -> ExitCode {
    lasso_verif_harness::talloc::trace_from_env();
    let args: Vec<String> = std::env::args().collect();
    if args.len() != 4 {
        eprintln!("usage: seqdriver <cases-file> <results-file> <monitors-file>");
        return ExitCode::from(2);
    }
    let run = || -> std::io::Result<()> {
        let cases = std::fs::read_to_string(&args[1])?;
        let mut results = BufWriter::with_capacity(1 << 20, File::create(&args[2])?);
        let mut monitors = BufWriter::new(File::create(&args[3])?);
        install_silent_panic_hook();
        interp::run_file(&cases, &mut results, &mut monitors)
    };
    match run() {
        Ok(()) => ExitCode::SUCCESS,
        Err(e) => {
            eprintln!("seqdriver: {e}");
            ExitCode::from(2)
        }
    }
}
