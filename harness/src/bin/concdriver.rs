//! `concdriver run <cases> <traces> [--skip-to <id>] [--timeout-ms <n>] [--ignore-holds]`
//! `concdriver stress <seconds> <threads> <seed> <monfile>`
//!
//! See `BRIEF_CONC.md`.  `run`: the real `lasso::ThreadedRodeo` under a controlled scheduler;
//! writes the event traces to `<traces>` and the findings of the monitors to `<traces>.mon`.
//! Exit status 0, 2 (usage / I/O error) or 3 (a case was aborted with DEADLOCK / TIMEOUT:
//! re-invoke with `--skip-to <id of the aborted case>`; the output files are then appended to).
//! `stress`: free-running threads with monitors; exit status 0 unless the arguments are wrong.

use lasso_verif_harness::conc::{self, RunOpts};
use std::process::ExitCode;

/// Every allocation of the process goes through the tracking allocator (monitor of C04's
/// allocation discipline, see `talloc`)
#[global_allocator]
static ALLOC: lasso_verif_harness::talloc::TrackingAlloc = lasso_verif_harness::talloc::TrackingAlloc;
use std::time::Duration;

fn usage() -> ExitCode {
    eprintln!("usage: concdriver run <cases> <traces> [--skip-to <id>] [--timeout-ms <n>] [--ignore-holds]");
    eprintln!("       concdriver stress <seconds> <threads> <seed> <monfile>");
    ExitCode::from(2)
}

fn main() -> ExitCode {
    lasso_verif_harness::talloc::trace_from_env();
    let args: Vec<String> = std::env::args().skip(1).collect();
    match args.first().map(String::as_str) {
        Some("run") => {
            let mut opts = RunOpts::default();
            let mut positional: Vec<&str> = Vec::new();
            let mut i = 1;
            while i < args.len() {
                match args[i].as_str() {
                    "--skip-to" if i + 1 < args.len() => {
                        opts.skip_to = Some(args[i + 1].clone());
                        i += 1;
                    }
                    "--timeout-ms" if i + 1 < args.len() => match args[i + 1].parse::<u64>() {
                        Ok(ms) => {
                            opts.timeout = Duration::from_millis(ms);
                            i += 1;
                        }
                        Err(_) => return usage(),
                    },
                    "--ignore-holds" => opts.ignore_holds = true,
                    a if a.starts_with("--") => return usage(),
                    a => positional.push(a),
                }
                i += 1;
            }
            if positional.len() != 2 {
                return usage();
            }
            match conc::run_file(positional[0], positional[1], &opts) {
                Ok(status) => ExitCode::from(status as u8),
                Err(e) => {
                    eprintln!("concdriver: {e}");
                    ExitCode::from(2)
                }
            }
        }
        Some("stress") => {
            if args.len() != 5 {
                return usage();
            }
            let (Ok(seconds), Ok(threads), Ok(seed)) = (
                args[1].parse::<u64>(),
                args[2].parse::<usize>(),
                args[3].parse::<u64>(),
            ) else {
                return usage();
            };
            match conc::stress(seconds, threads, seed, &args[4]) {
                Ok(()) => ExitCode::SUCCESS,
                Err(e) => {
                    eprintln!("concdriver: {e}");
                    ExitCode::from(2)
                }
            }
        }
        _ => usage(),
    }
}
