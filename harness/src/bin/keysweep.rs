//! keysweep <quick|thorough> <seed>: evaluate the built-in key types pointwise over large index sets and print a
//! run-length summary (property C11).  Compared by /verif/check against Keys.summary (Coq).
use lasso::{Key, LargeSpur, MicroSpur, MiniSpur, Spur};
use std::fmt::Debug;

fn splitmix(x: &mut u64) -> u64 {
    *x = x.wrapping_add(0x9E3779B97F4A7C15);
    let mut z = *x;
    z = (z ^ (z >> 30)).wrapping_mul(0xBF58476D1CE4E5B9);
    z = (z ^ (z >> 27)).wrapping_mul(0x94D049BB133111EB);
    z ^ (z >> 31)
}

/// classify one index: 1 = Some(k) with into_usize(k) == i, 0 = None, 2 = Some but wrong round trip
fn classify<K: Key>(i: usize) -> u8 {
    match K::try_from_usize(i) {
        None => 0,
        Some(k) => if k.into_usize() == i { 1 } else { 2 },
    }
}

fn points(tier: &str, seed: u64, width: u32) -> Vec<usize> {
    let mut v: Vec<usize> = Vec::new();
    let dense = if tier == "quick" { 1usize << 17 } else { 1usize << 20 };
    v.extend(0..dense);
    let around = if tier == "quick" { 1usize << 12 } else { 1usize << 16 };
    for p in [8u32, 16, 32, 63] {
        let c = 1usize << p;
        let lo = c.saturating_sub(around);
        v.extend(lo..c.saturating_add(around));
    }
    let top = usize::MAX;
    v.extend((top - around)..top);
    v.push(top);
    let mut s = seed ^ (width as u64);
    let n = if tier == "quick" { 100_000 } else { 2_000_000 };
    for _ in 0..n {
        let r = splitmix(&mut s);
        let bits = (splitmix(&mut s) % 64) as u32;
        v.push((r >> bits) as usize);
    }
    v.sort_unstable();
    v.dedup();
    v
}

fn sweep<K: Key + Debug + Ord + Default>(name: &str, tier: &str, seed: u64, width: u32, raw: fn(K) -> u128, exhaustive_upto: Option<u64>) {
    println!("KEY {} size_opt_eq={} default_ok={}", name,
        (std::mem::size_of::<Option<K>>() == std::mem::size_of::<K>()) as u8,
        (K::try_from_usize(0) == Some(K::default()) && K::default().into_usize() == 0) as u8);
    let mut runs: Vec<(usize, usize, u8)> = Vec::new();
    let mut viol = 0usize;
    let mut feed = |i: usize, prev: &mut Option<(usize, K)>| {
        let c = classify::<K>(i);
        if let Some(k) = K::try_from_usize(i) {
            if raw(k) != i as u128 + 1 && viol < 20 { println!("VIOL {} raw({}) = {} not index+1", name, i, raw(k)); viol += 1; }
            if let Some((pi, pk)) = prev {
                if !(*pk < k) || *pk == k { if viol < 20 { println!("VIOL {} keys of {} and {} not ordered like the indices", name, pi, i); viol += 1; } }
            }
            *prev = Some((i, k));
        }
        match runs.last_mut() {
            Some(r) if r.2 == c => r.1 = i,
            _ => runs.push((i, i, c)),
        }
    };
    let mut prev = None;
    if let (Some(upto), "thorough") = (exhaustive_upto, tier) {
        // every index up to `upto`, then the sampled / boundary points above it
        for i in 0..=(upto as usize) { feed(i, &mut prev); }
        for i in points(tier, seed, width).into_iter().filter(|&i| i as u64 > upto) { feed(i, &mut prev); }
    } else {
        for i in points(tier, seed, width) { feed(i, &mut prev); }
    }
    for (a, b, c) in runs {
        println!("RUN {} {} {} {}", name, a, b, match c { 0 => "none", 1 => "some", _ => "BROKEN" });
    }
}

/// "Serialising a key and reading it back yields the same key" wherever a key can stand in a document: as a map key
/// (JSON writes it as a quoted string), inside Option / Vec / tuple, and through `serde_json::Value`.
fn other_positions<K: Key + Debug + serde::Serialize + serde::de::DeserializeOwned + std::hash::Hash>(k: K) -> bool {
    use std::collections::HashMap;
    let mut m: HashMap<K, u8> = HashMap::new();
    m.insert(k, 7);
    let as_map_key = serde_json::to_string(&m).ok().and_then(|t| serde_json::from_str::<HashMap<K, u8>>(&t).ok()).map_or(false, |b| b.len() == 1 && b.get(&k) == Some(&7));
    let nested = (Some(k), vec![k, k], (k, 1u8));
    let as_nested = serde_json::to_string(&nested).ok().and_then(|t| serde_json::from_str::<(Option<K>, Vec<K>, (K, u8))>(&t).ok()).map_or(false, |b| b == nested);
    let via_value = serde_json::to_value(k).ok().and_then(|v| serde_json::from_value::<K>(v).ok()) == Some(k);
    let map_via_value = serde_json::to_value(&m).ok().and_then(|v| serde_json::from_value::<HashMap<K, u8>>(v).ok()).map_or(false, |b| b.get(&k) == Some(&7));
    as_map_key && as_nested && via_value && map_via_value
}

fn serde_check<K: Key + Debug + serde::Serialize + serde::de::DeserializeOwned + std::hash::Hash>(name: &str, width: u32, tier: &str, seed: u64) {
    let maxraw: u128 = if width == 64 { u64::MAX as u128 } else { (1u128 << width) - 1 };
    let mut raws: Vec<u128> = vec![0, 1, 2, 3, 254, 255, 256, 257, 65534, 65535, 65536, 65537, (1u128 << 32) - 2, (1u128 << 32) - 1, 1u128 << 32, (1u128 << 32) + 1,
        u64::MAX as u128 - 1, u64::MAX as u128, maxraw - 1, maxraw, maxraw + 1];
    if width <= 16 || tier == "thorough" && width <= 16 { raws.extend(0..=(maxraw + 2)); }
    let mut s = seed;
    for _ in 0..(if tier == "quick" { 2000 } else { 200_000 }) { let r = splitmix(&mut s) as u128; raws.push(r % (maxraw + 1)); raws.push(r); }
    raws.sort_unstable(); raws.dedup();
    let (mut ok, mut bad) = (0usize, Vec::new());
    let mut positions = 0usize;
    for raw in raws {
        if raw > u64::MAX as u128 { continue; }
        let text = format!("{}", raw);
        let parsed: Result<K, _> = serde_json::from_str(&text);
        let expect_ok = raw >= 1 && raw <= maxraw;
        match parsed {
            Ok(k) => {
                let back = serde_json::to_string(&k).unwrap();
                if !expect_ok || back != text || k.into_usize() as u128 != raw - 1 || K::try_from_usize(k.into_usize()) != Some(k) { bad.push(raw); }
                else if positions < 400 && !other_positions(k) { positions += 1; bad.push(raw); }
                else { positions += 1; ok += 1; }
            }
            Err(_) => if expect_ok { bad.push(raw); } else { ok += 1; },
        }
    }
    bad.truncate(10);
    println!("SERDE {} ok={} bad={:?}", name, ok, bad);
}

fn main() {
    let args: Vec<String> = std::env::args().collect();
    let tier = args.get(1).map(|s| s.as_str()).unwrap_or("quick").to_string();
    let seed: u64 = args.get(2).and_then(|s| s.parse().ok()).unwrap_or(1);
    let t = tier.clone();
    let hs = vec![
        std::thread::spawn({ let t = t.clone(); move || { sweep::<MicroSpur>("micro", &t, seed, 8, |k| k.into_inner().get() as u128, Some((1u64 << 32) + (1 << 20))); serde_check::<MicroSpur>("micro", 8, &t, seed); } }),
        std::thread::spawn({ let t = t.clone(); move || { sweep::<MiniSpur>("mini", &t, seed, 16, |k| k.into_inner().get() as u128, Some((1u64 << 32) + (1 << 20))); serde_check::<MiniSpur>("mini", 16, &t, seed); } }),
        std::thread::spawn({ let t = t.clone(); move || { sweep::<Spur>("spur", &t, seed, 32, |k| k.into_inner().get() as u128, Some((1u64 << 32) + (1 << 20))); serde_check::<Spur>("spur", 32, &t, seed); } }),
        std::thread::spawn({ let t = t.clone(); move || { sweep::<LargeSpur>("large", &t, seed, 64, |k| k.into_inner().get() as u128, None); serde_check::<LargeSpur>("large", 64, &t, seed); } }),
    ];
    // threads print whole lines; order between key types is irrelevant to the checker
    for h in hs { h.join().unwrap(); }
}
