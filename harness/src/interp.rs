//! The sequential case interpreter: runs the cases of a case file against the real crate
//! and prints the result file of `/verif/FORMAT.md`.

use crate::monitors::{self, MonSink, Shadow};
use crate::talloc;
use crate::{
    build_pool, family_from_name, hex, make_snap, push_digest_body, push_hex, set_current_family,
    set_dyn_cap, unhex_str, DynKey, Kind, Snap, VHasher,
};
use lasso::verif::ArenaAudit;
use lasso::{
    Capacity, Interner, IntoReader, IntoResolver, Key, LargeSpur, LassoErrorKind, MemoryLimits,
    MicroSpur, MiniSpur, Reader, Resolver, Rodeo, RodeoReader, RodeoResolver, Spur, ThreadedRodeo,
};
use serde::{de::DeserializeOwned, Serialize};
use std::fmt::{Debug, Write as _};
use std::hash::Hash;
use std::io::{self, Write};
use std::num::NonZeroUsize;
use std::panic::{catch_unwind, AssertUnwindSafe};

/// Everything the interpreter needs of a key type
pub trait KeyT:
    Key + Hash + Eq + Debug + Serialize + DeserializeOwned + Send + Sync + 'static
{
}
impl<T> KeyT for T where
    T: Key + Hash + Eq + Debug + Serialize + DeserializeOwned + Send + Sync + 'static
{
}

pub type RodeoT<K> = Rodeo<K, VHasher>;
pub type ThreadedT<K> = ThreadedRodeo<K, VHasher>;
pub type ReaderT<K> = RodeoReader<K, VHasher>;
pub type ResolverT<K> = RodeoResolver<K>;

/// Runs `f`, turning a panic into `None`
pub fn guard<R>(f: impl FnOnce() -> R) -> Option<R> {
    catch_unwind(AssertUnwindSafe(f)).ok()
}

/// Like `guard`, but a panic is told apart by its message: `Err(true)` when it reports a failed allocation
/// (`LassoErrorKind::FailedAllocation`, the documented panic of the infallible constructors), `Err(false)` otherwise.
pub fn guard_ctor<R>(f: impl FnOnce() -> R) -> Result<R, bool> {
    catch_unwind(AssertUnwindSafe(f)).map_err(|p| {
        let msg = p
            .downcast_ref::<String>()
            .map(String::as_str)
            .or_else(|| p.downcast_ref::<&'static str>().copied())
            .unwrap_or("");
        msg.contains("FailedAllocation")
    })
}

#[derive(Clone, Copy, PartialEq, Eq, Debug)]
pub enum Route {
    Inh,
    Trait,
    MutRef,
    Boxed,
    Dyn,
}

impl Route {
    pub fn from_name(name: &str) -> Option<Self> {
        Some(match name {
            "inh" => Route::Inh,
            "trait" => Route::Trait,
            "mutref" => Route::MutRef,
            "box" => Route::Boxed,
            "dyn" => Route::Dyn,
            _ => return None,
        })
    }
}

// ------------------------------------------------------------------------------------------
// iterator plans
// ------------------------------------------------------------------------------------------

#[derive(Clone, Copy, Debug, PartialEq, Eq)]
pub enum PlanOp {
    Next,
    NextBack,
    NthBack(usize),
    /// `Iterator::nth`
    Nth(usize),
    Len,
}

pub fn parse_plan(text: &str) -> Option<Vec<PlanOp>> {
    let mut plan = Vec::new();
    if text == "-" {
        return Some(plan);
    }
    let bytes = text.as_bytes();
    let mut i = 0;
    while i < bytes.len() {
        match bytes[i] {
            b'n' => plan.push(PlanOp::Next),
            b'b' => plan.push(PlanOp::NextBack),
            b'l' => plan.push(PlanOp::Len),
            b's' => {
                let start = i + 1;
                let mut end = start;
                while end < bytes.len() && bytes[end].is_ascii_digit() {
                    end += 1;
                }
                if end == start {
                    return None;
                }
                plan.push(PlanOp::Nth(text[start..end].parse().ok()?));
                i = end - 1;
            }
            b't' => {
                let start = i + 1;
                let mut end = start;
                while end < bytes.len() && bytes[end].is_ascii_digit() {
                    end += 1;
                }
                if end == start {
                    return None;
                }
                plan.push(PlanOp::NthBack(text[start..end].parse().ok()?));
                i = end - 1;
            }
            _ => return None,
        }
        i += 1;
    }
    Some(plan)
}

enum Step<T> {
    Item(Option<T>),
    Len(usize),
}

/// Drives a double-ended exact-size iterator by a plan, every call under `catch_unwind`
fn drive<I, T>(mut it: I, plan: &[PlanOp], fmt: impl Fn(&mut String, T)) -> String
where
    I: DoubleEndedIterator<Item = T> + ExactSizeIterator,
{
    let mut out = String::from("I:");
    for (n, p) in plan.iter().enumerate() {
        if n > 0 {
            out.push(',');
        }
        let step = guard(|| match p {
            PlanOp::Next => Step::Item(it.next()),
            PlanOp::NextBack => Step::Item(it.next_back()),
            PlanOp::NthBack(n) => Step::Item(it.nth_back(*n)),
            PlanOp::Nth(n) => Step::Item(it.nth(*n)),
            PlanOp::Len => Step::Len(it.len()),
        });
        match step {
            None => {
                out.push('P');
                break;
            }
            Some(Step::Item(Some(t))) => fmt(&mut out, t),
            Some(Step::Item(None)) => out.push('~'),
            Some(Step::Len(n)) => {
                let _ = write!(out, "L{n}");
            }
        }
    }
    out
}

fn fmt_pair<K: Key>(out: &mut String, (k, s): (K, &str)) {
    let _ = write!(out, "{}=", k.into_usize());
    push_hex(out, s.as_bytes());
}

fn fmt_str(out: &mut String, s: &str) {
    push_hex(out, s.as_bytes());
}

/// What `iter()` of a live object yields, for the monitors
pub struct IterReport {
    /// (key index, pointer, length)
    pub pairs: Vec<(usize, usize, usize)>,
    pub size_hint: (usize, Option<usize>),
    pub exact_len: Option<usize>,
    pub strings_len: Option<usize>,
}

/// What the iterator handed to `Extend` / `FromIterator` yields, and when (FORMAT.md, `EX` / `FI`)
#[derive(Clone, Copy, Debug, PartialEq, Eq)]
pub enum Shape {
    /// `String`s that all exist before the call
    Vec,
    /// `String`s built when pulled; the callee drops each one before the next is built
    Lazy,
    /// like `Lazy`, `Box<str>` items
    Boxed,
    /// `&str` borrowed from the live list
    Refs,
}

impl Shape {
    /// The optional last token of `EX` / `FI`
    pub fn from_tok(tok: Option<&&str>) -> Option<Self> {
        Some(match tok {
            None | Some(&"vec") => Shape::Vec,
            Some(&"lazy") => Shape::Lazy,
            Some(&"boxed") => Shape::Boxed,
            Some(&"refs") => Shape::Refs,
            _ => return None,
        })
    }
}

/// Any iterator, reporting a chosen size_hint
struct HintIter<I> {
    items: I,
    hint: (usize, Option<usize>),
}

impl<I: Iterator> Iterator for HintIter<I> {
    type Item = I::Item;
    fn next(&mut self) -> Option<I::Item> {
        self.items.next()
    }
    fn size_hint(&self) -> (usize, Option<usize>) {
        self.hint
    }
}

/// `$consume(iterator)` with the iterator of the given shape over `$list: Vec<String>`, wrapped in the size hint
macro_rules! with_shaped_iter {
    ($list:expr, $hint:expr, $shape:expr, $consume:expr) => {{
        let list: Vec<String> = $list;
        let hint = $hint;
        match $shape {
            Shape::Vec => ($consume)(HintIter { items: list.into_iter(), hint }),
            Shape::Lazy => ($consume)(HintIter { items: list.iter().map(|s| s.to_string()), hint }),
            Shape::Boxed => ($consume)(HintIter { items: list.iter().map(|s| s.to_string().into_boxed_str()), hint }),
            Shape::Refs => ($consume)(HintIter { items: list.iter().map(|s| s.as_str()), hint }),
        }
    }};
}

// ------------------------------------------------------------------------------------------
// the four containers behind one interface (inherent methods + what only some of them have)
// ------------------------------------------------------------------------------------------

pub trait Cont<K: KeyT>: Resolver<K> + Serialize + Sized + 'static {
    const KIND: Kind;
    fn i_resolve<'a>(&'a self, k: &K) -> &'a str;
    fn i_try_resolve<'a>(&'a self, k: &K) -> Option<&'a str>;
    /// # Safety
    /// the key must be valid for the container
    unsafe fn i_resolve_unchecked<'a>(&'a self, k: &K) -> &'a str;
    fn i_contains_key(&self, k: &K) -> bool;
    fn i_len(&self) -> usize;
    fn i_is_empty(&self) -> bool;
    fn i_index<'a>(&'a self, k: K) -> &'a str;
    fn audit(&self) -> ArenaAudit;
    fn key_counter(&self) -> Option<usize>;
    /// (key index, string), in key order
    fn table<'a>(&'a self) -> Vec<(usize, &'a str)>;
    fn run_iter(&self, plan: &[PlanOp]) -> String;
    fn run_strings(&self, plan: &[PlanOp]) -> String;
    fn iter_report(&self, limit: usize) -> IterReport;
}

macro_rules! impl_list_cont {
    ($ty:ident, $kind:expr) => {
        impl<K: KeyT> Cont<K> for $ty<K> {
            const KIND: Kind = $kind;
            fn i_resolve<'a>(&'a self, k: &K) -> &'a str {
                self.resolve(k)
            }
            fn i_try_resolve<'a>(&'a self, k: &K) -> Option<&'a str> {
                self.try_resolve(k)
            }
            unsafe fn i_resolve_unchecked<'a>(&'a self, k: &K) -> &'a str {
                unsafe { self.resolve_unchecked(k) }
            }
            fn i_contains_key(&self, k: &K) -> bool {
                self.contains_key(k)
            }
            fn i_len(&self) -> usize {
                self.len()
            }
            fn i_is_empty(&self) -> bool {
                self.is_empty()
            }
            fn i_index<'a>(&'a self, k: K) -> &'a str {
                &self[k]
            }
            fn audit(&self) -> ArenaAudit {
                self.verif_audit()
            }
            fn key_counter(&self) -> Option<usize> {
                None
            }
            fn table<'a>(&'a self) -> Vec<(usize, &'a str)> {
                self.strings().enumerate().collect()
            }
            fn run_iter(&self, plan: &[PlanOp]) -> String {
                match guard(|| self.iter()) {
                    Some(it) => drive(it, plan, fmt_pair::<K>),
                    None => "I:P".to_string(),
                }
            }
            fn run_strings(&self, plan: &[PlanOp]) -> String {
                match guard(|| self.strings()) {
                    Some(it) => drive(it, plan, fmt_str),
                    None => "I:P".to_string(),
                }
            }
            fn iter_report(&self, limit: usize) -> IterReport {
                let it = self.iter();
                let size_hint = it.size_hint();
                let exact_len = Some(it.len());
                let pairs = it
                    .take(limit)
                    .map(|(k, s)| (k.into_usize(), s.as_ptr() as usize, s.len()))
                    .collect();
                IterReport {
                    pairs,
                    size_hint,
                    exact_len,
                    strings_len: Some(self.strings().len()),
                }
            }
        }
    };
}

impl_list_cont!(RodeoT, Kind::Rodeo);
impl_list_cont!(ReaderT, Kind::Reader);
impl_list_cont!(ResolverT, Kind::Resolver);

impl<K: KeyT> Cont<K> for ThreadedT<K> {
    const KIND: Kind = Kind::Threaded;
    fn i_resolve<'a>(&'a self, k: &K) -> &'a str {
        self.resolve(k)
    }
    fn i_try_resolve<'a>(&'a self, k: &K) -> Option<&'a str> {
        self.try_resolve(k)
    }
    unsafe fn i_resolve_unchecked<'a>(&'a self, k: &K) -> &'a str {
        // ThreadedRodeo has no inherent resolve_unchecked: the trait method on the value
        unsafe { Resolver::resolve_unchecked(self, k) }
    }
    fn i_contains_key(&self, k: &K) -> bool {
        self.contains_key(k)
    }
    fn i_len(&self) -> usize {
        self.len()
    }
    fn i_is_empty(&self) -> bool {
        self.is_empty()
    }
    fn i_index<'a>(&'a self, k: K) -> &'a str {
        &self[k]
    }
    fn audit(&self) -> ArenaAudit {
        self.verif_audit()
    }
    fn key_counter(&self) -> Option<usize> {
        Some(self.verif_key_counter())
    }
    fn table<'a>(&'a self) -> Vec<(usize, &'a str)> {
        let mut t: Vec<(usize, &'a str)> = self.iter().map(|(k, s)| (k.into_usize(), s)).collect();
        t.sort_by_key(|e| e.0);
        t
    }
    fn run_iter(&self, _plan: &[PlanOp]) -> String {
        let items = guard(|| {
            let mut v: Vec<(usize, String)> = self
                .iter()
                .map(|(k, s)| (k.into_usize(), hex(s.as_bytes())))
                .collect();
            v.sort();
            v
        });
        match items {
            None => "I:P".to_string(),
            Some(v) => {
                let mut out = String::from("I:");
                for (n, (idx, h)) in v.iter().enumerate() {
                    if n > 0 {
                        out.push(',');
                    }
                    let _ = write!(out, "{idx}={h}");
                }
                out
            }
        }
    }
    fn run_strings(&self, _plan: &[PlanOp]) -> String {
        let items = guard(|| {
            let mut v: Vec<String> = self.strings().map(|s| hex(s.as_bytes())).collect();
            v.sort();
            v
        });
        match items {
            None => "I:P".to_string(),
            Some(v) => format!("I:{}", v.join(",")),
        }
    }
    fn iter_report(&self, limit: usize) -> IterReport {
        let it = self.iter();
        let size_hint = it.size_hint();
        let mut pairs: Vec<(usize, usize, usize)> = it
            .take(limit)
            .map(|(k, s)| (k.into_usize(), s.as_ptr() as usize, s.len()))
            .collect();
        pairs.sort();
        IterReport {
            pairs,
            size_hint,
            exact_len: None,
            strings_len: Some(self.strings().count()),
        }
    }
}

pub fn snap_of<K: KeyT, C: Cont<K>>(c: &C) -> Snap {
    make_snap(C::KIND, c.i_len(), c.audit(), c.key_counter(), c.table())
}

/// Containers with `get` / `contains` / `into_resolver`
pub trait ReadC<K: KeyT>: Cont<K> + Reader<K> + IntoResolver<K, Resolver = ResolverT<K>> {
    fn i_get(&self, s: &str) -> Option<K>;
    fn i_contains(&self, s: &str) -> bool;
    fn i_into_resolver(self) -> ResolverT<K>;
}

macro_rules! impl_readc {
    ($ty:ident) => {
        impl<K: KeyT> ReadC<K> for $ty<K> {
            fn i_get(&self, s: &str) -> Option<K> {
                self.get(s)
            }
            fn i_contains(&self, s: &str) -> bool {
                self.contains(s)
            }
            fn i_into_resolver(self) -> ResolverT<K> {
                self.into_resolver()
            }
        }
    };
}
impl_readc!(RodeoT);
impl_readc!(ThreadedT);
impl_readc!(ReaderT);

pub enum ICall<'a> {
    Try(&'a str),
    TryStatic(&'static str),
    Get(&'a str),
    GetStatic(&'static str),
}

pub enum IOut<K> {
    Key(K),
    Err(LassoErrorKind),
}

fn int_trait<K: KeyT, X: Interner<K> + ?Sized>(x: &mut X, c: &ICall<'_>) -> IOut<K> {
    match c {
        ICall::Try(s) => match Interner::try_get_or_intern(x, s) {
            Ok(k) => IOut::Key(k),
            Err(e) => IOut::Err(e.kind()),
        },
        ICall::TryStatic(s) => match Interner::try_get_or_intern_static(x, s) {
            Ok(k) => IOut::Key(k),
            Err(e) => IOut::Err(e.kind()),
        },
        ICall::Get(s) => IOut::Key(Interner::get_or_intern(x, s)),
        ICall::GetStatic(s) => IOut::Key(Interner::get_or_intern_static(x, s)),
    }
}

/// The two interners
pub trait IntC<K: KeyT>: ReadC<K> + Interner<K> + IntoReader<K, Reader = ReaderT<K>> {
    fn i_intern(&mut self, c: &ICall<'_>) -> IOut<K>;
    /// the `mutref` route: `&mut Rodeo` resp. `&ThreadedRodeo` as the `Interner`
    fn mutref_intern(&mut self, c: &ICall<'_>) -> IOut<K>;
    fn i_set_limit(&mut self, limit: usize);
    fn i_current(&self) -> usize;
    fn i_max(&self) -> usize;
    fn i_extend(&mut self, items: Vec<String>, hint: (usize, Option<usize>), shape: Shape);
    fn i_into_reader(self) -> ReaderT<K>;
}

impl<K: KeyT> IntC<K> for RodeoT<K> {
    fn i_intern(&mut self, c: &ICall<'_>) -> IOut<K> {
        match c {
            ICall::Try(s) => match self.try_get_or_intern(s) {
                Ok(k) => IOut::Key(k),
                Err(e) => IOut::Err(e.kind()),
            },
            ICall::TryStatic(s) => match self.try_get_or_intern_static(s) {
                Ok(k) => IOut::Key(k),
                Err(e) => IOut::Err(e.kind()),
            },
            ICall::Get(s) => IOut::Key(self.get_or_intern(s)),
            ICall::GetStatic(s) => IOut::Key(self.get_or_intern_static(s)),
        }
    }
    fn mutref_intern(&mut self, c: &ICall<'_>) -> IOut<K> {
        let mut r: &mut Self = self;
        int_trait::<K, &mut Self>(&mut r, c)
    }
    fn i_set_limit(&mut self, limit: usize) {
        self.set_memory_limits(MemoryLimits::new(limit));
    }
    fn i_current(&self) -> usize {
        self.current_memory_usage()
    }
    fn i_max(&self) -> usize {
        self.max_memory_usage()
    }
    fn i_extend(&mut self, items: Vec<String>, hint: (usize, Option<usize>), shape: Shape) {
        // the iterator reports the size hint the case asks for (exact by default) and yields items of the asked shape
        with_shaped_iter!(items, hint, shape, |it| Extend::extend(self, it));
    }
    fn i_into_reader(self) -> ReaderT<K> {
        self.into_reader()
    }
}

impl<K: KeyT> IntC<K> for ThreadedT<K> {
    fn i_intern(&mut self, c: &ICall<'_>) -> IOut<K> {
        match c {
            ICall::Try(s) => match self.try_get_or_intern(s) {
                Ok(k) => IOut::Key(k),
                Err(e) => IOut::Err(e.kind()),
            },
            ICall::TryStatic(s) => match self.try_get_or_intern_static(s) {
                Ok(k) => IOut::Key(k),
                Err(e) => IOut::Err(e.kind()),
            },
            ICall::Get(s) => IOut::Key(self.get_or_intern(s)),
            ICall::GetStatic(s) => IOut::Key(self.get_or_intern_static(s)),
        }
    }
    fn mutref_intern(&mut self, c: &ICall<'_>) -> IOut<K> {
        let mut r: &Self = self;
        int_trait::<K, &Self>(&mut r, c)
    }
    fn i_set_limit(&mut self, limit: usize) {
        self.set_memory_limits(MemoryLimits::new(limit));
    }
    fn i_current(&self) -> usize {
        self.current_memory_usage()
    }
    fn i_max(&self) -> usize {
        self.max_memory_usage()
    }
    fn i_extend(&mut self, items: Vec<String>, hint: (usize, Option<usize>), shape: Shape) {
        // the iterator reports the size hint the case asks for (exact by default) and yields items of the asked shape
        with_shaped_iter!(items, hint, shape, |it| Extend::extend(self, it));
    }
    fn i_into_reader(self) -> ReaderT<K> {
        self.into_reader()
    }
}

// ------------------------------------------------------------------------------------------
// routed calls
// ------------------------------------------------------------------------------------------

pub enum RCall<K> {
    Resolve(K),
    TryResolve(K),
    Unchecked(K),
    ContainsKey(K),
    Len,
    IsEmpty,
}

fn out_str(s: &str) -> String {
    let mut out = String::with_capacity(2 + 2 * s.len());
    out.push_str("S:");
    push_hex(&mut out, s.as_bytes());
    out
}

fn tf(b: bool) -> String {
    if b { "T" } else { "F" }.to_string()
}

fn res_trait<K: KeyT, X: Resolver<K> + ?Sized>(x: &X, c: &RCall<K>) -> String {
    match c {
        RCall::Resolve(k) => out_str(Resolver::resolve(x, k)),
        RCall::TryResolve(k) => match Resolver::try_resolve(x, k) {
            Some(s) => out_str(s),
            None => "N".to_string(),
        },
        RCall::Unchecked(k) => out_str(unsafe { Resolver::resolve_unchecked(x, k) }),
        RCall::ContainsKey(k) => tf(Resolver::contains_key(x, k)),
        RCall::Len => format!("#{}", Resolver::len(x)),
        RCall::IsEmpty => tf(Resolver::is_empty(x)),
    }
}

fn res_inh<K: KeyT, C: Cont<K>>(x: &C, c: &RCall<K>) -> String {
    match c {
        RCall::Resolve(k) => out_str(x.i_resolve(k)),
        RCall::TryResolve(k) => match x.i_try_resolve(k) {
            Some(s) => out_str(s),
            None => "N".to_string(),
        },
        RCall::Unchecked(k) => out_str(unsafe { x.i_resolve_unchecked(k) }),
        RCall::ContainsKey(k) => tf(x.i_contains_key(k)),
        RCall::Len => format!("#{}", x.i_len()),
        RCall::IsEmpty => tf(x.i_is_empty()),
    }
}

fn p_or(r: Option<String>) -> String {
    r.unwrap_or_else(|| "P".to_string())
}

fn resolver_op<K: KeyT, C: Cont<K>>(route: Route, b: Box<C>, c: &RCall<K>) -> (Box<C>, String) {
    match route {
        Route::Inh => {
            let r = guard(|| res_inh::<K, C>(&b, c));
            (b, p_or(r))
        }
        Route::Trait => {
            let r = guard(|| res_trait::<K, C>(&*b, c));
            (b, p_or(r))
        }
        Route::MutRef => {
            let r = {
                let shared: &C = &b;
                guard(|| res_trait::<K, &C>(&shared, c))
            };
            (b, p_or(r))
        }
        Route::Boxed => {
            let r = guard(|| res_trait::<K, Box<C>>(&b, c));
            (b, p_or(r))
        }
        Route::Dyn => {
            let d: Box<dyn Resolver<K>> = b;
            let r = guard(|| res_trait::<K, Box<dyn Resolver<K>>>(&d, c));
            // Safety: `d` was made from a `Box<C>` just above
            let b = unsafe { Box::from_raw(Box::into_raw(d) as *mut C) };
            (b, p_or(r))
        }
    }
}

pub enum GCall<'a> {
    Get(&'a str),
    Contains(&'a str),
}

fn key_or_n<K: Key>(k: Option<K>) -> String {
    match k {
        Some(k) => format!("K{}", k.into_usize()),
        None => "N".to_string(),
    }
}

fn read_trait<K: KeyT, X: Reader<K> + ?Sized>(x: &X, c: &GCall<'_>) -> String {
    match c {
        GCall::Get(s) => key_or_n(Reader::get(x, s)),
        GCall::Contains(s) => tf(Reader::contains(x, s)),
    }
}

fn read_inh<K: KeyT, C: ReadC<K>>(x: &C, c: &GCall<'_>) -> String {
    match c {
        GCall::Get(s) => key_or_n(x.i_get(s)),
        GCall::Contains(s) => tf(x.i_contains(s)),
    }
}

fn reader_op<K: KeyT, C: ReadC<K>>(route: Route, b: Box<C>, c: &GCall<'_>) -> (Box<C>, String) {
    match route {
        Route::Inh => {
            let r = guard(|| read_inh::<K, C>(&b, c));
            (b, p_or(r))
        }
        Route::Trait => {
            let r = guard(|| read_trait::<K, C>(&*b, c));
            (b, p_or(r))
        }
        Route::MutRef => {
            let r = {
                let shared: &C = &b;
                guard(|| read_trait::<K, &C>(&shared, c))
            };
            (b, p_or(r))
        }
        Route::Boxed => {
            let r = guard(|| read_trait::<K, Box<C>>(&b, c));
            (b, p_or(r))
        }
        Route::Dyn => {
            let d: Box<dyn Reader<K>> = b;
            let r = guard(|| read_trait::<K, Box<dyn Reader<K>>>(&d, c));
            // Safety: `d` was made from a `Box<C>` just above
            let b = unsafe { Box::from_raw(Box::into_raw(d) as *mut C) };
            (b, p_or(r))
        }
    }
}

fn intern_op<K: KeyT, C: IntC<K>>(
    route: Route,
    mut b: Box<C>,
    c: &ICall<'_>,
) -> (Box<C>, Option<IOut<K>>) {
    match route {
        Route::Inh => {
            let r = guard(|| b.i_intern(c));
            (b, r)
        }
        Route::Trait => {
            let r = guard(|| int_trait::<K, C>(&mut *b, c));
            (b, r)
        }
        Route::MutRef => {
            let r = guard(|| b.mutref_intern(c));
            (b, r)
        }
        Route::Boxed => {
            let r = guard(|| int_trait::<K, Box<C>>(&mut b, c));
            (b, r)
        }
        Route::Dyn => {
            let mut d: Box<dyn Interner<K>> = b;
            let r = guard(|| int_trait::<K, Box<dyn Interner<K>>>(&mut d, c));
            // Safety: `d` was made from a `Box<C>` just above
            let b = unsafe { Box::from_raw(Box::into_raw(d) as *mut C) };
            (b, r)
        }
    }
}

fn into_reader_op<K: KeyT, C: IntC<K>>(route: Route, b: Box<C>) -> Option<ReaderT<K>> {
    guard(move || match route {
        Route::Inh => (*b).i_into_reader(),
        // `&mut T` has no IntoReader impl: the mutref route converts like the trait route
        Route::Trait | Route::MutRef => IntoReader::into_reader(*b),
        Route::Boxed => <Box<C> as IntoReader<K>>::into_reader(b),
        Route::Dyn => {
            let d: Box<dyn IntoReader<K, Reader = ReaderT<K>>> = b;
            IntoReader::into_reader(d)
        }
    })
}

fn into_resolver_op<K: KeyT, C: ReadC<K>>(route: Route, b: Box<C>) -> Option<ResolverT<K>> {
    guard(move || match route {
        Route::Inh => (*b).i_into_resolver(),
        Route::Trait | Route::MutRef => IntoResolver::into_resolver(*b),
        Route::Boxed => <Box<C> as IntoResolver<K>>::into_resolver(b),
        Route::Dyn => {
            let d: Box<dyn IntoResolver<K, Resolver = ResolverT<K>>> = b;
            IntoResolver::into_resolver(d)
        }
    })
}

// ------------------------------------------------------------------------------------------
// slots, events
// ------------------------------------------------------------------------------------------

pub enum Obj<K: KeyT> {
    Rodeo(Box<RodeoT<K>>),
    Threaded(Box<ThreadedT<K>>),
    Reader(Box<ReaderT<K>>),
    Resolver(Box<ResolverT<K>>),
    Dead,
}

/// Runs `$body` with `$b` bound to the boxed container, whichever of the listed kinds it is
macro_rules! on_obj {
    ($obj:expr, [$($variant:ident),+], $b:ident => $body:expr, else => $other:expr) => {
        match $obj {
            $(Obj::$variant($b) => $body,)+
            #[allow(unreachable_patterns)]
            _ => $other,
        }
    };
}

impl<K: KeyT> Obj<K> {
    pub fn kind(&self) -> Option<Kind> {
        Some(match self {
            Obj::Rodeo(_) => Kind::Rodeo,
            Obj::Threaded(_) => Kind::Threaded,
            Obj::Reader(_) => Kind::Reader,
            Obj::Resolver(_) => Kind::Resolver,
            Obj::Dead => return None,
        })
    }

    pub fn is_dead(&self) -> bool {
        matches!(self, Obj::Dead)
    }

    pub fn snap(&self) -> SnapR {
        let kind = match self.kind() {
            Some(kind) => kind,
            None => return SnapR::Dead,
        };
        let snap = guard(|| {
            on_obj!(self, [Rodeo, Threaded, Reader, Resolver], b => snap_of::<K, _>(&**b), else => unreachable!())
        });
        match snap {
            Some(snap) => SnapR::Live(snap),
            None => SnapR::Panicked(kind),
        }
    }

    // ---- inherent calls for the monitors ----

    pub fn m_try_resolve(&self, k: &K) -> Option<&str> {
        on_obj!(self, [Rodeo, Threaded, Reader, Resolver], b => b.i_try_resolve(k), else => None)
    }
    pub fn m_resolve(&self, k: &K) -> &str {
        on_obj!(self, [Rodeo, Threaded, Reader, Resolver], b => b.i_resolve(k), else => panic!("dead"))
    }
    pub fn m_index(&self, k: K) -> &str {
        on_obj!(self, [Rodeo, Threaded, Reader, Resolver], b => b.i_index(k), else => panic!("dead"))
    }
    /// # Safety
    /// the key must be valid for the container
    pub unsafe fn m_resolve_unchecked(&self, k: &K) -> &str {
        on_obj!(self, [Rodeo, Threaded, Reader, Resolver], b => unsafe { b.i_resolve_unchecked(k) }, else => panic!("dead"))
    }
    pub fn m_contains_key(&self, k: &K) -> bool {
        on_obj!(self, [Rodeo, Threaded, Reader, Resolver], b => b.i_contains_key(k), else => false)
    }
    pub fn m_len(&self) -> usize {
        on_obj!(self, [Rodeo, Threaded, Reader, Resolver], b => b.i_len(), else => 0)
    }
    pub fn m_is_empty(&self) -> bool {
        on_obj!(self, [Rodeo, Threaded, Reader, Resolver], b => b.i_is_empty(), else => true)
    }
    /// `None` when the kind has no `get`
    pub fn m_get(&self, s: &str) -> Option<Option<K>> {
        on_obj!(self, [Rodeo, Threaded, Reader], b => Some(b.i_get(s)), else => None)
    }
    pub fn m_contains(&self, s: &str) -> Option<bool> {
        on_obj!(self, [Rodeo, Threaded, Reader], b => Some(b.i_contains(s)), else => None)
    }
    pub fn m_current(&self) -> Option<usize> {
        on_obj!(self, [Rodeo, Threaded], b => Some(b.i_current()), else => None)
    }
    pub fn m_max(&self) -> Option<usize> {
        on_obj!(self, [Rodeo, Threaded], b => Some(b.i_max()), else => None)
    }
    pub fn m_iter_report(&self, limit: usize) -> Option<IterReport> {
        on_obj!(self, [Rodeo, Threaded, Reader, Resolver], b => Some(b.iter_report(limit)), else => None)
    }
}

/// A snapshot of a slot
#[derive(Clone, Debug)]
pub enum SnapR {
    Live(Snap),
    Dead,
    Panicked(Kind),
}

impl SnapR {
    pub fn live(&self) -> Option<&Snap> {
        match self {
            SnapR::Live(s) => Some(s),
            _ => None,
        }
    }
}

pub struct Slot<K: KeyT> {
    pub obj: Obj<K>,
    pub unordered: bool,
    pub shadow: Shadow,
    /// the snapshot taken after the last mutating op
    pub last: SnapR,
}

#[derive(Clone, Debug)]
pub enum IHow {
    /// I, IP: a private copy of the string
    Copy,
    /// IA: the copying entry point fed pool[sidx] itself
    CopyOfPool(usize),
    /// IS, ISP
    Static(usize),
}

#[derive(Clone, Debug)]
pub enum IResult {
    Key(usize),
    Err(LassoErrorKind),
    Panic,
}

#[derive(Clone, Debug)]
pub enum DocIn {
    List(Vec<String>),
    /// (string, raw number text) in document order
    Map(Vec<(String, String)>),
}

#[derive(Clone, Debug)]
pub enum DocOut {
    List(Vec<String>),
    Map(Vec<(String, u64)>),
}

/// What an op did, for the monitors
#[derive(Clone, Debug)]
pub enum Ev {
    Nothing,
    Read { slots: Vec<usize> },
    Created { slot: usize },
    Intern { slot: usize, s: String, how: IHow, res: IResult },
    Clear { slot: usize, ok: bool, before: Vec<(usize, String)> },
    Limit { slot: usize },
    Clone { src: usize, new: Option<usize> },
    CloneFrom { dst: usize, src: usize, ok: bool },
    Drop { slot: usize },
    IntoReader { slot: usize, pre_gets: Vec<(String, Option<usize>)>, ok: bool },
    IntoResolver { slot: usize, ok: bool },
    Ser { slot: usize, doc: Option<DocOut> },
    De { new: Option<usize>, kind: Kind, doc: DocIn },
    Eq { i: usize, j: usize, eq: Option<bool>, ne: Option<bool>, rev: Option<Option<bool>> },
    FromIter { new: Option<usize>, list: Vec<String> },
    Extend { slot: usize, list: Vec<String>, ok: bool },
    /// DEI: `res` = Some(true) accepted, Some(false) refused, None panicked; `before` = the slot right before the
    /// call; `reference` = what `DE <kind> <doc>` creates from the same document (None: it refuses or panics)
    DeInPlace { slot: usize, kind: Kind, doc: DocIn, res: Option<bool>, before: SnapR, reference: Option<Snap> },
    /// PEQ that hung: both slots were leaked
    Leaked { slots: Vec<usize> },
}

pub struct World<K: KeyT> {
    pub id: String,
    pub slots: Vec<Slot<K>>,
    pub pool: Vec<&'static str>,
    pub route: Route,
    pub keycap: u64,
}

const MUTATING: &[&str] = &[
    "NR", "NT", "I", "IS", "IA", "IP", "ISP", "CLR", "LIM", "CL", "CF", "DROP", "RD", "RS", "DE",
    "FI", "EX", "DEI",
];

fn err_name(kind: LassoErrorKind) -> &'static str {
    match kind {
        LassoErrorKind::MemoryLimitReached => "E:mem",
        LassoErrorKind::KeySpaceExhaustion => "E:key",
        LassoErrorKind::FailedAllocation => "E:alloc",
    }
}

fn parse_lim(tok: &str) -> Option<usize> {
    if tok == "max" {
        Some(usize::MAX)
    } else {
        tok.parse::<usize>().ok()
    }
}

fn parse_hexlist(tok: &str) -> Option<Vec<String>> {
    if tok == "." {
        return Some(Vec::new());
    }
    tok.split(',').map(unhex_str).collect()
}

fn x() -> (String, Ev) {
    ("X".to_string(), Ev::Nothing)
}

impl<K: KeyT> World<K> {
    fn slot_of(&self, tok: Option<&&str>) -> Option<usize> {
        let i = tok?.parse::<usize>().ok()?;
        if i < self.slots.len() && !self.slots[i].obj.is_dead() {
            Some(i)
        } else {
            None
        }
    }

    fn take(&mut self, i: usize) -> Obj<K> {
        std::mem::replace(&mut self.slots[i].obj, Obj::Dead)
    }

    fn new_slot(&mut self, obj: Obj<K>, unordered: bool) -> usize {
        self.slots.push(Slot {
            obj,
            unordered,
            shadow: Shadow::default(),
            last: SnapR::Dead,
        });
        self.slots.len() - 1
    }

    fn static_of(&self, tok: Option<&&str>) -> Option<(usize, &'static str)> {
        let sidx = tok?.parse::<usize>().ok()?;
        self.pool.get(sidx).map(|s| (sidx, *s))
    }

    /// Executes one op; returns what to print and what happened
    pub fn exec(&mut self, toks: &[&str]) -> (String, Ev) {
        let route = self.route;
        let code = match toks.first() {
            Some(code) => *code,
            None => return x(),
        };
        match code {
            "NR" | "NT" => {
                if toks.len() != 5 {
                    return x();
                }
                let cap = toks[1].parse::<usize>().ok().and_then(NonZeroUsize::new);
                let lim = parse_lim(toks[2]);
                let scap = toks[3].parse::<usize>().ok();
                let seed = toks[4].parse::<u64>().ok();
                let (cap, lim, scap, seed) = match (cap, lim, scap, seed) {
                    (Some(a), Some(b), Some(c), Some(d)) => (a, b, c, d),
                    _ => return x(),
                };
                let hasher = VHasher::seeded(seed);
                let obj = if code == "NR" {
                    guard_ctor(|| {
                        Obj::Rodeo(Box::new(RodeoT::<K>::with_capacity_memory_limits_and_hasher(
                            Capacity::new(scap, cap),
                            MemoryLimits::new(lim),
                            hasher,
                        )))
                    })
                } else {
                    guard_ctor(|| {
                        Obj::Threaded(Box::new(
                            ThreadedT::<K>::with_capacity_memory_limits_and_hasher(
                                Capacity::new(scap, cap),
                                MemoryLimits::new(lim),
                                hasher,
                            ),
                        ))
                    })
                };
                match obj {
                    Ok(obj) => {
                        let slot = self.new_slot(obj, false);
                        (format!("NEW{slot}"), Ev::Created { slot })
                    }
                    Err(true) => ("P:alloc".to_string(), Ev::Nothing),
                    Err(false) => ("P".to_string(), Ev::Nothing),
                }
            }

            "I" | "IP" | "IA" | "IS" | "ISP" => {
                let slot = match self.slot_of(toks.get(1)) {
                    Some(i) => i,
                    None => return x(),
                };
                if !matches!(self.slots[slot].obj, Obj::Rodeo(_) | Obj::Threaded(_)) {
                    return x();
                }
                let owned: String;
                let (call, how, s): (ICall<'_>, IHow, String) = match code {
                    "I" | "IP" => {
                        owned = match toks.get(2).and_then(|t| unhex_str(t)) {
                            Some(s) => s,
                            None => return x(),
                        };
                        let call = if code == "I" {
                            ICall::Try(&owned)
                        } else {
                            ICall::Get(&owned)
                        };
                        (call, IHow::Copy, owned.clone())
                    }
                    _ => {
                        let (sidx, st) = match self.static_of(toks.get(2)) {
                            Some(p) => p,
                            None => return x(),
                        };
                        match code {
                            "IA" => (ICall::Try(st), IHow::CopyOfPool(sidx), st.to_string()),
                            "IS" => (ICall::TryStatic(st), IHow::Static(sidx), st.to_string()),
                            _ => (ICall::GetStatic(st), IHow::Static(sidx), st.to_string()),
                        }
                    }
                };
                let obj = self.take(slot);
                let (obj, r) = match obj {
                    Obj::Rodeo(b) => {
                        let (b, r) = intern_op::<K, _>(route, b, &call);
                        (Obj::Rodeo(b), r)
                    }
                    Obj::Threaded(b) => {
                        let (b, r) = intern_op::<K, _>(route, b, &call);
                        (Obj::Threaded(b), r)
                    }
                    other => (other, None),
                };
                self.slots[slot].obj = obj;
                let (out, res) = match r {
                    Some(IOut::Key(k)) => {
                        (format!("K{}", k.into_usize()), IResult::Key(k.into_usize()))
                    }
                    Some(IOut::Err(e)) => (err_name(e).to_string(), IResult::Err(e)),
                    None => ("P".to_string(), IResult::Panic),
                };
                (out, Ev::Intern { slot, s, how, res })
            }

            "G" | "C" | "GS" | "CS" | "GK" => {
                let slot = match self.slot_of(toks.get(1)) {
                    Some(i) => i,
                    None => return x(),
                };
                if !matches!(
                    self.slots[slot].obj,
                    Obj::Rodeo(_) | Obj::Threaded(_) | Obj::Reader(_)
                ) {
                    return x();
                }
                let owned: String;
                let probe: &str = match code {
                    "G" | "C" => {
                        owned = match toks.get(2).and_then(|t| unhex_str(t)) {
                            Some(s) => s,
                            None => return x(),
                        };
                        &owned
                    }
                    "GS" | "CS" => match self.static_of(toks.get(2)) {
                        Some((_, st)) => st,
                        None => return x(),
                    },
                    _ => {
                        // GK: a prefix of the string the object itself stores under key k
                        let k = toks
                            .get(2)
                            .and_then(|t| t.parse::<usize>().ok())
                            .and_then(K::try_from_usize);
                        let n = toks.get(3).and_then(|t| t.parse::<usize>().ok());
                        let (k, n) = match (k, n) {
                            (Some(k), Some(n)) => (k, n),
                            _ => return x(),
                        };
                        let stored = guard(|| {
                            self.slots[slot]
                                .obj
                                .m_try_resolve(&k)
                                .and_then(|s| s.get(..n))
                                .map(|s| s as *const str)
                        });
                        match stored {
                            // Safety: the object is neither mutated nor dropped while the probe
                            // is in use; the probe deliberately aliases the object's storage
                            Some(Some(p)) => unsafe { &*p },
                            _ => return x(),
                        }
                    }
                };
                let call = if code == "C" || code == "CS" {
                    GCall::Contains(probe)
                } else {
                    GCall::Get(probe)
                };
                let obj = self.take(slot);
                let (obj, out) = match obj {
                    Obj::Rodeo(b) => {
                        let (b, out) = reader_op::<K, _>(route, b, &call);
                        (Obj::Rodeo(b), out)
                    }
                    Obj::Threaded(b) => {
                        let (b, out) = reader_op::<K, _>(route, b, &call);
                        (Obj::Threaded(b), out)
                    }
                    Obj::Reader(b) => {
                        let (b, out) = reader_op::<K, _>(route, b, &call);
                        (Obj::Reader(b), out)
                    }
                    other => (other, "X".to_string()),
                };
                self.slots[slot].obj = obj;
                (out, Ev::Read { slots: vec![slot] })
            }

            "R" | "RU" | "IX" | "TR" | "CK" | "LEN" | "EMP" => {
                let slot = match self.slot_of(toks.get(1)) {
                    Some(i) => i,
                    None => return x(),
                };
                let ev = Ev::Read { slots: vec![slot] };
                let call: RCall<K> = match code {
                    "LEN" => RCall::Len,
                    "EMP" => RCall::IsEmpty,
                    _ => {
                        let tok = match toks.get(2) {
                            Some(t) if !t.is_empty() && t.bytes().all(|c| c.is_ascii_digit()) => *t,
                            _ => return x(),
                        };
                        // an index that does not even fit a usize is not representable either
                        let key = tok.parse::<usize>().ok().and_then(K::try_from_usize);
                        match (code, key) {
                            ("R", Some(k)) => RCall::Resolve(k),
                            ("TR", Some(k)) => RCall::TryResolve(k),
                            ("CK", Some(k)) => RCall::ContainsKey(k),
                            ("RU", Some(k)) => {
                                // never hand an invalid key to the unchecked call
                                let valid = guard(|| self.slots[slot].obj.m_contains_key(&k));
                                if valid != Some(true) {
                                    return ("P".to_string(), ev);
                                }
                                RCall::Unchecked(k)
                            }
                            ("IX", Some(k)) => {
                                let out = guard(|| out_str(self.slots[slot].obj.m_index(k)));
                                return (p_or(out), ev);
                            }
                            ("TR", None) => return ("N".to_string(), ev),
                            ("CK", None) => return ("F".to_string(), ev),
                            (_, None) => return ("P".to_string(), ev),
                            _ => return x(),
                        }
                    }
                };
                let obj = self.take(slot);
                let (obj, out) = match obj {
                    Obj::Rodeo(b) => {
                        let (b, out) = resolver_op::<K, _>(route, b, &call);
                        (Obj::Rodeo(b), out)
                    }
                    Obj::Threaded(b) => {
                        let (b, out) = resolver_op::<K, _>(route, b, &call);
                        (Obj::Threaded(b), out)
                    }
                    Obj::Reader(b) => {
                        let (b, out) = resolver_op::<K, _>(route, b, &call);
                        (Obj::Reader(b), out)
                    }
                    Obj::Resolver(b) => {
                        let (b, out) = resolver_op::<K, _>(route, b, &call);
                        (Obj::Resolver(b), out)
                    }
                    Obj::Dead => (Obj::Dead, "X".to_string()),
                };
                self.slots[slot].obj = obj;
                (out, ev)
            }

            "IT" | "ST" => {
                let slot = match self.slot_of(toks.get(1)) {
                    Some(i) => i,
                    None => return x(),
                };
                let plan = match toks.get(2).and_then(|t| parse_plan(t)) {
                    Some(p) => p,
                    None => return x(),
                };
                let obj = &self.slots[slot].obj;
                let out = if code == "IT" {
                    on_obj!(obj, [Rodeo, Threaded, Reader, Resolver], b => b.run_iter(&plan), else => "X".to_string())
                } else {
                    on_obj!(obj, [Rodeo, Threaded, Reader, Resolver], b => b.run_strings(&plan), else => "X".to_string())
                };
                (out, Ev::Read { slots: vec![slot] })
            }

            "CLR" => {
                let slot = match self.slot_of(toks.get(1)) {
                    Some(i) => i,
                    None => return x(),
                };
                let before = self.slots[slot].shadow.pairs().to_vec();
                match &mut self.slots[slot].obj {
                    Obj::Rodeo(b) => {
                        let ok = guard(|| b.clear()).is_some();
                        (
                            if ok { "U" } else { "P" }.to_string(),
                            Ev::Clear { slot, ok, before },
                        )
                    }
                    _ => x(),
                }
            }

            "LIM" => {
                let slot = match self.slot_of(toks.get(1)) {
                    Some(i) => i,
                    None => return x(),
                };
                let lim = match toks.get(2).and_then(|t| parse_lim(t)) {
                    Some(l) => l,
                    None => return x(),
                };
                let ok = match &mut self.slots[slot].obj {
                    Obj::Rodeo(b) => guard(|| b.i_set_limit(lim)),
                    Obj::Threaded(b) => guard(|| b.i_set_limit(lim)),
                    _ => return x(),
                };
                (
                    if ok.is_some() { "U" } else { "P" }.to_string(),
                    Ev::Limit { slot },
                )
            }

            "CUR" | "MAX" => {
                let slot = match self.slot_of(toks.get(1)) {
                    Some(i) => i,
                    None => return x(),
                };
                let obj = &self.slots[slot].obj;
                let n = if code == "CUR" {
                    guard(|| obj.m_current())
                } else {
                    guard(|| obj.m_max())
                };
                match n {
                    Some(Some(n)) => (format!("#{n}"), Ev::Read { slots: vec![slot] }),
                    Some(None) => x(),
                    None => ("P".to_string(), Ev::Read { slots: vec![slot] }),
                }
            }

            "CL" => {
                let src = match self.slot_of(toks.get(1)) {
                    Some(i) => i,
                    None => return x(),
                };
                let cloned = match &self.slots[src].obj {
                    Obj::Rodeo(b) => guard(|| b.try_clone()),
                    _ => return x(),
                };
                match cloned {
                    Some(Ok(r)) => {
                        let new = self.new_slot(Obj::Rodeo(Box::new(r)), false);
                        (format!("NEW{new}"), Ev::Clone { src, new: Some(new) })
                    }
                    Some(Err(e)) => (
                        err_name(e.kind()).to_string(),
                        Ev::Clone { src, new: None },
                    ),
                    None => ("P".to_string(), Ev::Clone { src, new: None }),
                }
            }

            "CF" => {
                let dst = match self.slot_of(toks.get(1)) {
                    Some(i) => i,
                    None => return x(),
                };
                let src = match self.slot_of(toks.get(2)) {
                    Some(i) => i,
                    None => return x(),
                };
                if dst == src
                    || !matches!(self.slots[dst].obj, Obj::Rodeo(_))
                    || !matches!(self.slots[src].obj, Obj::Rodeo(_))
                {
                    return x();
                }
                let mut target = match self.take(dst) {
                    Obj::Rodeo(b) => b,
                    _ => unreachable!(),
                };
                let r = match &self.slots[src].obj {
                    Obj::Rodeo(source) => guard(|| target.try_clone_from(source)),
                    _ => unreachable!(),
                };
                self.slots[dst].obj = Obj::Rodeo(target);
                match r {
                    Some(Ok(())) => ("U".to_string(), Ev::CloneFrom { dst, src, ok: true }),
                    Some(Err(e)) => (
                        err_name(e.kind()).to_string(),
                        Ev::CloneFrom { dst, src, ok: false },
                    ),
                    None => ("P".to_string(), Ev::CloneFrom { dst, src, ok: false }),
                }
            }

            "DROP" => {
                let slot = match self.slot_of(toks.get(1)) {
                    Some(i) => i,
                    None => return x(),
                };
                let obj = self.take(slot);
                let ok = guard(move || drop(obj)).is_some();
                (
                    if ok { "U" } else { "P" }.to_string(),
                    Ev::Drop { slot },
                )
            }

            "RD" => {
                let slot = match self.slot_of(toks.get(1)) {
                    Some(i) => i,
                    None => return x(),
                };
                if !matches!(self.slots[slot].obj, Obj::Rodeo(_) | Obj::Threaded(_)) {
                    return x();
                }
                let pre_gets = monitors::pre_conversion_gets(&self.slots[slot]);
                let reader = match self.take(slot) {
                    Obj::Rodeo(b) => into_reader_op::<K, _>(route, b),
                    Obj::Threaded(b) => into_reader_op::<K, _>(route, b),
                    _ => unreachable!(),
                };
                match reader {
                    Some(r) => {
                        self.slots[slot].obj = Obj::Reader(Box::new(r));
                        ("U".to_string(), Ev::IntoReader { slot, pre_gets, ok: true })
                    }
                    None => (
                        "P".to_string(),
                        Ev::IntoReader { slot, pre_gets, ok: false },
                    ),
                }
            }

            "RS" => {
                let slot = match self.slot_of(toks.get(1)) {
                    Some(i) => i,
                    None => return x(),
                };
                if !matches!(
                    self.slots[slot].obj,
                    Obj::Rodeo(_) | Obj::Threaded(_) | Obj::Reader(_)
                ) {
                    return x();
                }
                let resolver = match self.take(slot) {
                    Obj::Rodeo(b) => into_resolver_op::<K, _>(route, b),
                    Obj::Threaded(b) => into_resolver_op::<K, _>(route, b),
                    Obj::Reader(b) => into_resolver_op::<K, _>(route, b),
                    _ => unreachable!(),
                };
                match resolver {
                    Some(r) => {
                        self.slots[slot].obj = Obj::Resolver(Box::new(r));
                        ("U".to_string(), Ev::IntoResolver { slot, ok: true })
                    }
                    None => ("P".to_string(), Ev::IntoResolver { slot, ok: false }),
                }
            }

            "SER" => {
                let slot = match self.slot_of(toks.get(1)) {
                    Some(i) => i,
                    None => return x(),
                };
                let obj = &self.slots[slot].obj;
                let text = guard(|| {
                    on_obj!(obj, [Rodeo, Threaded, Reader, Resolver], b => serde_json::to_string(&**b), else => unreachable!())
                });
                let text = match text {
                    Some(Ok(text)) => text,
                    Some(Err(_)) => return ("SER:err".to_string(), Ev::Ser { slot, doc: None }),
                    None => return ("P".to_string(), Ev::Ser { slot, doc: None }),
                };
                match render_doc(&text) {
                    Some((out, doc)) => (out, Ev::Ser { slot, doc: Some(doc) }),
                    None => ("SER:err".to_string(), Ev::Ser { slot, doc: None }),
                }
            }

            "DE" => {
                let kind = match toks.get(1) {
                    Some(&"rodeo") => Kind::Rodeo,
                    Some(&"threaded") => Kind::Threaded,
                    Some(&"reader") => Kind::Reader,
                    Some(&"resolver") => Kind::Resolver,
                    _ => return x(),
                };
                let doc = match toks.get(2).and_then(|t| parse_doc(t)) {
                    Some(d) => d,
                    None => return x(),
                };
                let json = doc_to_json(&doc);
                let obj: Option<Result<Obj<K>, serde_json::Error>> = match kind {
                    Kind::Rodeo => guard(|| {
                        serde_json::from_str::<RodeoT<K>>(&json).map(|o| Obj::Rodeo(Box::new(o)))
                    }),
                    Kind::Threaded => guard(|| {
                        serde_json::from_str::<ThreadedT<K>>(&json)
                            .map(|o| Obj::Threaded(Box::new(o)))
                    }),
                    Kind::Reader => guard(|| {
                        serde_json::from_str::<ReaderT<K>>(&json).map(|o| Obj::Reader(Box::new(o)))
                    }),
                    Kind::Resolver => guard(|| {
                        serde_json::from_str::<ResolverT<K>>(&json)
                            .map(|o| Obj::Resolver(Box::new(o)))
                    }),
                };
                match obj {
                    Some(Ok(obj)) => {
                        let new = self.new_slot(obj, kind == Kind::Threaded);
                        (format!("NEW{new}"), Ev::De { new: Some(new), kind, doc })
                    }
                    Some(Err(_)) => ("DE:err".to_string(), Ev::De { new: None, kind, doc }),
                    None => ("P".to_string(), Ev::De { new: None, kind, doc }),
                }
            }

            // DEI <slot> <kind> <doc>: serde's deserialize_in_place on the object in the slot
            "DEI" => {
                let slot = match self.slot_of(toks.get(1)) {
                    Some(i) => i,
                    None => return x(),
                };
                let kind = match toks.get(2) {
                    Some(&"rodeo") => Kind::Rodeo,
                    Some(&"threaded") => Kind::Threaded,
                    Some(&"reader") => Kind::Reader,
                    Some(&"resolver") => Kind::Resolver,
                    _ => return x(),
                };
                let doc = match toks.get(3).and_then(|t| parse_doc(t)) {
                    Some(d) => d,
                    None => return x(),
                };
                if self.slots[slot].obj.kind() != Some(kind) {
                    return x();
                }
                let json = doc_to_json(&doc);
                let before = self.slots[slot].obj.snap();
                fn in_place<'a, T: serde::Deserialize<'a>>(json: &'a str, place: &mut T) -> Option<bool> {
                    guard(|| {
                        let mut de = serde_json::Deserializer::from_str(json);
                        serde::Deserialize::deserialize_in_place(&mut de, place).is_ok()
                    })
                }
                fn reference<K: KeyT, C: Cont<K> + DeserializeOwned>(json: &str) -> Option<Snap> {
                    guard(|| serde_json::from_str::<C>(json).ok().map(|o| snap_of::<K, C>(&o))).flatten()
                }
                let (res, reference) = match &mut self.slots[slot].obj {
                    Obj::Rodeo(b) => (in_place(&json, &mut **b), reference::<K, RodeoT<K>>(&json)),
                    Obj::Threaded(b) => (in_place(&json, &mut **b), reference::<K, ThreadedT<K>>(&json)),
                    Obj::Reader(b) => (in_place(&json, &mut **b), reference::<K, ReaderT<K>>(&json)),
                    Obj::Resolver(b) => (in_place(&json, &mut **b), reference::<K, ResolverT<K>>(&json)),
                    Obj::Dead => return x(),
                };
                if res == Some(true) && kind == Kind::Threaded {
                    // like `DE threaded`: the arena layout follows the HashMap's iteration order
                    self.slots[slot].unordered = true;
                }
                let out = match res {
                    Some(true) => "U",
                    Some(false) => "DE:err",
                    None => "P",
                };
                (out.to_string(), Ev::DeInPlace { slot, kind, doc, res, before, reference })
            }

            // PEQ <i> <j>: the comparison evaluated concurrently in both directions (and i == i on a third thread)
            "PEQ" => {
                let parse = |t: Option<&&str>| t.and_then(|t| t.parse::<usize>().ok());
                let (i, j) = match (parse(toks.get(1)), parse(toks.get(2))) {
                    (Some(i), Some(j)) if i < self.slots.len() && j < self.slots.len() => (i, j),
                    _ => return x(),
                };
                if !eq_impl_exists(&self.slots[i].obj, &self.slots[j].obj) {
                    return x();
                }
                let a = self.take(i);
                let b = if i == j { Obj::Dead } else { self.take(j) };
                match peq_run(a, b, i == j) {
                    Ok((a, b, verdict)) => {
                        self.slots[i].obj = a;
                        if i != j {
                            self.slots[j].obj = b;
                        }
                        match verdict {
                            Some((eq, ne, rev)) => {
                                let out = match eq {
                                    Some(true) => "T",
                                    Some(false) => "F",
                                    None => "P",
                                };
                                (out.to_string(), Ev::Eq { i, j, eq, ne, rev })
                            }
                            None => ("PEQ:differ".to_string(), Ev::Read { slots: vec![i, j] }),
                        }
                    }
                    // the objects were leaked (stuck threads still refer to them): both slots stay dead
                    Err(()) => ("PEQ:hang".to_string(), Ev::Leaked { slots: vec![i, j] }),
                }
            }

            "EQ" => {
                let parse = |t: Option<&&str>| t.and_then(|t| t.parse::<usize>().ok());
                let (i, j) = match (parse(toks.get(1)), parse(toks.get(2))) {
                    (Some(i), Some(j)) if i < self.slots.len() && j < self.slots.len() => (i, j),
                    _ => return x(),
                };
                let (a, b) = (&self.slots[i].obj, &self.slots[j].obj);
                match eq_objs(a, b) {
                    None => x(),
                    Some((eq, ne)) => {
                        let rev = eq_objs(b, a).map(|(eq, _)| eq);
                        let out = match eq {
                            Some(true) => "T",
                            Some(false) => "F",
                            None => "P",
                        };
                        (out.to_string(), Ev::Eq { i, j, eq, ne, rev })
                    }
                }
            }

            // CT <r|t> <ctor> <cap> <lim> [n]: build an interner through one of the public constructors, report what it
            // got (bucket capacity, limit, usage, len) and drop it
            "CT" => {
                use lasso::{Capacity, MemoryLimits, Spur};
                use std::collections::hash_map::RandomState;
                let threaded = match toks.get(1) {
                    Some(&"r") => false,
                    Some(&"t") => true,
                    _ => return x(),
                };
                let cap = match toks.get(3).and_then(|t| t.parse::<usize>().ok()).and_then(std::num::NonZeroUsize::new) {
                    Some(c) => c,
                    None => return x(),
                };
                let lim = match toks.get(4).and_then(|t| parse_lim(t)) {
                    Some(l) => l,
                    None => return x(),
                };
                let n = toks.get(5).and_then(|t| t.parse::<usize>().ok()).unwrap_or(7);
                let which = match toks.get(2) {
                    Some(w) => w.to_string(),
                    None => return x(),
                };
                let fam = VHasher::default();
                let res = guard(move || -> Option<lasso::verif::ArenaAudit> {
                    let c = Capacity::new(n, cap);
                    let m = MemoryLimits::new(lim);
                    macro_rules! build {
                        ($T:ident) => {
                            match which.as_str() {
                                "new" => Some(lasso::$T::<Spur, RandomState>::new().verif_audit()),
                                "default" => Some(<lasso::$T<Spur, RandomState> as Default>::default().verif_audit()),
                                "with_capacity" => Some(lasso::$T::<Spur, RandomState>::with_capacity(c).verif_audit()),
                                "with_limits" => Some(lasso::$T::<Spur, RandomState>::with_memory_limits(m).verif_audit()),
                                "with_capacity_and_limits" => Some(lasso::$T::<Spur, RandomState>::with_capacity_and_memory_limits(c, m).verif_audit()),
                                "with_hasher" => Some(lasso::$T::<Spur, VHasher>::with_hasher(fam.clone()).verif_audit()),
                                "with_capacity_and_hasher" => Some(lasso::$T::<Spur, VHasher>::with_capacity_and_hasher(c, fam.clone()).verif_audit()),
                                "full" => Some(lasso::$T::<Spur, VHasher>::with_capacity_memory_limits_and_hasher(c, m, fam.clone()).verif_audit()),
                                "cap_for_strings" => Some(lasso::$T::<Spur, RandomState>::with_capacity(Capacity::for_strings(n)).verif_audit()),
                                "cap_for_bytes" => Some(lasso::$T::<Spur, RandomState>::with_capacity(Capacity::for_bytes(cap)).verif_audit()),
                                "cap_minimal" => Some(lasso::$T::<Spur, RandomState>::with_capacity(Capacity::minimal()).verif_audit()),
                                "lim_for_memory_usage" => Some(lasso::$T::<Spur, RandomState>::with_memory_limits(MemoryLimits::for_memory_usage(lim)).verif_audit()),
                                _ => None,
                            }
                        };
                    }
                    if threaded { build!(ThreadedRodeo) } else { build!(Rodeo) }
                });
                match res {
                    Some(Some(a)) => {
                        let limit = if a.max_memory_usage == usize::MAX { "max".to_string() } else { a.max_memory_usage.to_string() };
                        let blocks: Vec<String> = a.blocks.iter().map(|b| format!("{}:{}", b.capacity, b.used)).collect();
                        (format!("CT:{},{},{},{}", a.bucket_capacity, limit, a.memory_usage, blocks.join("+")), Ev::Nothing)
                    }
                    Some(None) => x(),
                    None => ("P".to_string(), Ev::Nothing),
                }
            }

            // PQ <slot> <n>: n threads query the shared object at once (every key index up to len, every pool
            // string and every stored string through get where the kind has it, a full iteration); all threads must
            // see exactly what the calling thread sees (addresses included)
            "PQ" => {
                let slot = match self.slot_of(toks.get(1)) {
                    Some(i) => i,
                    None => return x(),
                };
                let n = match toks.get(2).and_then(|t| t.parse::<usize>().ok()) {
                    Some(n) if (1..=64).contains(&n) => n,
                    _ => return x(),
                };
                let pool: Vec<&'static str> = self.pool.clone();
                fn answers<K: KeyT>(obj: &Obj<K>, pool: &[&'static str]) -> Option<Vec<(usize, usize, usize)>> {
                    let mut out: Vec<(usize, usize, usize)> = Vec::new();
                    let mut probe_strings: Vec<String> = pool.iter().map(|s| s.to_string()).collect();
                    macro_rules! resolver_part {
                        ($b:expr) => {{
                            let len = $b.len();
                            for i in 0..=len {
                                if let Some(k) = K::try_from_usize(i) {
                                    match $b.try_resolve(&k) {
                                        Some(s) => { out.push((1, s.as_ptr() as usize, s.len())); probe_strings.push(String::from_utf8_lossy(&crate::copy_out(s)).into_owned()); }
                                        None => out.push((0, 0, 0)),
                                    }
                                    out.push(($b.contains_key(&k) as usize, 0, 0));
                                }
                            }
                            out.push((2, len, 0));
                        }};
                    }
                    match obj {
                        Obj::Reader(b) => {
                            resolver_part!(b);
                            for (k, s) in b.iter() { out.push((3, k.into_usize(), s.as_ptr() as usize)); }
                            for s in &probe_strings { out.push((4, b.get(s.as_str()).map_or(usize::MAX, |k| k.into_usize()), 0)); }
                        }
                        Obj::Resolver(b) => {
                            resolver_part!(b);
                            for s in b.strings() { out.push((3, s.len(), s.as_ptr() as usize)); }
                        }
                        Obj::Threaded(b) => {
                            resolver_part!(b);
                            let mut items: Vec<(usize, usize)> = b.iter().map(|(k, s)| (k.into_usize(), s.as_ptr() as usize)).collect();
                            items.sort_unstable();
                            for (k, p) in items { out.push((3, k, p)); }
                            for s in &probe_strings { out.push((4, b.get(s.as_str()).map_or(usize::MAX, |k| k.into_usize()), 0)); }
                        }
                        _ => return None,
                    }
                    Some(out)
                }
                let obj = &self.slots[slot].obj;
                if !matches!(obj, Obj::Reader(_) | Obj::Resolver(_) | Obj::Threaded(_)) {
                    return x();
                }
                let pool_ref = &pool;
                let res = guard(move || {
                    let mine = answers(obj, pool_ref);
                    let all: Vec<Option<Vec<(usize, usize, usize)>>> = std::thread::scope(|sc| {
                        // the custom key's capacity is a thread-local of the harness: hand it to the query threads
                        let cap = crate::dyn_cap();
                        let hs: Vec<_> = (0..n).map(|_| sc.spawn(move || { crate::set_dyn_cap(cap); answers(obj, pool_ref) })).collect();
                        hs.into_iter().map(|h| h.join().unwrap_or(None)).collect()
                    });
                    mine.is_some() && all.iter().all(|a| *a == mine)
                });
                match res {
                    Some(true) => ("T".to_string(), Ev::Nothing),
                    Some(false) => ("F".to_string(), Ev::Nothing),
                    None => ("P".to_string(), Ev::Nothing),
                }
            }

            "FI" => {
                let threaded = match toks.get(1) {
                    Some(&"r") => false,
                    Some(&"t") => true,
                    _ => return x(),
                };
                let list = match toks.get(3).and_then(|t| parse_hexlist(t)) {
                    Some(l) => l,
                    None => return x(),
                };
                let n = list.len();
                let hint = match toks.get(2) {
                    Some(&"exact") => (n, Some(n)),
                    Some(&"none") => (0, None),
                    Some(&"low") => (n / 2, Some(n / 2)),
                    Some(&"high") => (2 * n + 7, Some(2 * n + 7)),
                    _ => return x(),
                };
                let shape = match Shape::from_tok(toks.get(4)) {
                    Some(s) => s,
                    None => return x(),
                };
                let items = list.clone();
                let obj = if threaded {
                    guard(move || {
                        Obj::Threaded(Box::new(with_shaped_iter!(items, hint, shape, |it| Iterator::collect::<ThreadedT<K>>(it))))
                    })
                } else {
                    guard(move || {
                        Obj::Rodeo(Box::new(with_shaped_iter!(items, hint, shape, |it| Iterator::collect::<RodeoT<K>>(it))))
                    })
                };
                match obj {
                    Some(obj) => {
                        let new = self.new_slot(obj, false);
                        (format!("NEW{new}"), Ev::FromIter { new: Some(new), list })
                    }
                    None => ("P".to_string(), Ev::FromIter { new: None, list }),
                }
            }

            "EX" => {
                let slot = match self.slot_of(toks.get(1)) {
                    Some(i) => i,
                    None => return x(),
                };
                if !matches!(self.slots[slot].obj, Obj::Rodeo(_) | Obj::Threaded(_)) {
                    return x();
                }
                let list = match toks.get(2).and_then(|t| parse_hexlist(t)) {
                    Some(l) => l,
                    None => return x(),
                };
                let items = list.clone();
                let n = list.len();
                let hint = match toks.get(3) {
                    None | Some(&"exact") => (n, Some(n)),
                    Some(&"none") => (0, None),
                    Some(&"low") => (n / 2, Some(n / 2)),
                    Some(&"high") => (2 * n + 7, Some(2 * n + 7)),
                    _ => return x(),
                };
                let shape = match Shape::from_tok(toks.get(4)) {
                    Some(s) => s,
                    None => return x(),
                };
                let ok = match &mut self.slots[slot].obj {
                    Obj::Rodeo(b) => guard(move || b.i_extend(items, hint, shape)),
                    Obj::Threaded(b) => guard(move || b.i_extend(items, hint, shape)),
                    _ => unreachable!(),
                }
                .is_some();
                (
                    if ok { "U" } else { "P" }.to_string(),
                    Ev::Extend { slot, list, ok },
                )
            }

            _ => x(),
        }
    }

    /// Snapshots of every slot, in slot order
    pub fn snap_all(&self) -> Vec<SnapR> {
        self.slots.iter().map(|s| s.obj.snap()).collect()
    }

    pub fn push_digests(&self, out: &mut String, label: &str, snaps: &[SnapR]) {
        for (i, (slot, snap)) in self.slots.iter().zip(snaps).enumerate() {
            let _ = write!(out, "D {} {} {} ", self.id, label, i);
            match snap {
                SnapR::Dead => out.push_str("dead"),
                SnapR::Panicked(kind) => {
                    let _ = write!(out, "{} ?panic", kind.name());
                }
                SnapR::Live(snap) => push_digest_body(out, &self.pool, snap, slot.unordered),
            }
            out.push('\n');
        }
    }
}

/// Whether the crate has `==` for this pairing of kinds (the 13 impls `eq_objs` dispatches to)
fn eq_impl_exists<K: KeyT>(a: &Obj<K>, b: &Obj<K>) -> bool {
    matches!(
        (a, b),
        (Obj::Rodeo(_), Obj::Rodeo(_) | Obj::Reader(_) | Obj::Resolver(_))
            | (Obj::Threaded(_), Obj::Threaded(_) | Obj::Rodeo(_) | Obj::Reader(_) | Obj::Resolver(_))
            | (Obj::Reader(_), Obj::Reader(_) | Obj::Resolver(_) | Obj::Rodeo(_))
            | (Obj::Resolver(_), Obj::Resolver(_) | Obj::Reader(_) | Obj::Rodeo(_))
    )
}

/// How often each direction is evaluated by `PEQ`, and how long the main thread waits for the three threads
const PEQ_ROUNDS: usize = 200;
const PEQ_WAIT: std::time::Duration = std::time::Duration::from_secs(10);

/// `(eq, ne, rev)` as in `Ev::Eq` when all evaluations agreed, `None` when they did not
type PeqVerdict = Option<(Option<bool>, Option<bool>, Option<Option<bool>>)>;

/// `PEQ`: three threads evaluate `a == b`, `b == a` (where the crate has that impl) and `a == a`, `PEQ_ROUNDS` times each,
/// released together.  `Ok`: all finished in time, the objects come back.  `Err`: they did not; the objects stay
/// where the stuck threads can still refer to them (leaked for good), the threads are abandoned.
fn peq_run<K: KeyT>(a: Obj<K>, b: Obj<K>, same: bool) -> Result<(Obj<K>, Obj<K>, PeqVerdict), ()> {
    use std::sync::{mpsc, Arc, Barrier};
    // shared by address: a scoped borrow could not be abandoned after a timeout
    let pair: *mut (Obj<K>, Obj<K>) = Box::into_raw(Box::new((a, b)));
    let addr = pair as usize;
    let (tx, rx) = mpsc::channel::<(usize, Vec<(Option<bool>, Option<bool>)>)>();
    let gate = Arc::new(Barrier::new(3));
    let cap = crate::dyn_cap();
    let mut handles = Vec::with_capacity(3);
    for role in 0..3usize {
        let (tx, gate) = (tx.clone(), gate.clone());
        let body = move || {
            crate::set_dyn_cap(cap);
            // Safety: the pair is freed only after this thread has sent its answer (or never)
            let pair: &(Obj<K>, Obj<K>) = unsafe { &*(addr as *const (Obj<K>, Obj<K>)) };
            let second = if same { &pair.0 } else { &pair.1 };
            let (l, r) = match role {
                0 => (&pair.0, second),
                1 => (second, &pair.0),
                _ => (&pair.0, &pair.0),
            };
            let mut seen = Vec::with_capacity(PEQ_ROUNDS);
            gate.wait();
            for _ in 0..PEQ_ROUNDS {
                match eq_objs(l, r) {
                    Some(answer) => seen.push(answer),
                    None => break, // no impl in this direction
                }
            }
            let _ = tx.send((role, seen));
        };
        if let Ok(handle) = std::thread::Builder::new().name(format!("peq{role}")).spawn(body) {
            handles.push(handle);
        }
    }
    drop(tx);
    if handles.len() < 3 {
        // the gate can never open: treat like a hang (nothing may be freed while a thread waits at the gate)
        return Err(());
    }
    let deadline = std::time::Instant::now() + PEQ_WAIT;
    let mut answers: Vec<Vec<(Option<bool>, Option<bool>)>> = vec![Vec::new(); 3];
    for _ in 0..3 {
        let left = deadline.saturating_duration_since(std::time::Instant::now());
        // (a blocking receive creates the thread's mpsc context, which std keeps for the life of the thread: not the case's)
        match talloc::untracked(|| rx.recv_timeout(left)) {
            Ok((role, seen)) => answers[role] = seen,
            Err(_) => return Err(()),
        }
    }
    // the threads are about to exit: wait until they are gone, so that what `spawn` allocated for them is released
    // before the case ends (the allocation monitor would count it as leaked by the case)
    for handle in handles {
        let _ = handle.join();
    }
    // Safety: all three threads have sent their answers, the last thing they do with the pair
    let (a, b) = *unsafe { Box::from_raw(pair) };
    let all_same = |v: &[(Option<bool>, Option<bool>)]| v.windows(2).all(|w| w[0] == w[1]);
    let (fwd, rev, own) = (&answers[0], &answers[1], &answers[2]);
    let agreed = !fwd.is_empty()
        && all_same(fwd)
        && all_same(rev)
        && all_same(own)
        && rev.first().map_or(true, |r| r.0 == fwd[0].0)
        && own.first().map_or(true, |o| o.0 != Some(false));
    let verdict = if agreed {
        Some((fwd[0].0, fwd[0].1, rev.first().map(|r| r.0)))
    } else {
        None
    };
    Ok((a, b, verdict))
}

/// `==` and `!=` of two slots; `None` when the crate has no such impl (or a slot is dead);
/// an inner `None` is a panic
fn eq_objs<K: KeyT>(a: &Obj<K>, b: &Obj<K>) -> Option<(Option<bool>, Option<bool>)> {
    macro_rules! cmp {
        ($x:expr, $y:expr) => {
            Some((guard(|| **$x == **$y), guard(|| **$x != **$y)))
        };
    }
    match (a, b) {
        (Obj::Rodeo(x), Obj::Rodeo(y)) => cmp!(x, y),
        (Obj::Rodeo(x), Obj::Reader(y)) => cmp!(x, y),
        (Obj::Rodeo(x), Obj::Resolver(y)) => cmp!(x, y),
        (Obj::Threaded(x), Obj::Threaded(y)) => cmp!(x, y),
        (Obj::Threaded(x), Obj::Rodeo(y)) => cmp!(x, y),
        (Obj::Threaded(x), Obj::Reader(y)) => cmp!(x, y),
        (Obj::Threaded(x), Obj::Resolver(y)) => cmp!(x, y),
        (Obj::Reader(x), Obj::Reader(y)) => cmp!(x, y),
        (Obj::Reader(x), Obj::Resolver(y)) => cmp!(x, y),
        (Obj::Reader(x), Obj::Rodeo(y)) => cmp!(x, y),
        (Obj::Resolver(x), Obj::Resolver(y)) => cmp!(x, y),
        (Obj::Resolver(x), Obj::Reader(y)) => cmp!(x, y),
        (Obj::Resolver(x), Obj::Rodeo(y)) => cmp!(x, y),
        _ => None,
    }
}

/// Parses `L:<hex>,...` / `M:<hex>=<raw>,...`
pub fn parse_doc(tok: &str) -> Option<DocIn> {
    if let Some(rest) = tok.strip_prefix("L:") {
        if rest.is_empty() {
            return Some(DocIn::List(Vec::new()));
        }
        return rest
            .split(',')
            .map(unhex_str)
            .collect::<Option<Vec<_>>>()
            .map(DocIn::List);
    }
    if let Some(rest) = tok.strip_prefix("M:") {
        if rest.is_empty() {
            return Some(DocIn::Map(Vec::new()));
        }
        let mut entries = Vec::new();
        for item in rest.split(',') {
            let (h, raw) = item.split_once('=')?;
            if raw.is_empty() || !raw.bytes().all(|c| c.is_ascii_digit()) {
                return None;
            }
            entries.push((unhex_str(h)?, raw.to_string()));
        }
        return Some(DocIn::Map(entries));
    }
    None
}

/// The JSON text of a document, in document order, repeated keys included
pub fn doc_to_json(doc: &DocIn) -> String {
    let quote = |s: &str| serde_json::to_string(s).expect("strings always serialize");
    let mut json = String::new();
    match doc {
        DocIn::List(items) => {
            json.push('[');
            for (i, s) in items.iter().enumerate() {
                if i > 0 {
                    json.push(',');
                }
                json.push_str(&quote(s));
            }
            json.push(']');
        }
        DocIn::Map(entries) => {
            json.push('{');
            for (i, (s, raw)) in entries.iter().enumerate() {
                if i > 0 {
                    json.push(',');
                }
                json.push_str(&quote(s));
                json.push(':');
                // a JSON number has no redundant leading zeros
                let trimmed = raw.trim_start_matches('0');
                json.push_str(if trimmed.is_empty() { "0" } else { trimmed });
            }
            json.push('}');
        }
    }
    json
}

/// Re-parses serialized JSON and renders it as `DOC:L:...` / `DOC:M:...`
fn render_doc(text: &str) -> Option<(String, DocOut)> {
    let value: serde_json::Value = serde_json::from_str(text).ok()?;
    match value {
        serde_json::Value::Array(items) => {
            let mut strings = Vec::with_capacity(items.len());
            for item in items {
                match item {
                    serde_json::Value::String(s) => strings.push(s),
                    _ => return None,
                }
            }
            let mut out = String::from("DOC:L:");
            for (i, s) in strings.iter().enumerate() {
                if i > 0 {
                    out.push(',');
                }
                push_hex(&mut out, s.as_bytes());
            }
            Some((out, DocOut::List(strings)))
        }
        serde_json::Value::Object(map) => {
            let mut entries: Vec<(u64, String, String)> = Vec::with_capacity(map.len());
            for (s, v) in map {
                let raw = v.as_u64()?;
                entries.push((raw, hex(s.as_bytes()), s));
            }
            entries.sort();
            let mut out = String::from("DOC:M:");
            for (i, (raw, h, _)) in entries.iter().enumerate() {
                if i > 0 {
                    out.push(',');
                }
                let _ = write!(out, "{h}={raw}");
            }
            Some((
                out,
                DocOut::Map(entries.into_iter().map(|(raw, _, s)| (s, raw)).collect()),
            ))
        }
        _ => None,
    }
}

// ------------------------------------------------------------------------------------------
// cases
// ------------------------------------------------------------------------------------------

enum KeySel {
    Micro,
    Mini,
    Spur,
    Large,
    Cap(usize),
}

struct CaseHeader {
    id: String,
    key: KeySel,
    family: u8,
    route: Route,
    pool: Vec<&'static str>,
}

fn parse_header(toks: &[&str]) -> Result<CaseHeader, String> {
    if toks.len() != 6 || toks[0] != "CASE" {
        return Err("expected `CASE <id> K= H= V= P=`".to_string());
    }
    let id = toks[1].to_string();
    let key = match toks[2].strip_prefix("K=") {
        Some("micro") => KeySel::Micro,
        Some("mini") => KeySel::Mini,
        Some("spur") => KeySel::Spur,
        Some("large") => KeySel::Large,
        Some(other) => match other.strip_prefix("cap").and_then(|n| n.parse::<usize>().ok()) {
            Some(n) => KeySel::Cap(n),
            None => return Err(format!("bad key type {other}")),
        },
        None => return Err("missing K=".to_string()),
    };
    let family = toks[3]
        .strip_prefix("H=")
        .and_then(family_from_name)
        .ok_or_else(|| "bad H=".to_string())?;
    let route = toks[4]
        .strip_prefix("V=")
        .and_then(Route::from_name)
        .ok_or_else(|| "bad V=".to_string())?;
    let pool = build_pool(toks[5].strip_prefix("P=").ok_or_else(|| "bad P=".to_string())?)?;
    Ok(CaseHeader {
        id,
        key,
        family,
        route,
        pool,
    })
}

fn run_ops<K: KeyT>(
    header: CaseHeader,
    keycap: u64,
    ops: &[Vec<&str>],
    out: &mut String,
    sink: &mut MonSink,
) {
    let mut world: World<K> = World {
        id: header.id,
        slots: Vec::new(),
        pool: header.pool,
        route: header.route,
        keycap,
    };
    if world.id.starts_with("MO-") {
        // monitor-only cases are too long for per-op snapshots (quadratic): a linear shadow of the I ops
        run_ops_light(&mut world, ops, out, sink);
        let _ = writeln!(out, "END {}", world.id);
        let _ = guard(move || drop(world));
        return;
    }
    for (opno, toks) in ops.iter().enumerate() {
        let label = opno.to_string();
        let (result, ev) = world.exec(toks);
        let _ = writeln!(out, "{} {} {}", world.id, opno, result);
        let mutating = toks.first().map_or(false, |c| MUTATING.contains(c));
        let snaps = if mutating {
            let snaps = world.snap_all();
            world.push_digests(out, &label, &snaps);
            Some(snaps)
        } else {
            None
        };
        monitors::after_op(&mut world, &ev, &label, snaps.as_deref(), sink);
        if let Some(snaps) = snaps {
            for (slot, snap) in world.slots.iter_mut().zip(snaps) {
                slot.last = snap;
            }
        }
    }
    let snaps = world.snap_all();
    world.push_digests(out, "end", &snaps);
    monitors::at_end(&mut world, &snaps, sink);
    let _ = writeln!(out, "END {}", world.id);
    // the objects of the case are dropped here, under catch_unwind like everything else
    let _ = guard(move || drop(world));
}

/// The monitors of a `DEI` in a monitor-only case: the same as in a full case (C15 + the checks of the slot), on snapshots
/// taken for the occasion
fn light_dei<K: KeyT>(
    world: &mut World<K>,
    toks: &[&str],
    ev: &Ev,
    opno: usize,
    dei_slots: &mut Vec<usize>,
    dei_stale: &mut bool,
    sink: &mut MonSink,
) {
    match ev {
        Ev::DeInPlace { slot, .. } => {
            let snaps = world.snap_all();
            monitors::after_op(world, ev, &opno.to_string(), Some(&snaps), sink);
            if !dei_slots.contains(slot) {
                dei_slots.push(*slot);
            }
        }
        _ => {
            if !dei_slots.is_empty() && toks.first().map_or(false, |c| MUTATING.contains(c)) {
                *dei_stale = true;
            }
        }
    }
}

/// After a `DEI` on slot 0 of a monitor-only case: the linear shadow of the `I 0` ops restarts from the document
/// (the slot's shadow as `check_dei` left it); a refused document changes nothing
fn light_resync<K: KeyT>(
    world: &World<K>,
    res: Option<bool>,
    by_str: &mut std::collections::HashMap<String, usize>,
    by_key: &mut Vec<String>,
    shadow_off: &mut bool,
) {
    match res {
        Some(false) => {}
        None => *shadow_off = true,
        Some(true) => {
            let pairs = world.slots[0].shadow.pairs();
            by_str.clear();
            by_key.clear();
            for (pos, (k, s)) in pairs.iter().enumerate() {
                let h = hex(s.as_bytes());
                if *k != pos || by_str.insert(h.clone(), *k).is_some() {
                    *shadow_off = true;
                    return;
                }
                by_key.push(h);
            }
        }
    }
}

/// Monitor-only cases (`MO-...`): only `I <slot> <hex>` ops are shadowed; checks C07 / C10 / C01 / C02 in linear time
fn run_ops_light<K: KeyT>(world: &mut World<K>, ops: &[Vec<&str>], out: &mut String, sink: &mut MonSink) {
    use std::collections::HashMap;
    let id = world.id.clone();
    let keycap = world.keycap;
    let mut by_str: HashMap<String, usize> = HashMap::new();
    let mut by_key: Vec<String> = Vec::new();
    let mut reported = 0usize;
    let mut rep = |sink: &mut MonSink, opno: usize, prop: &str, msg: String| {
        if reported < 20 {
            sink.report(&id, &opno.to_string(), prop, &msg);
        }
        reported += 1;
    };
    // slots a `DEI` worked on, and whether a later mutating op may have changed them since
    let mut dei_slots: Vec<usize> = Vec::new();
    let mut dei_stale = false;
    // the linear shadow of slot 0 no longer applies (a DEI left keys that are not 0..n, or panicked)
    let mut shadow_off = false;
    for (opno, toks) in ops.iter().enumerate() {
        // `EXP <expected> <op ...>`: the generator states the answer itself (used where the model runner would be
        // too slow); any other answer is a finding
        if toks.first() == Some(&"EXP") && toks.len() >= 3 {
            let (result, ev) = world.exec(&toks[2..]);
            if result != toks[1] {
                rep(sink, opno, "EXP", format!("`{}` answered {} where {} is the only right answer", toks[2..].join(" "), result, toks[1]));
            }
            light_dei(world, &toks[2..], &ev, opno, &mut dei_slots, &mut dei_stale, sink);
            if let Ev::DeInPlace { slot: 0, res, .. } = &ev {
                light_resync(world, *res, &mut by_str, &mut by_key, &mut shadow_off);
            }
            continue;
        }
        let (result, ev) = world.exec(toks);
        light_dei(world, toks, &ev, opno, &mut dei_slots, &mut dei_stale, sink);
        if let Ev::DeInPlace { slot: 0, res, .. } = &ev {
            light_resync(world, *res, &mut by_str, &mut by_key, &mut shadow_off);
        }
        if opno < 4 || opno + 12 >= ops.len() {
            let _ = writeln!(out, "{} {} {}", world.id, opno, result);
        }
        if !shadow_off && toks.first() == Some(&"I") && toks.get(1) == Some(&"0") {
            let s = toks.get(2).copied().unwrap_or("-").to_string();
            if let Some(k) = result.strip_prefix('K').and_then(|t| t.parse::<usize>().ok()) {
                match by_str.get(&s) {
                    Some(prev) => {
                        if *prev != k {
                            rep(sink, opno, "C02", format!("slot 0: interning {s} again returned key {k}, before it was {prev}"));
                        }
                    }
                    None => {
                        if k != by_key.len() {
                            rep(sink, opno, "C10", format!("slot 0: new string {s} got key {k}, {} strings were interned before", by_key.len()));
                        }
                        if k < by_key.len() {
                            rep(sink, opno, "C07", format!("slot 0: success returned key {k} which already stands for {}", by_key[k]));
                        } else {
                            if (by_key.len() as u64) >= keycap {
                                rep(sink, opno, "C07", format!("slot 0: a {}th distinct string was accepted by a key type that admits {keycap}", by_key.len() + 1));
                            }
                            by_str.insert(s.clone(), k);
                            by_key.push(s);
                        }
                    }
                }
            } else if result == "E:key" {
                if (by_key.len() as u64) < keycap && !by_str.contains_key(&s) {
                    rep(sink, opno, "C07", format!("slot 0: E:key although only {} of {keycap} keys are in use", by_key.len()));
                }
            }
        }
    }
    // the slots a DEI touched: the end-of-case consistency of each (C01 / C02 / C04 / C10), whatever else the case checks
    if !dei_slots.is_empty() {
        monitors::at_end_slots(world, &dei_slots, dei_stale, sink);
    }
    // cases that state their own expectations are checked by those alone
    if shadow_off || ops.iter().any(|t| t.first() == Some(&"EXP")) {
        return;
    }
    // the end: every shadowed pair still resolves, get agrees, len agrees
    let n = by_key.len();
    let mut check = |world: &mut World<K>, toks: Vec<String>, want: String, prop: &str, what: String, sink: &mut MonSink| {
        let t: Vec<&str> = toks.iter().map(|x| x.as_str()).collect();
        let (result, _) = world.exec(&t);
        if result != want {
            rep(sink, ops.len(), prop, format!("slot 0: {what}: got {result}, expected {want}"));
        }
    };
    check(world, vec!["LEN".into(), "0".into()], format!("#{n}"), "C10", "len() after the history".into(), sink);
    let step = (n / 4096).max(1);
    for k in (0..n).step_by(step).chain(n.saturating_sub(3)..n) {
        let s = by_key[k].clone();
        check(world, vec!["TR".into(), "0".into(), k.to_string()], format!("S:{s}"), "C01", format!("try_resolve({k})"), sink);
        check(world, vec!["G".into(), "0".into(), s.clone()], format!("K{k}"), "C02", format!("get({s})"), sink);
    }
}

/// Runs one `CASE` line; appends its result lines to `out`
pub fn run_case_line(line: &str, out: &mut String, sink: &mut MonSink) {
    let mut segments = line.split(';');
    let head: Vec<&str> = segments.next().unwrap_or("").split_whitespace().collect();
    let ops: Vec<Vec<&str>> = segments.map(|s| s.split_whitespace().collect()).collect();
    let header = match parse_header(&head) {
        Ok(h) => h,
        Err(msg) => {
            let id = head.get(1).copied().unwrap_or("?");
            sink.report(id, "cfg", "CFG", &msg);
            let _ = writeln!(out, "END {id}");
            return;
        }
    };
    sink.set_case(&header.id);
    set_current_family(header.family);
    // The allocation-discipline monitor (C04, `talloc`): everything allocated from here on by
    // this thread must be released by the time the case's world has been dropped.  What the
    // harness keeps beyond the case was allocated before this point (the header, the pool and
    // its process-wide cache, the result buffer: a buffer that grows inside the scope keeps
    // the tag of its first allocation) or is allocated under `talloc::untracked` (monitor lines).
    let id = header.id.clone();
    if out.capacity() == 0 {
        out.reserve(1 << 12);
    }
    let snapshot = talloc::scope_begin();
    talloc::set_thread_tracking(true);
    match header.key {
        KeySel::Micro => run_ops::<MicroSpur>(header, 255, &ops, out, sink),
        KeySel::Mini => run_ops::<MiniSpur>(header, 65535, &ops, out, sink),
        KeySel::Spur => run_ops::<Spur>(header, u32::MAX as u64, &ops, out, sink),
        KeySel::Large => run_ops::<LargeSpur>(header, u64::MAX, &ops, out, sink),
        KeySel::Cap(n) => {
            set_dyn_cap(n);
            run_ops::<DynKey>(header, (n as u64).min(1 << 32), &ops, out, sink)
        }
    }
    // `run_ops` has dropped the world (all slots, shadows, snapshots) and its temporaries
    talloc::set_thread_tracking(false);
    let report = talloc::scope_end(snapshot);
    if report.overflow {
        sink.report(&id, "end", "MON", "internal: the allocation table overflowed, the allocation discipline (C04) is no longer checked");
    }
    for message in report.messages("every object of the case was dropped") {
        sink.report(&id, "end", "C04", &message);
    }
}

/// Runs every case of `cases`, writing result lines to `results` and monitor findings to `mon`
pub fn run_file(cases: &str, results: &mut impl Write, mon: &mut impl Write) -> io::Result<()> {
    // allocated before the first `talloc` scope: the result buffer, the main thread's handle
    let mut out = String::with_capacity(1 << 16);
    let _ = std::thread::current();
    let mut sink = MonSink::default();
    for line in cases.lines() {
        let line = line.trim_end_matches('\r');
        if line.trim().is_empty() || line.starts_with('#') {
            continue;
        }
        out.clear();
        run_case_line(line, &mut out, &mut sink);
        results.write_all(out.as_bytes())?;
        if !sink.buffer.is_empty() {
            mon.write_all(sink.buffer.as_bytes())?;
            sink.buffer.clear();
        }
    }
    results.flush()?;
    mon.flush()
}
