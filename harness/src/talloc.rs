//! A tracking global allocator: the model-independent monitor of the allocation discipline
//! (property C04: nothing is freed twice, nothing is freed with a layout other than the one it
//! was allocated with, and everything a case allocated is released once its objects are gone).
//!
//! `TrackingAlloc` wraps `std::alloc::System`.  Every live block of the process is recorded
//! (address -> size, alignment, tag) in a fixed open-addressing table of atomics that lives in
//! `.bss`: the table never allocates, so there is no re-entrancy problem, and it needs no lock.
//! Recording *every* block (not only the tracked ones) is what makes the verdict "this address
//! was never handed out" exact: a block the harness allocated before a scope and frees inside
//! it is known to the table and is not mistaken for an invalid free.
//!
//! What "tracking" adds is the *tag*: a block allocated while tracking is enabled for the
//! current thread (thread-local flag, or the process-global all-threads flag; both overridden by
//! [`untracked`]) and while a scope is open is tagged with the scope's generation number and
//! counted.  `realloc` keeps the tag of the block it grows, so a buffer first allocated outside
//! the scope stays outside however often it grows inside.  [`scope_end`] reports the blocks that
//! carry the scope's tag and are still live, and the violations recorded since [`scope_begin`].
//!
//! Violations: `dealloc` / `realloc` of an address that is not live (double or invalid free) or
//! with a size / alignment other than the recorded one.  An invalid `dealloc` is NOT forwarded to
//! `System`, so the process survives and the monitor can report.
//!
//! Use after free / use after a moving `realloc` is made visible: every block is filled with `0xDD`
//! right before it goes back to `System`, and a `realloc` to a SMALLER size of a live, correctly
//! described block always moves (new block, copy, old block poisoned and freed) — legal for any
//! `GlobalAlloc`, whereas malloc trims in place and would let a stale pointer read on by luck.
//!
//! Scopes do not nest and are opened and closed by one coordinating thread while no other
//! tracked thread runs.

use std::alloc::{GlobalAlloc, Layout, System};
use std::cell::Cell;
use std::sync::atomic::{AtomicBool, AtomicUsize, Ordering};

// ------------------------------------------------------------------------------------------
// the table
// ------------------------------------------------------------------------------------------

const TABLE_BITS: usize = 21;
/// Number of slots (2^21; 48 MiB of `.bss`, of which only the pages in use are ever touched)
pub const TABLE_SLOTS: usize = 1 << TABLE_BITS;
const MASK: usize = TABLE_SLOTS - 1;

const EMPTY: usize = 0;
const TOMB: usize = 1;

struct Slot {
    /// `EMPTY`, `TOMB` or the address of a live block
    key: AtomicUsize,
    size: AtomicUsize,
    /// `generation << 8 | log2(align)`; generation 0 = not counted
    meta: AtomicUsize,
}

#[allow(clippy::declare_interior_mutable_const)]
const SLOT0: Slot = Slot {
    key: AtomicUsize::new(EMPTY),
    size: AtomicUsize::new(0),
    meta: AtomicUsize::new(0),
};

static TABLE: [Slot; TABLE_SLOTS] = [SLOT0; TABLE_SLOTS];

/// Set once the allocator has been entered: tells whether it is installed at all
static INSTALLED: AtomicBool = AtomicBool::new(false);
/// An insertion found no free slot: from then on nothing can be said (and nothing is reported
/// except the overflow itself)
static OVERFLOW: AtomicBool = AtomicBool::new(false);
static OVERFLOW_REPORTED: AtomicBool = AtomicBool::new(false);

/// Neighbouring addresses go to neighbouring slots (malloc hands out 16-byte granules: this is
/// close to a perfect hash and cache friendly); the 64 MiB region number (glibc's per-thread
/// arenas are 64 MiB aligned) shifts the whole region by a pseudo-random offset
#[inline(always)]
fn home(addr: usize) -> usize {
    ((addr >> 4).wrapping_add((addr >> 26).wrapping_mul(0x9E37_79B9))) & MASK
}

/// Records a new live block; `None` when the table is full
#[inline(always)]
fn insert(addr: usize, size: usize, meta: usize) -> Option<usize> {
    let mut i = home(addr);
    let mut probes = 0usize;
    while probes < TABLE_SLOTS {
        probes += 1;
        let slot = &TABLE[i];
        let k = slot.key.load(Ordering::Relaxed);
        if k == EMPTY || k == TOMB {
            // claim the key, then fill in the values: the only one who will ever look this
            // address up is the owner of the block, i.e. whoever the caller hands it to
            if slot
                .key
                .compare_exchange(k, addr, Ordering::Acquire, Ordering::Relaxed)
                .is_ok()
            {
                slot.size.store(size, Ordering::Relaxed);
                slot.meta.store(meta, Ordering::Release);
                return Some(i);
            }
            // lost the race for this slot: look at it again (it now holds a foreign key)
        }
        i = (i + 1) & MASK;
    }
    None
}

/// The slot of the live block at `addr`
#[inline(always)]
fn find(addr: usize) -> Option<usize> {
    let mut i = home(addr);
    let mut probes = 0usize;
    while probes < TABLE_SLOTS {
        probes += 1;
        let k = TABLE[i].key.load(Ordering::Acquire);
        if k == addr {
            return Some(i);
        }
        if k == EMPTY {
            return None;
        }
        i = (i + 1) & MASK;
    }
    None
}

// ------------------------------------------------------------------------------------------
// who is tracked
// ------------------------------------------------------------------------------------------

thread_local! {
    static THREAD_ON: Cell<bool> = const { Cell::new(false) };
    static SUPPRESS: Cell<u32> = const { Cell::new(0) };
}

static ALL_THREADS: AtomicBool = AtomicBool::new(false);

/// The generation of the open scope, 0 when none is open
static CUR_GEN: AtomicUsize = AtomicUsize::new(0);
static LAST_GEN: AtomicUsize = AtomicUsize::new(0);

/// Blocks / bytes that carry the tag of the open scope and are live
static SCOPE_BLOCKS: AtomicUsize = AtomicUsize::new(0);
static SCOPE_BYTES: AtomicUsize = AtomicUsize::new(0);

/// Enables / disables tracking for the allocations of the current thread
pub fn set_thread_tracking(on: bool) {
    let _ = THREAD_ON.try_with(|t| t.set(on));
}

/// Enables / disables tracking for every thread of the process (threads inside [`untracked`]
/// stay untracked)
pub fn set_all_threads(on: bool) {
    ALL_THREADS.store(on, Ordering::SeqCst);
}

/// Whether an allocation made now by this thread would be tracked
pub fn is_tracking() -> bool {
    tag_now() != 0
}

/// Whether `TrackingAlloc` is the global allocator of this process (it has been entered)
pub fn installed() -> bool {
    INSTALLED.load(Ordering::Relaxed)
}

#[inline(always)]
fn tag_now() -> usize {
    let gen = CUR_GEN.load(Ordering::Relaxed);
    if gen == 0 {
        return 0;
    }
    let on = SUPPRESS.try_with(|s| s.get() == 0).unwrap_or(false)
        && (ALL_THREADS.load(Ordering::Relaxed) || THREAD_ON.try_with(|t| t.get()).unwrap_or(false));
    if on {
        gen
    } else {
        0
    }
}

struct Unsuppress;

impl Drop for Unsuppress {
    fn drop(&mut self) {
        let _ = SUPPRESS.try_with(|s| s.set(s.get().saturating_sub(1)));
    }
}

/// Runs harness-internal code whose allocations legitimately outlive the scope (leaked pool
/// strings, output buffers, process-global caches) without tracking.  Nests; panic safe.
pub fn untracked<R>(f: impl FnOnce() -> R) -> R {
    let _ = SUPPRESS.try_with(|s| s.set(s.get() + 1));
    let _guard = Unsuppress;
    f()
}

// ------------------------------------------------------------------------------------------
// violations, recently freed addresses, the journal of the scope
// ------------------------------------------------------------------------------------------

const V_DOUBLE_FREE: usize = 1;
const V_INVALID_FREE: usize = 2;
const V_SIZE: usize = 3;
const V_ALIGN: usize = 4;
/// added to the kind when the call was `realloc`
const V_REALLOC: usize = 16;

const VIOL_SLOTS: usize = 64;

struct Viol {
    kind: AtomicUsize,
    addr: AtomicUsize,
    /// what the caller passed (size, or alignment for `V_ALIGN`)
    given: AtomicUsize,
    /// what the table says (size / alignment; for a double free: the size it was freed with)
    recorded: AtomicUsize,
}

#[allow(clippy::declare_interior_mutable_const)]
const VIOL0: Viol = Viol {
    kind: AtomicUsize::new(0),
    addr: AtomicUsize::new(0),
    given: AtomicUsize::new(0),
    recorded: AtomicUsize::new(0),
};

static VIOLS: [Viol; VIOL_SLOTS] = [VIOL0; VIOL_SLOTS];
static VIOL_COUNT: AtomicUsize = AtomicUsize::new(0);

/// Diagnostics: print a backtrace to stderr at every violation (the drivers switch it on when
/// the environment variable `TALLOC_TRACE` is set)
static TRACE: AtomicBool = AtomicBool::new(false);

pub fn set_trace_violations(on: bool) {
    TRACE.store(on, Ordering::SeqCst);
}

/// Switches the diagnostics on if `TALLOC_TRACE` is set in the environment
pub fn trace_from_env() {
    if std::env::var_os("TALLOC_TRACE").is_some() {
        set_trace_violations(true);
    }
}

#[cold]
#[inline(never)]
fn violation(kind: usize, addr: usize, given: usize, recorded: usize) {
    if OVERFLOW.load(Ordering::Relaxed) {
        return;
    }
    if TRACE.load(Ordering::Relaxed) && SUPPRESS.try_with(|s| s.get() < 1000).unwrap_or(false) {
        let _ = SUPPRESS.try_with(|s| s.set(s.get() + 1000));
        eprintln!(
            "talloc: violation kind {kind} address {addr:#x} given {given} recorded {recorded}\n{}",
            std::backtrace::Backtrace::force_capture()
        );
        let _ = SUPPRESS.try_with(|s| s.set(s.get() - 1000));
    }
    let n = VIOL_COUNT.fetch_add(1, Ordering::AcqRel);
    let v = &VIOLS[n % VIOL_SLOTS];
    v.addr.store(addr, Ordering::Relaxed);
    v.given.store(given, Ordering::Relaxed);
    v.recorded.store(recorded, Ordering::Relaxed);
    v.kind.store(kind, Ordering::Release);
}

/// The last address (and its size) freed per hash class: tells a double free from a free of
/// something that never was a block
const FREED_SLOTS: usize = 1 << 14;
#[allow(clippy::declare_interior_mutable_const)]
const A0: AtomicUsize = AtomicUsize::new(0);
static FREED_ADDR: [AtomicUsize; FREED_SLOTS] = [A0; FREED_SLOTS];
static FREED_SIZE: [AtomicUsize; FREED_SLOTS] = [A0; FREED_SLOTS];

#[inline(always)]
fn note_freed(addr: usize, size: usize) {
    let i = home(addr) & (FREED_SLOTS - 1);
    FREED_SIZE[i].store(size, Ordering::Relaxed);
    FREED_ADDR[i].store(addr, Ordering::Relaxed);
}

fn freed_before(addr: usize) -> Option<usize> {
    let i = home(addr) & (FREED_SLOTS - 1);
    if FREED_ADDR[i].load(Ordering::Relaxed) == addr {
        Some(FREED_SIZE[i].load(Ordering::Relaxed))
    } else {
        None
    }
}

/// The table slots of the blocks tagged in the open scope (so that a leak report does not need
/// to scan the whole table); when it overflows the report falls back to the scan
const JOURNAL_SLOTS: usize = 1 << 16;
static JOURNAL: [AtomicUsize; JOURNAL_SLOTS] = [A0; JOURNAL_SLOTS];
static JOURNAL_LEN: AtomicUsize = AtomicUsize::new(0);

// ------------------------------------------------------------------------------------------
// the allocator
// ------------------------------------------------------------------------------------------

/// `#[global_allocator] static A: TrackingAlloc = TrackingAlloc;`
pub struct TrackingAlloc;

#[inline(always)]
fn meta_of(gen: usize, align: usize) -> usize {
    gen << 8 | align.trailing_zeros() as usize
}

#[inline(always)]
fn record_new(addr: usize, size: usize, align: usize, gen: usize) {
    if !INSTALLED.load(Ordering::Relaxed) {
        INSTALLED.store(true, Ordering::Relaxed);
    }
    match insert(addr, size, meta_of(gen, align)) {
        Some(slot) => {
            if gen != 0 {
                SCOPE_BLOCKS.fetch_add(1, Ordering::Relaxed);
                SCOPE_BYTES.fetch_add(size, Ordering::Relaxed);
                let j = JOURNAL_LEN.fetch_add(1, Ordering::Relaxed);
                if j < JOURNAL_SLOTS {
                    JOURNAL[j].store(slot, Ordering::Relaxed);
                }
            }
        }
        None => OVERFLOW.store(true, Ordering::SeqCst),
    }
}

/// Takes the block at `addr` out of the table after checking the layout the caller claims.
/// `Ok(meta)`: it was live (a wrong size / alignment has been recorded as a violation, the block
/// counts as released all the same); `Err(())`: it was not live (recorded).
#[inline(always)]
fn release(addr: usize, layout: Layout, call: usize) -> Result<(usize, bool), ()> {
    match find(addr) {
        Some(i) => {
            let slot = &TABLE[i];
            let size = slot.size.load(Ordering::Relaxed);
            let meta = slot.meta.load(Ordering::Relaxed);
            slot.key.store(TOMB, Ordering::Release);
            let gen = meta >> 8;
            if gen != 0 && gen == CUR_GEN.load(Ordering::Relaxed) {
                SCOPE_BLOCKS.fetch_sub(1, Ordering::Relaxed);
                SCOPE_BYTES.fetch_sub(size, Ordering::Relaxed);
            }
            note_freed(addr, size);
            let mut exact = true;
            if size != layout.size() {
                violation(V_SIZE + call, addr, layout.size(), size);
                exact = false;
            } else if (meta & 0xff) != layout.align().trailing_zeros() as usize {
                violation(V_ALIGN + call, addr, layout.align(), 1usize << (meta & 0xff));
                exact = false;
            }
            Ok((meta, exact))
        }
        None => {
            if OVERFLOW.load(Ordering::Relaxed) {
                // nothing is known any more: behave like the plain allocator
                return Ok((0, true));
            }
            match freed_before(addr) {
                Some(size) => violation(V_DOUBLE_FREE + call, addr, layout.size(), size),
                None => violation(V_INVALID_FREE + call, addr, layout.size(), 0),
            }
            Err(())
        }
    }
}

/// The byte freed memory is filled with
pub const POISON: u8 = 0xDD;
/// At most this many bytes at the head of a freed block are filled (a huge, mostly untouched block
/// would otherwise be paged in just to be thrown away)
const POISON_MAX: usize = 1 << 26;

/// Fills a block that is about to be freed (it was live and exactly described by the caller)
#[inline(always)]
unsafe fn poison(ptr: *mut u8, size: usize) {
    if !OVERFLOW.load(Ordering::Relaxed) {
        std::ptr::write_bytes(ptr, POISON, size.min(POISON_MAX));
    }
}

unsafe impl GlobalAlloc for TrackingAlloc {
    #[inline]
    unsafe fn alloc(&self, layout: Layout) -> *mut u8 {
        let p = System.alloc(layout);
        if !p.is_null() {
            record_new(p as usize, layout.size(), layout.align(), tag_now());
        }
        p
    }

    #[inline]
    unsafe fn alloc_zeroed(&self, layout: Layout) -> *mut u8 {
        let p = System.alloc_zeroed(layout);
        if !p.is_null() {
            record_new(p as usize, layout.size(), layout.align(), tag_now());
        }
        p
    }

    #[inline]
    unsafe fn dealloc(&self, ptr: *mut u8, layout: Layout) {
        match release(ptr as usize, layout, 0) {
            // `System` (malloc / free) does not look at the size; an alignment slip could send
            // the block to the wrong deallocation path, so only exact frees are forwarded
            Ok((_, true)) => {
                // whoever still reads the block after this point reads 0xDD (or whatever the
                // next owner writes), never the old content by luck
                poison(ptr, layout.size());
                System.dealloc(ptr, layout)
            }
            // a block freed with the wrong layout stays allocated (it is out of the table: the
            // program is done with it, and it is reported as a violation, not also as a leak)
            Ok((_, false)) => {}
            // not a live block: must not reach `System`
            Err(()) => {}
        }
    }

    #[inline]
    unsafe fn realloc(&self, ptr: *mut u8, layout: Layout, new_size: usize) -> *mut u8 {
        let addr = ptr as usize;
        let Some(i) = find(addr) else {
            if OVERFLOW.load(Ordering::Relaxed) {
                return System.realloc(ptr, layout, new_size);
            }
            // not a live block: record it, and give the caller a fresh block so that it can go on
            let _ = release(addr, layout, V_REALLOC);
            let fresh = self.alloc(Layout::from_size_align_unchecked(new_size, layout.align()));
            if !fresh.is_null() {
                std::ptr::copy_nonoverlapping(ptr, fresh, layout.size().min(new_size));
            }
            return fresh;
        };
        let slot = &TABLE[i];
        let size = slot.size.load(Ordering::Relaxed);
        let meta = slot.meta.load(Ordering::Relaxed);
        if size != layout.size() || (meta & 0xff) != layout.align().trailing_zeros() as usize {
            // live, but not with this layout: record, keep the old block out of `System`'s hands
            let _ = release(addr, layout, V_REALLOC);
            let fresh = self.alloc(Layout::from_size_align_unchecked(new_size, layout.align()));
            if !fresh.is_null() {
                std::ptr::copy_nonoverlapping(ptr, fresh, size.min(layout.size()).min(new_size));
            }
            return fresh;
        }
        // The entry leaves the table BEFORE `System` gets to free the block: the moment realloc has
        // released the old address another thread can be handed that address, and it must not
        // find this entry there.  (While the call runs the block is in nobody's table entry;
        // nobody but the caller may refer to it anyway.)
        let gen = meta >> 8;
        let counted = gen != 0 && gen == CUR_GEN.load(Ordering::Relaxed);
        if new_size < size {
            // A SHRINKING realloc always moves (any `GlobalAlloc` may; malloc never does): whoever
            // kept a pointer into the old block across the call is found out, because the old
            // block is filled with 0xDD and freed.
            let fresh = System.alloc(Layout::from_size_align_unchecked(new_size, layout.align()));
            if fresh.is_null() {
                // the old block is still the caller's, unchanged and still in the table
                return fresh;
            }
            std::ptr::copy_nonoverlapping(ptr, fresh, new_size);
            slot.key.store(TOMB, Ordering::Release);
            note_freed(addr, size);
            poison(ptr, size);
            System.dealloc(ptr, layout);
            // the shrunk block keeps the tag of the block it was made from
            match insert(fresh as usize, new_size, meta) {
                Some(new_slot) => {
                    if counted {
                        let j = JOURNAL_LEN.fetch_add(1, Ordering::Relaxed);
                        if j < JOURNAL_SLOTS {
                            JOURNAL[j].store(new_slot, Ordering::Relaxed);
                        }
                    }
                }
                None => OVERFLOW.store(true, Ordering::SeqCst),
            }
            if counted {
                SCOPE_BYTES.fetch_add(new_size, Ordering::Relaxed);
                SCOPE_BYTES.fetch_sub(size, Ordering::Relaxed);
            }
            return fresh;
        }
        slot.key.store(TOMB, Ordering::Release);
        let p = System.realloc(ptr, layout, new_size);
        // on failure the old block is still the caller's
        let (now_addr, now_size) = if p.is_null() { (addr, size) } else { (p as usize, new_size) };
        if now_addr != addr {
            note_freed(addr, size);
        }
        // the grown block keeps the tag of the block it was made from
        match insert(now_addr, now_size, meta) {
            Some(new_slot) => {
                if counted && new_slot != i {
                    let j = JOURNAL_LEN.fetch_add(1, Ordering::Relaxed);
                    if j < JOURNAL_SLOTS {
                        JOURNAL[j].store(new_slot, Ordering::Relaxed);
                    }
                }
            }
            None => OVERFLOW.store(true, Ordering::SeqCst),
        }
        if counted && now_size != size {
            SCOPE_BYTES.fetch_add(now_size, Ordering::Relaxed);
            SCOPE_BYTES.fetch_sub(size, Ordering::Relaxed);
        }
        p
    }
}

// ------------------------------------------------------------------------------------------
// scopes
// ------------------------------------------------------------------------------------------

/// What [`scope_begin`] hands to [`scope_end`]
#[derive(Clone, Copy, Debug)]
pub struct Snapshot {
    gen: usize,
    violations: usize,
}

/// The verdict of a scope
#[derive(Clone, Debug, Default)]
pub struct Report {
    /// blocks allocated in the scope by tracked threads that are still live
    pub leaked_blocks: usize,
    pub leaked_bytes: usize,
    /// one message per violation recorded in the scope
    pub violations: Vec<String>,
    /// (size, count) of the leaked blocks, largest size first, at most 8 entries
    pub largest_leaks: Vec<(usize, usize)>,
    /// the table overflowed at some point of the process: nothing can be said any more
    pub overflow: bool,
}

impl Report {
    pub fn is_clean(&self) -> bool {
        self.leaked_blocks == 0 && self.leaked_bytes == 0 && self.violations.is_empty()
    }

    /// The findings as monitor messages (property C04); `when` says what has been dropped,
    /// e.g. `every object of the case was dropped`
    pub fn messages(&self, when: &str) -> Vec<String> {
        untracked(|| {
            let mut out: Vec<String> = self.violations.clone();
            if self.leaked_blocks != 0 || self.leaked_bytes != 0 {
                let mut sizes = String::new();
                let mut listed = 0usize;
                for (i, (size, count)) in self.largest_leaks.iter().enumerate() {
                    if i > 0 {
                        sizes.push_str(", ");
                    }
                    sizes.push_str(&format!("{size}x{count}"));
                    listed += count;
                }
                if listed < self.leaked_blocks {
                    if !sizes.is_empty() {
                        sizes.push_str(", ");
                    }
                    sizes.push_str("...");
                }
                out.push(format!(
                    "leak: {} block{} / {} byte{} still allocated after {when} (sizes: {sizes})",
                    self.leaked_blocks,
                    if self.leaked_blocks == 1 { "" } else { "s" },
                    self.leaked_bytes,
                    if self.leaked_bytes == 1 { "" } else { "s" },
                ));
            }
            out
        })
    }
}

/// Opens a scope: from now on the allocations of tracked threads are tagged and counted
pub fn scope_begin() -> Snapshot {
    let gen = LAST_GEN.fetch_add(1, Ordering::SeqCst) + 1;
    SCOPE_BLOCKS.store(0, Ordering::SeqCst);
    SCOPE_BYTES.store(0, Ordering::SeqCst);
    JOURNAL_LEN.store(0, Ordering::SeqCst);
    let violations = VIOL_COUNT.load(Ordering::SeqCst);
    CUR_GEN.store(gen, Ordering::SeqCst);
    Snapshot { gen, violations }
}

fn describe(v: &Viol) -> String {
    let kind = v.kind.load(Ordering::Acquire);
    let addr = v.addr.load(Ordering::Relaxed);
    let given = v.given.load(Ordering::Relaxed);
    let recorded = v.recorded.load(Ordering::Relaxed);
    let call = if kind & V_REALLOC != 0 { "realloc" } else { "dealloc" };
    match kind & (V_REALLOC - 1) {
        V_DOUBLE_FREE => format!(
            "double free: {call} of {addr:#x} size {given} but that block (size {recorded}) has already been freed"
        ),
        V_INVALID_FREE => format!(
            "invalid free: {call} of {addr:#x} size {given} but no block is allocated at that address"
        ),
        V_SIZE => format!(
            "invalid free: {call} of {addr:#x} size {given} but it was allocated with size {recorded}"
        ),
        V_ALIGN => format!(
            "invalid free: {call} of {addr:#x} alignment {given} but it was allocated with alignment {recorded}"
        ),
        _ => format!("invalid free: {call} of {addr:#x} (unreadable record)"),
    }
}

/// Closes the scope: which blocks tagged in it are still live, which violations happened in it
pub fn scope_end(snapshot: Snapshot) -> Report {
    // stop tagging first: what the report itself allocates is not part of the scope
    CUR_GEN.store(0, Ordering::SeqCst);
    let blocks = SCOPE_BLOCKS.load(Ordering::SeqCst);
    let bytes = SCOPE_BYTES.load(Ordering::SeqCst);
    let v_end = VIOL_COUNT.load(Ordering::SeqCst);
    // reported once per process
    let overflow = OVERFLOW.load(Ordering::SeqCst) && !OVERFLOW_REPORTED.swap(true, Ordering::SeqCst);
    if blocks == 0 && bytes == 0 && v_end == snapshot.violations && !overflow {
        return Report::default();
    }
    let mut report = Report {
        overflow,
        ..Report::default()
    };
    if OVERFLOW.load(Ordering::SeqCst) {
        return report;
    }
    // ---- violations
    let n = v_end.wrapping_sub(snapshot.violations);
    let shown = n.min(VIOL_SLOTS);
    for k in (v_end - shown)..v_end {
        report.violations.push(describe(&VIOLS[k % VIOL_SLOTS]));
    }
    if n > shown {
        report
            .violations
            .push(format!("invalid free: {} more violations not shown", n - shown));
    }
    // ---- leaks
    if blocks != 0 || bytes != 0 {
        let mut found: Vec<(usize, usize)> = Vec::new(); // (address, size)
        let mut look = |i: usize| {
            let slot = &TABLE[i];
            let key = slot.key.load(Ordering::Acquire);
            if key > TOMB && slot.meta.load(Ordering::Acquire) >> 8 == snapshot.gen {
                found.push((key, slot.size.load(Ordering::Relaxed)));
            }
        };
        let journal = JOURNAL_LEN.load(Ordering::SeqCst);
        if journal <= JOURNAL_SLOTS {
            for j in 0..journal {
                look(JOURNAL[j].load(Ordering::Relaxed) & MASK);
            }
        } else {
            for i in 0..TABLE_SLOTS {
                look(i);
            }
        }
        found.sort_unstable();
        found.dedup();
        report.leaked_blocks = found.len();
        report.leaked_bytes = found.iter().map(|f| f.1).sum();
        if found.len() != blocks || report.leaked_bytes != bytes {
            // the counters and the table disagree (a block of the scope was released while the
            // scope was being closed?): report what the counters say, they are maintained on
            // every call
            report.leaked_blocks = blocks;
            report.leaked_bytes = bytes;
        }
        let mut sizes: Vec<usize> = found.iter().map(|f| f.1).collect();
        sizes.sort_unstable_by(|a, b| b.cmp(a));
        for s in sizes {
            match report.largest_leaks.last_mut() {
                Some((size, count)) if *size == s => *count += 1,
                _ => {
                    if report.largest_leaks.len() == 8 {
                        break;
                    }
                    report.largest_leaks.push((s, 1));
                }
            }
        }
    }
    report
}

/// (live blocks, live bytes) tagged in the open scope
pub fn live() -> (usize, usize) {
    (SCOPE_BLOCKS.load(Ordering::Relaxed), SCOPE_BYTES.load(Ordering::Relaxed))
}
