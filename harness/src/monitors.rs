//! Monitors: property checks that do not depend on any model.
//!
//! Per slot a *shadow* is kept of what the API itself has told us: the `(key index, string)`
//! pairs successful intern calls returned (copied on clone / view conversion, taken from the
//! document on deserialisation).  After every op the slots it touched are checked against
//! their shadow and their audit; findings are written as `M <id> <opno> <property> <message>`.

use crate::interp::{DocIn, DocOut, Ev, IHow, IResult, KeyT, Slot, SnapR, World};
use crate::{classify, hex, Kind, Ref, Snap};
use lasso::LassoErrorKind;
use std::collections::HashMap;
use std::fmt::Write as _;
use std::panic::{catch_unwind, AssertUnwindSafe};

/// Strings no case ever interns
const ABSENT_PROBES: [&str; 3] = [
    "\u{1}absent-a",
    "\u{1}absent-b",
    "\u{1}absent-longer-probe-c",
];

/// Where the findings go
#[derive(Default)]
pub struct MonSink {
    pub buffer: String,
    pub findings: usize,
}

impl MonSink {
    pub fn set_case(&mut self, _id: &str) {}

    pub fn report(&mut self, id: &str, opno: &str, property: &str, message: &str) {
        self.findings += 1;
        // the buffer outlives the case: not part of what the case must release
        crate::talloc::untracked(|| {
            let _ = writeln!(self.buffer, "M {id} {opno} {property} {message}");
        });
    }
}

struct Ctx<'a> {
    sink: &'a mut MonSink,
    id: &'a str,
    opno: &'a str,
}

impl Ctx<'_> {
    fn rep(&mut self, property: &str, message: impl AsRef<str>) {
        self.sink.report(self.id, self.opno, property, message.as_ref());
    }
}

/// What the API has told us about a slot so far
#[derive(Default, Clone, Debug)]
pub struct Shadow {
    pairs: Vec<(usize, String)>,
    by_str: HashMap<String, usize>,
    by_key: HashMap<usize, usize>,
    /// a resolver made by `DE resolver`: repeated strings and more strings than keys are fine
    pub loose: bool,
}

impl Shadow {
    pub fn pairs(&self) -> &[(usize, String)] {
        &self.pairs
    }

    pub fn len(&self) -> usize {
        self.pairs.len()
    }

    pub fn is_empty(&self) -> bool {
        self.pairs.is_empty()
    }

    pub fn key_of(&self, s: &str) -> Option<usize> {
        self.by_str.get(s).copied()
    }

    pub fn str_of(&self, k: usize) -> Option<&str> {
        self.by_key.get(&k).map(|pos| self.pairs[*pos].1.as_str())
    }

    /// Records a pair; `Err` describes a violation of "equal keys iff equal strings"
    pub fn add(&mut self, k: usize, s: &str) -> Result<bool, String> {
        if !self.loose {
            if let Some(prev) = self.by_str.get(s) {
                return if *prev == k {
                    Ok(false)
                } else {
                    Err(format!("string {} has the keys {} and {}", hex(s.as_bytes()), prev, k))
                };
            }
            if let Some(pos) = self.by_key.get(&k) {
                return Err(format!(
                    "key {} stands for {} and for {}",
                    k,
                    hex(self.pairs[*pos].1.as_bytes()),
                    hex(s.as_bytes())
                ));
            }
        }
        self.by_key.insert(k, self.pairs.len());
        self.by_str.insert(s.to_string(), k);
        self.pairs.push((k, s.to_string()));
        Ok(true)
    }

    pub fn clear(&mut self) {
        self.pairs.clear();
        self.by_str.clear();
        self.by_key.clear();
    }

    /// What the object's own `iter()` reports (used when a failed op left it "unspecified")
    fn rebuild_from(&mut self, snap: &Snap) {
        self.clear();
        for e in &snap.table {
            if let Ok(s) = std::str::from_utf8(&e.bytes) {
                let _ = self.add(e.idx, s);
            }
        }
    }
}

fn panic_message(payload: Box<dyn std::any::Any + Send>) -> String {
    if let Some(s) = payload.downcast_ref::<&str>() {
        (*s).to_string()
    } else if let Some(s) = payload.downcast_ref::<String>() {
        s.clone()
    } else {
        "non-string panic payload".to_string()
    }
}

/// `get` of every shadowed string, asked right before an `RD` conversion
pub fn pre_conversion_gets<K: KeyT>(slot: &Slot<K>) -> Vec<(String, Option<usize>)> {
    let mut answers = Vec::new();
    for (_, s) in slot.shadow.pairs() {
        let got = catch_unwind(AssertUnwindSafe(|| {
            slot.obj.m_get(s).map(|k| k.map(|k| k.into_usize()))
        }));
        if let Ok(Some(answer)) = got {
            answers.push((s.clone(), answer));
        }
    }
    answers
}

fn entry_at(snap: &Snap, idx: usize) -> Option<&crate::Entry> {
    snap.table
        .binary_search_by_key(&idx, |e| e.idx)
        .ok()
        .map(|pos| &snap.table[pos])
}

fn same_table(a: &Snap, b: &Snap) -> bool {
    a.table.len() == b.table.len()
        && a.table
            .iter()
            .zip(&b.table)
            // the bytes too: a table whose references survived but whose memory was freed or
            // rewritten underneath them (0xDD of `talloc`) is not the same table
            .all(|(x, y)| x.idx == y.idx && x.ptr == y.ptr && x.len == y.len && x.bytes == y.bytes)
}

fn same_content(a: &Snap, b: &Snap) -> bool {
    a.table.len() == b.table.len()
        && a.table
            .iter()
            .zip(&b.table)
            .all(|(x, y)| x.idx == y.idx && x.bytes == y.bytes)
}

fn same_block_use(a: &Snap, b: &Snap) -> bool {
    a.audit.memory_usage == b.audit.memory_usage
        && a.audit.blocks.len() == b.audit.blocks.len()
        && a.audit
            .blocks
            .iter()
            .zip(&b.audit.blocks)
            .all(|(x, y)| x.block == y.block && x.used == y.used && x.capacity == y.capacity)
}

/// C08: without a change of the limit, usage never passes max(limit, usage before)
fn check_budget(ctx: &mut Ctx<'_>, slot: usize, before: &Snap, after: &Snap) {
    if before.audit.max_memory_usage == after.audit.max_memory_usage {
        let bound = after.audit.max_memory_usage.max(before.audit.memory_usage);
        if after.audit.memory_usage > bound {
            ctx.rep(
                "C08",
                format!(
                    "slot {slot}: memory_usage {} exceeds max(limit {}, usage before {})",
                    after.audit.memory_usage, after.audit.max_memory_usage, before.audit.memory_usage
                ),
            );
        }
    }
}

/// C12: `clone` is a deep copy of `src`
fn check_clone(ctx: &mut Ctx<'_>, pool: &[&'static str], ci: usize, clone: &Snap, si: usize, src: &Snap) {
    if !same_content(clone, src) {
        ctx.rep("C12", format!("slot {ci}: the clone's table differs from the table of slot {si}"));
    }
    for cb in &clone.audit.blocks {
        for sb in &src.audit.blocks {
            if cb.block == sb.block || cb.data == sb.data {
                ctx.rep("C12", format!("slot {ci}: a block is shared with the source slot {si}"));
            }
        }
    }
    for e in &clone.table {
        if e.len > 0
            && src
                .audit
                .blocks
                .iter()
                .any(|b| e.ptr < b.data + b.capacity && b.data < e.ptr + e.len)
        {
            ctx.rep(
                "C12",
                format!("slot {ci}: key {} points into a block of the source slot {si}", e.idx),
            );
        }
        match classify(pool, &clone.audit, e.ptr, e.len) {
            Ref::Arena { .. } | Ref::Empty => {}
            Ref::Static(sidx) => ctx.rep(
                "C12",
                format!("slot {ci}: key {} of the clone is the static pool[{sidx}] itself", e.idx),
            ),
            Ref::Unknown => ctx.rep(
                "C12",
                format!("slot {ci}: key {} of the clone points outside its own arena", e.idx),
            ),
        }
    }
}

/// C04 across slots: no block belongs to two live objects
fn check_block_sharing(ctx: &mut Ctx<'_>, snaps: &[SnapR]) {
    // address -> (slot, position of the block); `block` and `data` of one block may coincide
    let mut owner: HashMap<usize, (usize, usize)> = HashMap::new();
    for (i, snap) in snaps.iter().enumerate() {
        if let SnapR::Live(snap) = snap {
            for (pos, b) in snap.audit.blocks.iter().enumerate() {
                for addr in [b.block, b.data] {
                    if let Some(prev) = owner.insert(addr, (i, pos)) {
                        if prev != (i, pos) {
                            ctx.rep(
                                "C04",
                                format!(
                                    "block address {addr:#x} occurs as block {} of slot {} and block {} of slot {}",
                                    prev.1, prev.0, pos, i
                                ),
                            );
                        }
                    }
                }
            }
        }
    }
}

/// The checks that hold for every live slot at every time
fn check_slot<K: KeyT>(world: &World<K>, i: usize, snap: &SnapR, ctx: &mut Ctx<'_>) {
    let slot = &world.slots[i];
    if slot.obj.is_dead() {
        return;
    }
    let snap = match snap {
        SnapR::Live(s) => s,
        SnapR::Panicked(_) => {
            ctx.rep("MON", format!("slot {i}: taking the snapshot (audit + iter) panicked"));
            return;
        }
        SnapR::Dead => return,
    };
    let obj = &slot.obj;
    let sh = &slot.shadow;
    let len = obj.m_len();

    // ---- C10 / C07: sizes ----
    if len != snap.len {
        ctx.rep("C10", format!("slot {i}: len() answered {} and then {}", snap.len, len));
    }
    if len != sh.len() {
        ctx.rep("C10", format!("slot {i}: len() = {} but {} strings were interned", len, sh.len()));
    }
    if obj.m_is_empty() != (len == 0) {
        ctx.rep("C10", format!("slot {i}: is_empty() disagrees with len() = {len}"));
    }
    if !sh.loose && len as u64 > world.keycap {
        ctx.rep("C07", format!("slot {i}: len() = {} exceeds the key capacity {}", len, world.keycap));
    }

    // ---- the table iter()/strings() showed, against the shadow ----
    if snap.table.len() != sh.len() {
        ctx.rep(
            "C10",
            format!("slot {i}: the iterator yields {} entries, {} strings were interned", snap.table.len(), sh.len()),
        );
    }
    for (pos, e) in snap.table.iter().enumerate() {
        if snap.kind != Kind::Threaded && e.idx != pos {
            ctx.rep("C10", format!("slot {i}: position {pos} of the table carries key {}", e.idx));
        }
        match sh.str_of(e.idx) {
            Some(s) if s.as_bytes() == &*e.bytes => {}
            Some(s) if !sh.loose => ctx.rep(
                "C01",
                format!(
                    "slot {i}: the iterator yields {} under key {}, interned was {}",
                    hex(&e.bytes),
                    e.idx,
                    hex(s.as_bytes())
                ),
            ),
            Some(_) => {}
            None => ctx.rep(
                "C10",
                format!("slot {i}: the iterator yields key {} ({}) which no call returned", e.idx, hex(&e.bytes)),
            ),
        }
    }

    // ---- C01 / C02 / C10 per shadowed pair ----
    let has_get = obj.m_get("").is_some();
    for (k, s) in sh.pairs() {
        let key = match K::try_from_usize(*k) {
            Some(key) => key,
            None => {
                if !sh.loose {
                    ctx.rep("C07", format!("slot {i}: key index {k} was returned but is not representable"));
                }
                continue;
            }
        };
        if !obj.m_contains_key(&key) {
            ctx.rep("C10", format!("slot {i}: contains_key({k}) is false for an interned key"));
        }
        match obj.m_try_resolve(&key) {
            None => ctx.rep("C01", format!("slot {i}: try_resolve({k}) is None, expected {}", hex(s.as_bytes()))),
            Some(r) if r != s => ctx.rep(
                "C01",
                format!("slot {i}: try_resolve({k}) = {}, expected {}", hex(r.as_bytes()), hex(s.as_bytes())),
            ),
            Some(r) => {
                let at = (r.as_ptr() as usize, r.len());
                match entry_at(snap, *k) {
                    Some(e) if (e.ptr, e.len) == at => {}
                    Some(_) => ctx.rep("C01", format!("slot {i}: iter() and try_resolve({k}) return different references")),
                    None => ctx.rep("C01", format!("slot {i}: iter() does not yield key {k}")),
                }
                let r2 = obj.m_resolve(&key);
                if (r2.as_ptr() as usize, r2.len()) != at {
                    ctx.rep("C01", format!("slot {i}: resolve({k}) and try_resolve({k}) return different references"));
                }
                let r3 = obj.m_index(key);
                if (r3.as_ptr() as usize, r3.len()) != at {
                    ctx.rep("C01", format!("slot {i}: Index[{k}] and try_resolve({k}) return different references"));
                }
                if *k < len && obj.m_contains_key(&key) {
                    // Safety: the key was just resolved by the checked methods
                    let r4 = unsafe { obj.m_resolve_unchecked(&key) };
                    if (r4.as_ptr() as usize, r4.len()) != at {
                        ctx.rep("C01", format!("slot {i}: resolve_unchecked({k}) and try_resolve({k}) return different references"));
                    }
                }
            }
        }
        if has_get {
            let got = obj.m_get(s).flatten().map(|k| k.into_usize());
            if got != Some(*k) {
                ctx.rep("C02", format!("slot {i}: get({}) = {:?}, expected key {}", hex(s.as_bytes()), got, k));
            }
            if obj.m_contains(s) != Some(true) {
                ctx.rep("C02", format!("slot {i}: contains({}) is false for an interned string", hex(s.as_bytes())));
            }
        }
    }
    if let Some(key) = K::try_from_usize(len) {
        if obj.m_contains_key(&key) {
            ctx.rep("C10", format!("slot {i}: contains_key(len = {len}) is true"));
        }
        if obj.m_try_resolve(&key).is_some() {
            ctx.rep("C10", format!("slot {i}: try_resolve(len = {len}) is Some"));
        }
    }
    if has_get {
        for probe in ABSENT_PROBES {
            if sh.key_of(probe).is_none() {
                if let Some(Some(k)) = obj.m_get(probe) {
                    ctx.rep("C02", format!("slot {i}: get of a never interned string answers key {}", k.into_usize()));
                }
                if obj.m_contains(probe) == Some(true) {
                    ctx.rep("C02", format!("slot {i}: contains of a never interned string is true"));
                }
            }
        }
    }

    // ---- C10: iter() proper ----
    let limit = usize::try_from(world.keycap).unwrap_or(usize::MAX);
    if let Some(report) = obj.m_iter_report(limit) {
        let expect = len.min(limit);
        if report.pairs.len() != expect {
            ctx.rep("C10", format!("slot {i}: iter() yields {} items, len() = {}", report.pairs.len(), len));
        }
        for (pos, (idx, ptr, l)) in report.pairs.iter().enumerate() {
            match snap.table.get(pos) {
                Some(e) if e.idx == *idx && e.ptr == *ptr && e.len == *l => {}
                _ => {
                    ctx.rep("C10", format!("slot {i}: iter() and strings() disagree at position {pos}"));
                    break;
                }
            }
        }
        if let Some(n) = report.exact_len {
            if n != len {
                ctx.rep("C10", format!("slot {i}: iter().len() = {n}, len() = {len}"));
            }
            if report.size_hint != (len, Some(len)) {
                ctx.rep("C10", format!("slot {i}: iter().size_hint() = {:?}, len() = {len}", report.size_hint));
            }
        }
        if report.strings_len != Some(len) {
            ctx.rep("C10", format!("slot {i}: strings() yields {:?} items, len() = {len}", report.strings_len));
        }
    }

    // ---- C04 / C08: geometry ----
    let audit = &snap.audit;
    let mut capacity_sum: usize = 0;
    for (pos, b) in audit.blocks.iter().enumerate() {
        if b.used > b.capacity {
            ctx.rep("C04", format!("slot {i}: block {pos} uses {} of {} bytes", b.used, b.capacity));
        }
        capacity_sum = capacity_sum.saturating_add(b.capacity);
    }
    if capacity_sum != audit.memory_usage {
        ctx.rep(
            "C08",
            format!("slot {i}: memory_usage = {} but the blocks hold {} bytes", audit.memory_usage, capacity_sum),
        );
    }
    if let Some(current) = obj.m_current() {
        if current != audit.memory_usage {
            ctx.rep("C08", format!("slot {i}: current_memory_usage() = {} but the arena says {}", current, audit.memory_usage));
        }
    }
    if let Some(max) = obj.m_max() {
        if max != audit.max_memory_usage {
            ctx.rep("C08", format!("slot {i}: max_memory_usage() = {} but the arena says {}", max, audit.max_memory_usage));
        }
    }
    let mut regions: Vec<(usize, usize, usize)> = Vec::new();
    for e in &snap.table {
        if e.len == 0 || matches!(classify(&world.pool, audit, e.ptr, e.len), Ref::Static(_)) {
            continue;
        }
        let holders = audit
            .blocks
            .iter()
            .filter(|b| e.ptr >= b.data && e.ptr + e.len <= b.data + b.used)
            .count();
        if holders != 1 {
            ctx.rep(
                "C04",
                format!("slot {i}: key {} ({}) lies within the used part of {} blocks", e.idx, hex(&e.bytes), holders),
            );
        }
        regions.push((e.ptr, e.len, e.idx));
    }
    regions.sort();
    for pair in regions.windows(2) {
        if pair[0].0 + pair[0].1 > pair[1].0 {
            ctx.rep("C04", format!("slot {i}: the strings of the keys {} and {} overlap", pair[0].2, pair[1].2));
        }
    }
}

/// After `EX` / `FI`: learn the keys of the given strings from `get`
fn learn_from_get<K: KeyT>(world: &mut World<K>, slot: usize, list: &[String], complete: bool, ctx: &mut Ctx<'_>) {
    for s in list {
        let got = world.slots[slot].obj.m_get(s).flatten().map(|k| k.into_usize());
        let sh = &mut world.slots[slot].shadow;
        match got {
            Some(k) => {
                if sh.key_of(s).is_none() {
                    if k != sh.len() {
                        ctx.rep("C10", format!("slot {slot}: new string {} got key {}, {} strings were interned before", hex(s.as_bytes()), k, sh.len()));
                    }
                    if sh.str_of(k).is_some() {
                        ctx.rep("C07", format!("slot {slot}: key {k} was handed out twice"));
                    }
                }
                if let Err(msg) = sh.add(k, s) {
                    ctx.rep("C02", format!("slot {slot}: {msg}"));
                }
            }
            None => {
                if complete {
                    ctx.rep("C02", format!("slot {slot}: {} was interned but get answers None", hex(s.as_bytes())));
                }
            }
        }
    }
}

/// The shadow of a slot that holds what a document says (`DE`, an accepted `DEI`)
fn shadow_from_doc<K: KeyT>(world: &mut World<K>, new: usize, kind: Kind, doc: &DocIn, ctx: &mut Ctx<'_>) {
    let sh = &mut world.slots[new].shadow;
    sh.clear();
    sh.loose = kind == Kind::Resolver;
    match doc {
        DocIn::List(items) => {
            for (i, s) in items.iter().enumerate() {
                if let Err(msg) = sh.add(i, s) {
                    ctx.rep("C02", format!("slot {new}: accepted document: {msg}"));
                }
            }
        }
        DocIn::Map(entries) => {
            // the parser resolves repeated strings last-wins
            let mut last: Vec<(&str, &str)> = Vec::new();
            for (s, raw) in entries {
                match last.iter_mut().find(|(t, _)| *t == s.as_str()) {
                    Some(slot) => slot.1 = raw,
                    None => last.push((s, raw)),
                }
            }
            let mut pairs: Vec<(usize, &str)> = Vec::new();
            for (s, raw) in last {
                match raw.parse::<u64>() {
                    Ok(raw) if raw >= 1 => pairs.push(((raw - 1) as usize, s)),
                    _ => ctx.rep("C14", format!("slot {new}: a document with the raw key {raw} was accepted")),
                }
            }
            pairs.sort();
            for (k, s) in pairs {
                if let Err(msg) = sh.add(k, s) {
                    ctx.rep("C02", format!("slot {new}: accepted document: {msg}"));
                }
            }
        }
    }
}

/// C15 for `DEI` (serde's contract: the default `deserialize_in_place` is `*place = T::deserialize(d)?`): a refused
/// document leaves the slot as it was, an accepted one leaves what `DE` creates from it; the two agree on which
/// documents they accept.  Also brings the shadow in line, so that `check_slot` can judge the slot afterwards.
#[allow(clippy::too_many_arguments)]
fn check_dei<K: KeyT>(
    world: &mut World<K>,
    slot: usize,
    kind: Kind,
    doc: &DocIn,
    res: Option<bool>,
    before: &SnapR,
    reference: Option<&Snap>,
    now: &SnapR,
    ctx: &mut Ctx<'_>,
) {
    // monitor-only cases keep no shadow of their own: there it is what the object itself showed before the call
    let light = world.id.starts_with("MO-");
    match res {
        Some(true) => {
            shadow_from_doc(world, slot, kind, doc, ctx);
            match (reference, now.live()) {
                (None, _) => ctx.rep("C15", format!("slot {slot}: deserialize_in_place accepted a document that deserialize refuses")),
                (Some(r), Some(n)) => {
                    if r.len != n.len || !same_content(r, n) {
                        ctx.rep("C15", format!("slot {slot}: after deserialize_in_place the table is not the one deserialize creates from the same document ({} vs {} entries)", n.table.len(), r.table.len()));
                    }
                    if r.audit.max_memory_usage != n.audit.max_memory_usage {
                        ctx.rep("C15", format!("slot {slot}: after deserialize_in_place the memory limit is {}, deserialize creates an object with {}", n.audit.max_memory_usage, r.audit.max_memory_usage));
                    }
                }
                (Some(_), None) => {}
            }
        }
        Some(false) => {
            if reference.is_some() {
                ctx.rep("C15", format!("slot {slot}: deserialize_in_place refused a document that deserialize accepts"));
            }
            if light {
                if let Some(b) = before.live() {
                    let sh = &mut world.slots[slot].shadow;
                    sh.loose = kind == Kind::Resolver;
                    sh.rebuild_from(b);
                }
            }
            if let (Some(b), Some(n)) = (before.live(), now.live()) {
                let same = b.len == n.len
                    && same_table(b, n)
                    && same_block_use(b, n)
                    && b.audit.max_memory_usage == n.audit.max_memory_usage;
                if !same {
                    ctx.rep(
                        "C15",
                        format!(
                            "slot {slot}: a refused document changed the object (len {} -> {}, {} -> {} table entries, {} -> {} blocks)",
                            b.len, n.len, b.table.len(), n.table.len(), b.audit.blocks.len(), n.audit.blocks.len()
                        ),
                    );
                }
            }
        }
        None => {
            // a panic leaves a valid object with unspecified content: it must at least be consistent with itself
            if let Some(n) = now.live() {
                let sh = &mut world.slots[slot].shadow;
                sh.loose = kind == Kind::Resolver;
                sh.rebuild_from(n);
            }
        }
    }
}

fn after_op_inner<K: KeyT>(world: &mut World<K>, ev: &Ev, snaps: Option<&[SnapR]>, ctx: &mut Ctx<'_>) {
    static DEAD: SnapR = SnapR::Dead;
    // the state of slot i after the op (`slot.last` is the state before it)
    let after = |i: usize| -> &SnapR {
        match snaps {
            Some(s) => s.get(i).unwrap_or(&DEAD),
            None => &DEAD,
        }
    };
    let mut touched: Vec<usize> = Vec::new();

    match ev {
        Ev::Nothing => {}
        Ev::Read { slots } => touched.extend(slots),
        Ev::Created { slot } | Ev::Limit { slot } => touched.push(*slot),

        Ev::Intern { slot, s, how, res } => {
            let slot = *slot;
            touched.push(slot);
            let before = std::mem::replace(&mut world.slots[slot].last, SnapR::Dead);
            let now = after(slot);
            if let (Some(before), Some(now)) = (before.live(), now.live()) {
                let pool_ref = match how {
                    IHow::CopyOfPool(sidx) | IHow::Static(sidx) => world.pool.get(*sidx).copied(),
                    IHow::Copy => None,
                };
                let is_static = matches!(how, IHow::Static(_));
                match res {
                    IResult::Key(k) => {
                        let k = *k;
                        let known = world.slots[slot].shadow.key_of(s);
                        match known {
                            Some(prev) => {
                                if prev != k {
                                    ctx.rep("C02", format!("slot {slot}: interning {} again returned key {}, before it was {}", hex(s.as_bytes()), k, prev));
                                }
                                if is_static {
                                    if let (Some(b), Some(a)) = (entry_at(before, prev), entry_at(now, prev)) {
                                        if (b.ptr, b.len) != (a.ptr, a.len) {
                                            ctx.rep("C16", format!("slot {slot}: a static intern of a present string replaced the stored reference of key {prev}"));
                                        }
                                    }
                                }
                            }
                            None => {
                                let sh = &mut world.slots[slot].shadow;
                                if k != sh.len() {
                                    ctx.rep("C10", format!("slot {slot}: new string {} got key {}, {} strings were interned before", hex(s.as_bytes()), k, sh.len()));
                                }
                                if sh.str_of(k).is_some() {
                                    ctx.rep("C07", format!("slot {slot}: success returned key {k} which already stands for another string"));
                                }
                                if let Err(msg) = sh.add(k, s) {
                                    ctx.rep("C02", format!("slot {slot}: {msg}"));
                                }
                                let stored = entry_at(now, k).map(|e| (e.ptr, e.len));
                                match (how, pool_ref, stored) {
                                    (IHow::Static(sidx), Some(p), Some(at)) => {
                                        if at != (p.as_ptr() as usize, p.len()) {
                                            ctx.rep("C16", format!("slot {slot}: key {k} does not resolve to pool[{sidx}] itself"));
                                        }
                                        if now.audit.memory_usage != before.audit.memory_usage {
                                            ctx.rep("C16", format!("slot {slot}: a static intern changed memory_usage"));
                                        }
                                    }
                                    (IHow::CopyOfPool(sidx), Some(p), Some(at)) => {
                                        if !s.is_empty() && at.0 == p.as_ptr() as usize {
                                            ctx.rep("C16", format!("slot {slot}: the copying entry point stored the caller's pointer pool[{sidx}] under key {k}"));
                                        }
                                    }
                                    _ => {}
                                }
                            }
                        }
                    }
                    IResult::Err(_) | IResult::Panic => {
                        if now.len != before.len {
                            ctx.rep("C07", format!("slot {slot}: a failed intern changed len() from {} to {}", before.len, now.len));
                        }
                        if !same_table(before, now) {
                            ctx.rep("C07", format!("slot {slot}: a failed intern changed the string table"));
                        }
                        if let Some(Some(k)) = world.slots[slot].obj.m_get(s) {
                            ctx.rep("C07", format!("slot {slot}: the string of a failed intern is found under key {}", k.into_usize()));
                        }
                        match res {
                            IResult::Err(LassoErrorKind::KeySpaceExhaustion) => {
                                if (before.len as u64) < world.keycap {
                                    ctx.rep("C07", format!("slot {slot}: E:key with len() = {} below the key capacity {}", before.len, world.keycap));
                                }
                            }
                            IResult::Err(LassoErrorKind::MemoryLimitReached) => {
                                let fits = before
                                    .audit
                                    .memory_usage
                                    .checked_add(s.len())
                                    .map_or(false, |need| need <= before.audit.max_memory_usage);
                                if is_static {
                                    ctx.rep("C08", format!("slot {slot}: a static intern returned E:mem"));
                                } else if fits {
                                    ctx.rep(
                                        "C08",
                                        format!(
                                            "slot {slot}: E:mem although usage {} + {} bytes fits the limit {}",
                                            before.audit.memory_usage,
                                            s.len(),
                                            before.audit.max_memory_usage
                                        ),
                                    );
                                }
                            }
                            _ => {}
                        }
                    }
                }
                if (is_static || s.is_empty()) && !same_block_use(before, now) {
                    ctx.rep("C08", format!("slot {slot}: interning {} changed the arena", if is_static { "a static" } else { "the empty string" }));
                }
                check_budget(ctx, slot, before, now);
            }
            world.slots[slot].last = before;
        }

        Ev::Clear { slot, ok, before: pairs } => {
            let slot = *slot;
            touched.push(slot);
            let now = after(slot);
            if *ok {
                world.slots[slot].shadow.clear();
                let obj = &world.slots[slot].obj;
                if obj.m_len() != 0 {
                    ctx.rep("C13", format!("slot {slot}: len() = {} after clear", obj.m_len()));
                }
                if let Some(now) = now.live() {
                    if !now.table.is_empty() {
                        ctx.rep("C13", format!("slot {slot}: iter() yields {} items after clear", now.table.len()));
                    }
                }
                for (k, s) in pairs {
                    if let Some(key) = K::try_from_usize(*k) {
                        if obj.m_try_resolve(&key).is_some() {
                            ctx.rep("C13", format!("slot {slot}: key {k} still resolves after clear"));
                        }
                        if obj.m_contains_key(&key) {
                            ctx.rep("C13", format!("slot {slot}: contains_key({k}) is true after clear"));
                        }
                    }
                    if let Some(Some(k)) = obj.m_get(s) {
                        ctx.rep("C13", format!("slot {slot}: get({}) = {} after clear", hex(s.as_bytes()), k.into_usize()));
                    }
                }
            } else if let Some(now) = now.live() {
                world.slots[slot].shadow.rebuild_from(now);
            }
            if let (Some(before), Some(now)) = (world.slots[slot].last.live(), now.live()) {
                check_budget(ctx, slot, before, now);
            }
        }

        Ev::Clone { src, new } => {
            touched.push(*src);
            if let Some(new) = new {
                touched.push(*new);
                world.slots[*new].shadow = world.slots[*src].shadow.clone();
                let (c, s) = (after(*new), after(*src));
                if let (Some(c), Some(s)) = (c.live(), s.live()) {
                    check_clone(ctx, &world.pool, *new, c, *src, s);
                    if c.audit.memory_usage > c.audit.max_memory_usage {
                        ctx.rep("C08", format!("slot {new}: the clone uses {} bytes, its limit is {}", c.audit.memory_usage, c.audit.max_memory_usage));
                    }
                }
            }
        }

        Ev::CloneFrom { dst, src, ok } => {
            touched.push(*dst);
            touched.push(*src);
            let (d, s) = (after(*dst), after(*src));
            if *ok {
                world.slots[*dst].shadow = world.slots[*src].shadow.clone();
                if let (Some(d), Some(s)) = (d.live(), s.live()) {
                    check_clone(ctx, &world.pool, *dst, d, *src, s);
                }
            } else if let Some(d) = d.live() {
                world.slots[*dst].shadow.loose = false;
                world.slots[*dst].shadow.rebuild_from(d);
            }
            if let (Some(before), Some(now)) = (world.slots[*dst].last.live(), d.live()) {
                check_budget(ctx, *dst, before, now);
            }
        }

        Ev::Drop { slot } => world.slots[*slot].shadow.clear(),

        Ev::IntoReader { slot, pre_gets, ok } => {
            let slot = *slot;
            if *ok {
                touched.push(slot);
                let now = after(slot);
                if let (Some(before), Some(now)) = (world.slots[slot].last.live(), now.live()) {
                    if !same_table(before, now) {
                        ctx.rep("C06", format!("slot {slot}: into_reader changed the string table"));
                    }
                }
                for (s, pre) in pre_gets {
                    let got = world.slots[slot].obj.m_get(s).flatten().map(|k| k.into_usize());
                    if got != *pre {
                        ctx.rep("C06", format!("slot {slot}: get({}) was {:?} before into_reader and is {:?} after", hex(s.as_bytes()), pre, got));
                    }
                }
            } else {
                world.slots[slot].shadow.clear();
            }
        }

        Ev::IntoResolver { slot, ok } => {
            let slot = *slot;
            if *ok {
                touched.push(slot);
                let now = after(slot);
                if let (Some(before), Some(now)) = (world.slots[slot].last.live(), now.live()) {
                    if !same_table(before, now) {
                        ctx.rep("C06", format!("slot {slot}: into_resolver changed the string table"));
                    }
                }
            } else {
                world.slots[slot].shadow.clear();
            }
        }

        Ev::Ser { slot, doc } => {
            let slot = *slot;
            touched.push(slot);
            match (doc, world.slots[slot].last.live()) {
                (None, _) => ctx.rep("C14", format!("slot {slot}: the serialized document does not re-parse")),
                (Some(DocOut::List(items)), Some(snap)) => {
                    let same = snap.kind != Kind::Threaded
                        && items.len() == snap.table.len()
                        && items.iter().zip(&snap.table).all(|(s, e)| s.as_bytes() == &*e.bytes);
                    if !same {
                        ctx.rep("C14", format!("slot {slot}: the serialized list is not the string table"));
                    }
                }
                (Some(DocOut::Map(entries)), Some(snap)) => {
                    let mut want: Vec<(u64, &[u8])> = snap.table.iter().map(|e| (e.idx as u64 + 1, &*e.bytes)).collect();
                    let mut have: Vec<(u64, &[u8])> = entries.iter().map(|(s, raw)| (*raw, s.as_bytes())).collect();
                    want.sort();
                    have.sort();
                    if snap.kind != Kind::Threaded || want != have {
                        ctx.rep("C14", format!("slot {slot}: the serialized map is not the string table"));
                    }
                }
                (Some(_), None) => {}
            }
        }

        Ev::De { new, kind, doc } => {
            if let Some(new) = new {
                touched.push(*new);
                shadow_from_doc(world, *new, *kind, doc, ctx);
            }
        }

        Ev::DeInPlace { slot, kind, doc, res, before, reference } => {
            let slot = *slot;
            touched.push(slot);
            check_dei(world, slot, *kind, doc, *res, before, reference.as_ref(), after(slot), ctx);
        }

        Ev::Leaked { slots } => {
            for slot in slots {
                world.slots[*slot].shadow.clear();
            }
        }

        Ev::Eq { i, j, eq, ne, rev } => {
            touched.push(*i);
            if i != j {
                touched.push(*j);
            }
            if let (Some(a), Some(b)) = (world.slots[*i].last.live(), world.slots[*j].last.live()) {
                let expected = a.len == b.len && same_content(a, b);
                if *eq != Some(expected) {
                    ctx.rep("C18", format!("slot {i} == slot {j} answered {:?}, the tables say {}", eq, expected));
                }
                if *ne != Some(!expected) {
                    ctx.rep("C18", format!("slot {i} != slot {j} answered {:?}, the tables say {}", ne, !expected));
                }
                if let Some(rev) = rev {
                    if *rev != Some(expected) {
                        ctx.rep("C18", format!("slot {j} == slot {i} answered {:?}, the tables say {}", rev, expected));
                    }
                }
            }
        }

        Ev::FromIter { new, list } => {
            if let Some(new) = new {
                touched.push(*new);
                learn_from_get(world, *new, list, true, ctx);
            }
        }

        Ev::Extend { slot, list, ok } => {
            touched.push(*slot);
            learn_from_get(world, *slot, list, *ok, ctx);
            let now = after(*slot);
            if let (Some(before), Some(now)) = (world.slots[*slot].last.live(), now.live()) {
                check_budget(ctx, *slot, before, now);
            }
        }
    }

    for i in touched {
        match snaps {
            Some(s) => check_slot(world, i, s.get(i).unwrap_or(&DEAD), ctx),
            None => check_slot(world, i, &world.slots[i].last, ctx),
        }
    }
    if let Some(snaps) = snaps {
        check_block_sharing(ctx, snaps);
    }
}

/// Runs the monitors for one op. `snaps` are the snapshots taken after a mutating op
/// (`world.slots[i].last` still holds the state before the op)
pub fn after_op<K: KeyT>(
    world: &mut World<K>,
    ev: &Ev,
    opno: &str,
    snaps: Option<&[SnapR]>,
    sink: &mut MonSink,
) {
    let id = world.id.clone();
    let outcome = catch_unwind(AssertUnwindSafe(|| {
        let mut ctx = Ctx {
            sink: &mut *sink,
            id: &id,
            opno,
        };
        after_op_inner(world, ev, snaps, &mut ctx);
    }));
    if let Err(payload) = outcome {
        sink.report(&id, opno, "MON", &format!("internal: monitor panicked: {}", panic_message(payload)));
    }
}

/// The end-of-case check of every slot
pub fn at_end<K: KeyT>(world: &mut World<K>, snaps: &[SnapR], sink: &mut MonSink) {
    let id = world.id.clone();
    for i in 0..world.slots.len() {
        let outcome = catch_unwind(AssertUnwindSafe(|| {
            let mut ctx = Ctx {
                sink: &mut *sink,
                id: &id,
                opno: "end",
            };
            check_slot(world, i, &snaps[i], &mut ctx);
        }));
        if let Err(payload) = outcome {
            sink.report(&id, "end", "MON", &format!("internal: monitor panicked: {}", panic_message(payload)));
        }
    }
    let mut ctx = Ctx {
        sink: &mut *sink,
        id: &id,
        opno: "end",
    };
    check_block_sharing(&mut ctx, snaps);
}

/// The end-of-case check of some slots of a monitor-only case (those a `DEI` touched).  `rebuild`: other ops changed
/// the slots since, so the shadow is first brought to what the object itself shows (self-consistency only).
pub fn at_end_slots<K: KeyT>(world: &mut World<K>, slots: &[usize], rebuild: bool, sink: &mut MonSink) {
    let id = world.id.clone();
    let snaps = world.snap_all();
    for &i in slots {
        let outcome = catch_unwind(AssertUnwindSafe(|| {
            let mut ctx = Ctx { sink: &mut *sink, id: &id, opno: "end" };
            if rebuild {
                if let Some(snap) = snaps[i].live() {
                    let sh = &mut world.slots[i].shadow;
                    sh.loose = snap.kind == Kind::Resolver;
                    sh.rebuild_from(snap);
                }
            }
            check_slot(world, i, &snaps[i], &mut ctx);
        }));
        if let Err(payload) = outcome {
            sink.report(&id, "end", "MON", &format!("internal: monitor panicked: {}", panic_message(payload)));
        }
    }
    let mut ctx = Ctx { sink: &mut *sink, id: &id, opno: "end" };
    check_block_sharing(&mut ctx, &snaps);
}
