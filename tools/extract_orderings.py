#!/usr/bin/env python3
"""extract_orderings.py -- extract the memory orderings of the atomic sites of the lock-free arena from the Rust
sources and emit /verif/coq/Orderings.v (Definition ord_of : site -> ordering, plus textual-order facts).

  LASSO_REPO     (default /repo)        root of the lasso checkout
  VERIF_COQ_DIR  (default /verif/coq)   where Orderings.v is written

Self-checks: every `Ordering::X` token of atomic_bucket.rs and lockfree.rs must be attributed to exactly one known
site, or lie in an explicitly listed excluded region (impl Drop, impl Debug, #[cfg(test)] modules, #[cfg(lasso_verif)]
audit functions).  Anything else: exit 3 "LOST TRACK".
"""
import os, re, sys

REPO = os.environ.get("LASSO_REPO", "/repo")
OUT = os.environ.get("VERIF_COQ_DIR", "/verif/coq")
ORDERINGS = ["Relaxed", "Acquire", "Release", "AcqRel", "SeqCst"]


def lost(msg):
    sys.stderr.write("LOST TRACK: %s\n" % msg)
    sys.exit(3)


def strip_comments(src):
    """blank out // comments (keeping offsets and newlines)"""
    out = []
    for line in src.split("\n"):
        i = line.find("//")
        out.append(line if i < 0 else line[:i] + " " * (len(line) - i))
    return "\n".join(out)


def match_brace(src, i):
    """src[i] == '{' -> index just after the matching '}'"""
    assert src[i] == "{"
    d = 0
    for j in range(i, len(src)):
        if src[j] == "{":
            d += 1
        elif src[j] == "}":
            d -= 1
            if d == 0:
                return j + 1
    lost("unbalanced braces")


def blocks(src, header_re):
    """all (match, body_start, body_end) for headers matching header_re followed by a { block }"""
    res = []
    for m in re.finditer(header_re, src):
        b = src.find("{", m.end() - 1)
        if b < 0:
            continue
        res.append((m, b, match_brace(src, b)))
    return res


def fn_body(src, lo, hi, name, which=0):
    """span of the body of the which-th `fn name` within src[lo:hi]"""
    ms = [m for m in re.finditer(r"\bfn\s+%s\b" % re.escape(name), src[lo:hi])]
    if len(ms) <= which:
        lost("function %s not found" % name)
    b = src.find("{", lo + ms[which].end())
    return b, match_brace(src, b)


def tokens(src, lo, hi):
    return [(lo + m.start(), m.group(1)) for m in re.finditer(r"Ordering::(\w+)", src[lo:hi])]


class File:
    def __init__(self, rel):
        self.rel = rel
        path = os.path.join(REPO, rel)
        try:
            self.src = strip_comments(open(path).read())
        except OSError as e:
            lost("cannot read %s: %s" % (path, e))
        self.claimed = {}   # token offset -> site or "excluded:<why>"
        self.sites = {}

    def claim(self, off, what):
        if off in self.claimed:
            lost("%s: token at %d claimed twice (%s, %s)" % (self.rel, off, self.claimed[off], what))
        self.claimed[off] = what

    def exclude(self, lo, hi, why):
        self.spans = getattr(self, "spans", []) + [(lo, hi)]
        n = 0
        for off, _ in tokens(self.src, lo, hi):
            self.claim(off, "excluded:" + why)
            n += 1
        return n

    def expect(self, lo, hi, spec, where):
        """spec: list of (site, regex that the text between the previous token (or lo) and this token must match)"""
        toks = tokens(self.src, lo, hi)
        if len(toks) != len(spec):
            lost("%s: %s has %d Ordering tokens, expected %d" % (self.rel, where, len(toks), len(spec)))
        prev = lo
        for (off, val), (site, ctx) in zip(toks, spec):
            between = self.src[prev:off]
            if not re.search(ctx, between, re.S):
                lost("%s: %s: token for %s not in the expected context /%s/" % (self.rel, where, site, ctx))
            if val not in ORDERINGS:
                lost("%s: unknown ordering %s" % (self.rel, val))
            if site in self.sites and self.sites[site] != val:
                lost("%s: site %s has two different orderings" % (self.rel, site))
            self.sites[site] = val
            self.claim(off, site)
            prev = off + len("Ordering::") + len(val)

    def finish(self):
        for off, val in tokens(self.src, 0, len(self.src)):
            if off not in self.claimed:
                line = self.src.count("\n", 0, off) + 1
                lost("%s:%d: Ordering::%s belongs to no known site" % (self.rel, line, val))


def impl_blocks(f, header_re):
    return [(b, e) for _, b, e in blocks(f.src, header_re)]


ATOMIC_METHODS = ("load", "store", "compare_exchange_weak", "compare_exchange", "fetch_update", "fetch_add", "fetch_sub",
                  "swap", "fetch_max", "fetch_min", "fetch_or", "fetch_and", "fetch_xor", "fetch_nand")


def match_paren(src, i):
    assert src[i] == "("
    d = 0
    for j in range(i, len(src)):
        if src[j] == "(":
            d += 1
        elif src[j] == ")":
            d -= 1
            if d == 0:
                return j + 1
    lost("unbalanced parentheses")


def enclosing_fn(src, off):
    """(name, body_start, body_end) of the innermost `fn` whose body contains off"""
    best = None
    for m in re.finditer(r"\bfn\s+(\w+)", src):
        if m.start() > off:
            break
        b = src.find("{", m.end())
        semi = src.find(";", m.end())
        if b < 0 or (0 <= semi < b):
            continue
        e = match_brace(src, b)
        if b <= off < e and (best is None or b > best[1]):
            best = (m.group(1), b, e)
    return best


def trailing_name(expr):
    """the field / local / method name an expression ends in:  self.head -> head; (*p).next -> next; self.length() -> length"""
    m = re.search(r"([A-Za-z_]\w*)\s*(?:\(\s*\))?\s*$", expr)
    return m.group(1) if m else None


def resolve(f, name, off, classes, depth=0):
    """map the receiver name of an atomic call to a location class: a known field, a local bound to one
    (`let length = self.length();`), or a helper method returning a reference to one"""
    if depth > 4:
        lost("%s: receiver %s: alias chain too long" % (f.rel, name))
    if name in classes:
        return classes[name]
    fn = enclosing_fn(f.src, off)
    if fn:
        binds = [m for m in re.finditer(r"\blet\s+(?:mut\s+)?%s\s*(?::[^=;]+)?=\s*([^;]+);" % re.escape(name), f.src[fn[1]:off])]
        if binds:
            t = trailing_name(binds[-1].group(1))
            if t and t != name:
                return resolve(f, t, fn[1] + binds[-1].start(), classes, depth + 1)
    defs = [m for m in re.finditer(r"\bfn\s+%s\s*\([^)]*\)\s*->\s*&[^{;]*Atomic\w+[^{;]*\{" % re.escape(name), f.src)]
    if len(defs) == 1:
        b = f.src.rfind("{", defs[0].start(), defs[0].end())
        body = f.src[b:match_brace(f.src, b)]
        flds = re.findall(r"\)\s*\.\s*([A-Za-z_]\w*)\s*\)", body) + re.findall(r"\bself\s*\.\s*([A-Za-z_]\w*)\b(?!\s*\()", body)
        flds = [x for x in flds if x in classes]
        if len(set(flds)) == 1:
            return classes[flds[0]]
    line = f.src.count("\n", 0, off) + 1
    lost("%s:%d: an atomic access through `%s`, which is no atomic location this model knows" % (f.rel, line, name))


def strength(o):
    return {"Relaxed": (0, 0, 0), "Acquire": (1, 0, 0), "Release": (0, 1, 0), "AcqRel": (1, 1, 0), "SeqCst": (1, 1, 1)}[o]


def weakest(os_):
    """the meet of a set of orderings (what every one of them guarantees)"""
    a = min(strength(o)[0] for o in os_); r = min(strength(o)[1] for o in os_); c = min(strength(o)[2] for o in os_)
    return "SeqCst" if c else {(0, 0): "Relaxed", (1, 0): "Acquire", (0, 1): "Release", (1, 1): "AcqRel"}[(a, r)]


def attribute(f, classes, table):
    """Attribute every Ordering token outside the excluded regions to a site, by the atomic LOCATION and OPERATION of the
    call it is an argument of (not by the function it stands in: helpers may be split off or inlined).
    table: (class, method) -> tuple of site names, one per Ordering argument.  A site met several times gets the weakest
    of its orderings (sound: the theorem is then about a configuration at most as strong as every occurrence)."""
    calls = []
    for m in re.finditer(r"\.\s*(%s)\s*\(" % "|".join(ATOMIC_METHODS), f.src):
        op = f.src.index("(", m.end() - 1)
        cl = match_paren(f.src, op)
        if tokens(f.src, op, cl):
            calls.append((cl - op, m.start(), op, cl, m.group(1)))
    found = {}
    for _, dot, op, cl, meth in sorted(calls):          # innermost calls first: they claim their own tokens
        mine = [(off, v) for off, v in tokens(f.src, op, cl) if off not in f.claimed]
        if not mine:
            continue
        if any(w.startswith("excluded:") for off, w in f.claimed.items() if op <= off < cl):
            lost("%s: an atomic call straddles an excluded region" % f.rel)
        recv = trailing_name(f.src[max(0, dot - 200):dot])
        line = f.src.count("\n", 0, dot) + 1
        if recv is None:
            lost("%s:%d: cannot read the receiver of .%s(..)" % (f.rel, line, meth))
        cls = resolve(f, recv, dot, classes)
        sites = table.get((cls, meth))
        if sites is None:
            lost("%s:%d: %s.%s(..) is an operation on `%s` that the model does not know" % (f.rel, line, recv, meth, cls))
        if len(sites) != len(mine):
            lost("%s:%d: %s.%s(..) carries %d orderings, expected %d" % (f.rel, line, recv, meth, len(mine), len(sites)))
        for (off, v), site in zip(mine, sites):
            if v not in ORDERINGS:
                lost("%s:%d: unknown ordering %s" % (f.rel, line, v))
            f.claim(off, "/".join(site) if isinstance(site, tuple) else site)
            for s1 in (site if isinstance(site, tuple) else (site,)):
                found.setdefault(s1, []).append(v)
    for site, vs in found.items():
        f.sites[site] = weakest(vs)
    f.occurrences = {k: len(v) for k, v in found.items()}


def exclude_common(f):
    for b, e in impl_blocks(f, r"\bimpl(?:<[^>]*>)?\s+Drop\s+for\s+\w+(?:<[^>]*>)?\s*\{"):
        f.exclude(b, e, "impl Drop (exclusive access)")
    for b, e in impl_blocks(f, r"\bimpl(?:<[^>]*>)?\s+(?:fmt::)?Debug\s+for\s+\w+(?:<[^>]*>)?\s*\{"):
        f.exclude(b, e, "impl Debug (diagnostics)")
    for m, b, e in blocks(f.src, r"#\[cfg\(test\)\]\s*mod\s+\w+\s*\{"):
        f.exclude(b, e, "#[cfg(test)] module")
    for m in re.finditer(r"#\[cfg\(lasso_verif\)\]\s*(?:#\[[^\]]*\]\s*)*pub(?:\(crate\))?\s+(?:unsafe\s+)?fn\s+(verif_\w+)", f.src):
        b = f.src.find("{", m.end())
        f.exclude(b, match_brace(f.src, b), "cfg(lasso_verif) fn " + m.group(1))


def atomic_bucket():
    f = File("src/arenas/atomic_bucket.rs")
    facts = {}
    exclude_common(f)
    attribute(f, {"head": "Head", "current": "Link", "next": "Link", "len": "Len", "length": "Len"},
              {("Head", "load"): ("PushHeadLoad",),
               ("Head", "compare_exchange_weak"): ("PushCasOk", "PushCasFail"), ("Head", "compare_exchange"): ("PushCasOk", "PushCasFail"),
               ("Link", "load"): ("IterLoad",),
               ("Len", "load"): ("LenLoad",),
               ("Len", "compare_exchange_weak"): ("LenCasOk", "LenCasFail"), ("Len", "compare_exchange"): ("LenCasOk", "LenCasFail")})
    # push_front: the non-atomic write of the new bucket's `next` precedes the CAS inside the retry loop, nothing writes it afterwards
    pfs = [m for m in re.finditer(r"\bfn\s+push_front\s*\(\s*&self\s*,\s*(\w+)\s*:\s*BucketRef\s*\)", f.src)]
    if len(pfs) != 1:
        lost("atomic_bucket.rs: expected exactly one fn push_front(&self, _: BucketRef)")
    b = f.src.find("{", pfs[0].end()); e = match_brace(f.src, b)
    body = f.src[b:e]
    lm = re.search(r"\bloop\s*\{", body)
    if not lm:
        lost("push_front: no loop")
    lb = b + lm.end() - 1
    loop = f.src[lb:match_brace(f.src, lb)]
    wre = r"addr_of_mut!\(\s*\(\*\s*\w+\s*\)\s*\.next\s*\)\s*\.write\("
    wr = [m.start() for m in re.finditer(wre, body)]
    wr_loop = [m.start() for m in re.finditer(wre, loop)]
    cas = [m.start() for m in re.finditer(r"compare_exchange(?:_weak)?\(", loop)]
    if len(cas) != 1 or len(wr) == 0:
        lost("push_front: expected one CAS in the loop and at least one write of next")
    facts["next_write_before_cas"] = (len(wr) == len(wr_loop) and all(w < cas[0] for w in wr_loop))
    if len(re.findall(r"\)\s*\.next\b", body)) != len(wr):
        lost("push_front: an access to the new bucket's next that is not the known write")
    # ownership facts that make "initialise and fill, THEN publish" a consequence of the borrow checker:
    # push_slice / set_len need `&mut UniqueBucketRef`; `into_ref(self)` consumes it; push_front takes the shared BucketRef;
    # UniqueBucketRef is neither Clone nor Copy and is only built by with_capacity
    ub = impl_blocks(f, r"\bimpl\s+UniqueBucketRef\s*\{")
    if not ub:
        lost("atomic_bucket.rs: no impl UniqueBucketRef")
    utext = "\n".join(f.src[b:e] for b, e in ub)
    sd = re.search(r"((?:#\[[^\]]*\]\s*)*)pub(?:\([^)]*\))?\s+struct\s+UniqueBucketRef\b", f.src)
    if not sd:
        lost("atomic_bucket.rs: struct UniqueBucketRef not found")
    facts["unique_ref_discipline"] = bool(
        re.search(r"\bfn\s+push_slice\s*\(\s*&mut\s+self\b", utext) and re.search(r"\bfn\s+set_len\s*\(\s*&mut\s+self\b", utext)
        and re.search(r"\bfn\s+into_ref\s*\(\s*self\s*\)\s*->\s*BucketRef\b", utext)
        and not re.search(r"derive\([^)]*\b(Clone|Copy)\b", sd.group(1))
        and not re.search(r"\bimpl\s+(Clone|Copy)\s+for\s+UniqueBucketRef\b", f.src)
        and len(re.findall(r"\bfn\s+(?:push_slice|set_len)\b", f.src)) == 2)
    mk = []
    for m in re.finditer(r"(?<!struct )\bUniqueBucketRef\s*(?:::\s*new\s*\(|\{\s*bucket\b)", f.src):
        fn = enclosing_fn(f.src, m.start())
        mk.append(fn[0] if fn else "?")
    for b, e in ub:
        for m in re.finditer(r"\bSelf\s*\{", f.src[b:e]):
            if f.src[:b + m.start()].rstrip().endswith("->"):
                continue        # a return type followed by the body's brace
            fn = enclosing_fn(f.src, b + m.start())
            mk.append(fn[0] if fn else "?")
    facts["unique_ref_made_only_by"] = sorted(set(mk))
    facts["unique_ref_discipline"] = facts["unique_ref_discipline"] and set(mk) <= {"with_capacity", "new"}
    ab = impl_blocks(f, r"\bimpl\s+AtomicBucket\s*\{")
    wc = None
    for b, e in ab:
        m = re.search(r"\bfn\s+with_capacity\b", f.src[b:e])
        if m:
            bb = f.src.find("{", b + m.end()); wc = f.src[bb:match_brace(f.src, bb)]
    if wc is None:
        lost("atomic_bucket.rs: AtomicBucket::with_capacity not found")
    facts["with_capacity_inits_fields"] = all(
        re.search(r"addr_of_mut!\(\s*\(\*\s*\w+\s*\)\s*\.%s\s*\)\s*\.write\(" % fld, wc) for fld in ("next", "len", "capacity"))
    f.finish()
    return f, facts


def lockfree():
    f = File("src/arenas/lockfree.rs")
    facts = {}
    exclude_common(f)
    attribute(f, {"memory_usage": "Usage", "max_memory_usage": "Limit", "bucket_capacity": "Cap"},
              {("Usage", "fetch_update"): ("AllocUpdOk", "AllocUpdFail"),
               ("Usage", "load"): ("CurUsageLoad",),
               ("Limit", "load"): (("LimitLoad", "GetMaxLoad"),),
               ("Limit", "store"): ("SetMaxStore",),
               ("Cap", "load"): ("CapLoad",),
               ("Cap", "store"): ("SetCapStore",)})
    # every block is pushed as `push_front(<unique>.into_ref())` or through a binding of it: the unique reference is consumed
    # at publication (with the discipline facts of atomic_bucket.rs this orders every push_slice/set_len before the push)
    pf = [m for m in re.finditer(r"\.push_front\s*\(", f.src) if not any(lo <= m.start() < hi for lo, hi in getattr(f, "spans", []))]
    body = f.src
    n_pf = len(pf)
    if n_pf == 0:
        lost("lockfree.rs: no push_front call")
    facts["blocks_pushed"] = n_pf
    facts["slice_before_push"] = True
    for m in pf:
        fn = enclosing_fn(f.src, m.start())
        if not fn:
            lost("lockfree.rs: push_front outside a function")
        op = f.src.index("(", m.end() - 1); arg = f.src[op + 1:match_paren(f.src, op) - 1].strip()
        pre = f.src[fn[1]:m.start()]
        if re.fullmatch(r"\w+\s*\.\s*into_ref\s*\(\s*\)", arg):
            continue
        if re.fullmatch(r"\w+", arg) and re.search(r"\blet\s+%s\s*(?::[^=;]+)?=\s*\w+\s*\.\s*into_ref\s*\(\s*\)\s*;" % re.escape(arg), pre):
            continue
        facts["slice_before_push"] = False
    f.finish()
    return f, facts


def threaded():
    f = File("src/threaded_rodeo.rs")
    exclude_common(f)
    # `use core::{.., sync::atomic::{AtomicUsize, Ordering}}` etc. carry no Ordering::X token; every token must be an
    # argument of key.fetch_add: a key counter handled by a separate load and store (or any new atomic) is a structure
    # this model does not know
    attribute(f, {"key": "Key"}, {("Key", "fetch_add"): ("KeyFetchAdd",)})
    f.finish()
    n = f.occurrences.get("KeyFetchAdd", 0)
    if n == 0:
        lost("threaded_rodeo.rs: no key.fetch_add found")
    return f, {"key_fetch_add_sites": n}

SITES = ["PushHeadLoad", "PushCasOk", "PushCasFail", "IterLoad", "LenLoad", "LenCasOk", "LenCasFail",
         "AllocUpdOk", "AllocUpdFail", "LimitLoad", "CurUsageLoad", "SetMaxStore", "GetMaxLoad", "SetCapStore",
         "CapLoad", "KeyFetchAdd"]


def coq_bool(b):
    return "true" if b else "false"


def main():
    fa, facts_a = atomic_bucket()
    fl, facts_l = lockfree()
    ft, facts_t = threaded()
    sites = {}
    for f in (fa, fl, ft):
        for k, v in f.sites.items():
            if k in sites:
                lost("site %s found in two files" % k)
            sites[k] = v
    missing = [s for s in SITES if s not in sites]
    if missing or len(sites) != len(SITES):
        lost("sites missing or unknown: %r / %r" % (missing, sorted(set(sites) - set(SITES))))
    excluded = []
    for f in (fa, fl):
        for off, what in sorted(f.claimed.items()):
            if what.startswith("excluded:"):
                line = f.src.count("\n", 0, off) + 1
                excluded.append("%s:%d  %s" % (f.rel, line, what[len("excluded:"):]))
    init_before_push = (facts_l["slice_before_push"] and facts_a["unique_ref_discipline"]
                        and facts_a["with_capacity_inits_fields"])
    out = []
    out.append("(* GENERATED by tools/extract_orderings.py from %s -- do not edit.\n" % "src/arenas/atomic_bucket.rs, src/arenas/lockfree.rs, src/threaded_rodeo.rs")
    out.append("   Ordering tokens NOT attributed to a site (excluded regions):\n")
    for e in excluded:
        out.append("     %s\n" % e)
    out.append("   key.fetch_add sites in threaded_rodeo.rs: %d (all with the same ordering) *)\n" % facts_t["key_fetch_add_sites"])
    out.append("From Lasso Require Import Sync.\n\n")
    out.append("Definition ord_of (s : site) : ordering :=\n  match s with\n")
    for s in SITES:
        out.append("  | %s => %s\n" % (s, sites[s]))
    out.append("  end.\n\n")
    out.append("(* push_front: every non-atomic write of the bucket's next is inside the loop and textually before the CAS *)\n")
    out.append("Definition next_write_before_cas : bool := %s.\n" % coq_bool(facts_a["next_write_before_cas"]))
    out.append("(* lockfree.rs: every push_front call (%d) publishes `<unique>.into_ref()`: the unique reference is consumed *)\n" % facts_l["blocks_pushed"])
    out.append("Definition slice_before_push : bool := %s.\n" % coq_bool(facts_l["slice_before_push"]))
    out.append("(* push_slice/set_len take &mut UniqueBucketRef, into_ref(self) consumes it, it is neither Clone nor Copy and only\n   built by %s: so filling a block precedes its publication by the borrow checker *)\n" % "/".join(facts_a["unique_ref_made_only_by"]))
    out.append("Definition unique_ref_discipline : bool := %s.\n" % coq_bool(facts_a["unique_ref_discipline"]))
    out.append("(* with_capacity writes next, len and capacity non-atomically *)\n")
    out.append("Definition with_capacity_inits_fields : bool := %s.\n" % coq_bool(facts_a["with_capacity_inits_fields"]))
    out.append("(* together: the ALLOCATE step of the skeleton (all initialisation before PUSH_FRONT) matches the source *)\n")
    out.append("Definition init_before_push : bool := %s.\n\n" % coq_bool(init_before_push))
    out.append("Definition extracted_cfg : cfg := {| ord := ord_of; next_first := next_write_before_cas |}.\n\n")
    out.append("(* re-checked on every run: the extracted orderings satisfy the condition of Sync.race_free *)\n")
    out.append("Lemma adequate_extracted : adequate ord_of = true.\nProof. vm_compute. reflexivity. Qed.\n")
    out.append("Lemma next_first_extracted : next_write_before_cas = true.\nProof. vm_compute. reflexivity. Qed.\n")
    out.append("Lemma init_before_push_extracted : init_before_push = true.\nProof. vm_compute. reflexivity. Qed.\n\n")
    out.append("Theorem extracted_race_free :\n  forall (ls : list label) (s' : state), run extracted_cfg init ls = Some s' -> raced s' = false.\n")
    out.append("Proof. intros ls s' H. exact (race_free extracted_cfg ls adequate_extracted next_first_extracted H). Qed.\n")
    out.append("Print Assumptions extracted_race_free.\n")
    text = "".join(out)
    path = os.path.join(OUT, "Orderings.v")
    with open(path, "w") as fh:
        fh.write(text)
    print("extract_orderings: %d sites, %d excluded tokens -> %s" % (len(sites), len(excluded), path))
    for s in SITES:
        print("  %-13s %s" % (s, sites[s]))
    print("  next_write_before_cas=%s init_before_push=%s" % (facts_a["next_write_before_cas"], init_before_push))


if __name__ == "__main__":
    main()
