#!/usr/bin/env python3
"""extract_orderings.py -- extract the memory orderings of the atomic sites of the lock-free arena from the Rust
sources and emit /verif/coq/Orderings.v (Definition ord_of : site -> ordering, plus textual-order facts).

  LASSO_REPO     (default /repo)        root of the lasso checkout
  VERIF_COQ_DIR  (default /verif/coq)   where Orderings.v is written

Self-checks: every `Ordering::X` token of atomic_bucket.rs and lockfree.rs must be attributed to exactly one known
site, or lie in an explicitly listed excluded region (impl Drop, impl Debug, #[cfg(test)] modules, #[cfg(lasso_verif)]
audit functions).  Anything else: exit 3 "LOST TRACK".
"""
import os, re, sys

REPO = os.environ.get("LASSO_REPO", "/repo")
OUT = os.environ.get("VERIF_COQ_DIR", "/verif/coq")
ORDERINGS = ["Relaxed", "Acquire", "Release", "AcqRel", "SeqCst"]


def lost(msg):
    sys.stderr.write("LOST TRACK: %s\n" % msg)
    sys.exit(3)


def strip_comments(src):
    """blank out // comments (keeping offsets and newlines)"""
    out = []
    for line in src.split("\n"):
        i = line.find("//")
        out.append(line if i < 0 else line[:i] + " " * (len(line) - i))
    return "\n".join(out)


def match_brace(src, i):
    """src[i] == '{' -> index just after the matching '}'"""
    assert src[i] == "{"
    d = 0
    for j in range(i, len(src)):
        if src[j] == "{":
            d += 1
        elif src[j] == "}":
            d -= 1
            if d == 0:
                return j + 1
    lost("unbalanced braces")


def blocks(src, header_re):
    """all (match, body_start, body_end) for headers matching header_re followed by a { block }"""
    res = []
    for m in re.finditer(header_re, src):
        b = src.find("{", m.end() - 1)
        if b < 0:
            continue
        res.append((m, b, match_brace(src, b)))
    return res


def fn_body(src, lo, hi, name, which=0):
    """span of the body of the which-th `fn name` within src[lo:hi]"""
    ms = [m for m in re.finditer(r"\bfn\s+%s\b" % re.escape(name), src[lo:hi])]
    if len(ms) <= which:
        lost("function %s not found" % name)
    b = src.find("{", lo + ms[which].end())
    return b, match_brace(src, b)


def tokens(src, lo, hi):
    return [(lo + m.start(), m.group(1)) for m in re.finditer(r"Ordering::(\w+)", src[lo:hi])]


class File:
    def __init__(self, rel):
        self.rel = rel
        path = os.path.join(REPO, rel)
        try:
            self.src = strip_comments(open(path).read())
        except OSError as e:
            lost("cannot read %s: %s" % (path, e))
        self.claimed = {}   # token offset -> site or "excluded:<why>"
        self.sites = {}

    def claim(self, off, what):
        if off in self.claimed:
            lost("%s: token at %d claimed twice (%s, %s)" % (self.rel, off, self.claimed[off], what))
        self.claimed[off] = what

    def exclude(self, lo, hi, why):
        n = 0
        for off, _ in tokens(self.src, lo, hi):
            self.claim(off, "excluded:" + why)
            n += 1
        return n

    def expect(self, lo, hi, spec, where):
        """spec: list of (site, regex that the text between the previous token (or lo) and this token must match)"""
        toks = tokens(self.src, lo, hi)
        if len(toks) != len(spec):
            lost("%s: %s has %d Ordering tokens, expected %d" % (self.rel, where, len(toks), len(spec)))
        prev = lo
        for (off, val), (site, ctx) in zip(toks, spec):
            between = self.src[prev:off]
            if not re.search(ctx, between, re.S):
                lost("%s: %s: token for %s not in the expected context /%s/" % (self.rel, where, site, ctx))
            if val not in ORDERINGS:
                lost("%s: unknown ordering %s" % (self.rel, val))
            if site in self.sites and self.sites[site] != val:
                lost("%s: site %s has two different orderings" % (self.rel, site))
            self.sites[site] = val
            self.claim(off, site)
            prev = off + len("Ordering::") + len(val)

    def finish(self):
        for off, val in tokens(self.src, 0, len(self.src)):
            if off not in self.claimed:
                line = self.src.count("\n", 0, off) + 1
                lost("%s:%d: Ordering::%s belongs to no known site" % (self.rel, line, val))


def impl_block(f, header_re, what):
    bs = blocks(f.src, header_re)
    if len(bs) != 1:
        lost("%s: expected exactly one `%s`, found %d" % (f.rel, what, len(bs)))
    return bs[0][1], bs[0][2]


def optional_verif_fn(f, lo, hi, name):
    """a #[cfg(lasso_verif)] read-only audit function: excluded, but only if it carries the cfg attribute"""
    for m in re.finditer(r"\bfn\s+%s\b" % name, f.src[lo:hi]):
        head = f.src[max(lo, lo + m.start() - 200):lo + m.start()]
        if not re.search(r"#\[cfg\(lasso_verif\)\]\s*pub\(crate\)\s*$", head):
            lost("%s: fn %s without #[cfg(lasso_verif)]" % (f.rel, name))
        b = f.src.find("{", lo + m.end())
        f.exclude(b, match_brace(f.src, b), "cfg(lasso_verif) fn " + name)


def atomic_bucket():
    f = File("src/arenas/atomic_bucket.rs")
    facts = {}
    lo, hi = impl_block(f, r"\bimpl\s+AtomicBucketList\s*\{", "impl AtomicBucketList")
    b, e = fn_body(f.src, lo, hi, "push_front")
    f.expect(b, e, [("PushHeadLoad", r"self\.head\s*\.load\(\s*$"),
                    ("PushCasOk", r"self\.head\s*\.compare_exchange_weak\(\s*head_ptr,\s*bucket_ptr,\s*$"),
                    ("PushCasFail", r"^,\s*$")], "push_front")
    # textual order inside the loop: the non-atomic write of `next` precedes the CAS, and nothing writes it afterwards
    body = f.src[b:e]
    lm = re.search(r"\bloop\s*\{", body)
    if not lm:
        lost("push_front: no loop")
    lb = b + lm.end() - 1
    le = match_brace(f.src, lb)
    loop = f.src[lb:le]
    wr = [m.start() for m in re.finditer(r"addr_of_mut!\(\(\*bucket_ptr\)\.next\)\s*\.write\(", body)]
    wr_loop = [m.start() for m in re.finditer(r"addr_of_mut!\(\(\*bucket_ptr\)\.next\)\s*\.write\(", loop)]
    cas = [m.start() for m in re.finditer(r"compare_exchange_weak\(", loop)]
    if len(cas) != 1 or len(wr) == 0:
        lost("push_front: expected one CAS in the loop and at least one write of next")
    facts["next_write_before_cas"] = (len(wr) == len(wr_loop) and all(w < cas[0] for w in wr_loop))
    if len(re.findall(r"\(\*bucket_ptr\)\.next", body)) != len(wr):
        lost("push_front: an access to (*bucket_ptr).next that is not the known write")

    lo, hi = impl_block(f, r"\bimpl\s+Drop\s+for\s+AtomicBucketList\s*\{", "impl Drop for AtomicBucketList")
    f.exclude(lo, hi, "impl Drop for AtomicBucketList (exclusive access)")

    lo, hi = impl_block(f, r"\bimpl<'a>\s+Iterator\s+for\s+AtomicBucketIter<'a>\s*\{", "impl Iterator for AtomicBucketIter")
    b, e = fn_body(f.src, lo, hi, "next")
    f.expect(b, e, [("IterLoad", r"self\.current\s*\.load\(\s*$")], "AtomicBucketIter::next")

    lo, hi = impl_block(f, r"\bimpl\s+BucketRef\s*\{", "impl BucketRef")
    optional_verif_fn(f, lo, hi, "verif_audit")
    b, e = fn_body(f.src, lo, hi, "try_inc_length")
    f.expect(b, e, [("LenLoad", r"\blength\s*\.load\(\s*$"),
                    ("LenCasOk", r"\blength\s*\.compare_exchange_weak\(\s*len,\s*new_length,\s*$"),
                    ("LenCasFail", r"^,\s*$")], "try_inc_length")

    # push_slice: the bytes are copied, then set_len; with_capacity initialises next, len, capacity non-atomically
    lo, hi = impl_block(f, r"\bimpl\s+UniqueBucketRef\s*\{", "impl UniqueBucketRef")
    b, e = fn_body(f.src, lo, hi, "push_slice")
    ps = f.src[b:e]
    c1, c2 = ps.find("copy_from_slice("), ps.find("self.set_len(")
    facts["push_slice_copies_then_set_len"] = (0 <= c1 < c2)
    lo, hi = impl_block(f, r"\bimpl\s+AtomicBucket\s*\{", "impl AtomicBucket")
    b, e = fn_body(f.src, lo, hi, "with_capacity")
    wc = f.src[b:e]
    facts["with_capacity_inits_fields"] = all(
        re.search(r"addr_of_mut!\(\(\*ptr\)\.%s\)\s*\.write\(" % fld, wc) for fld in ("next", "len", "capacity"))
    f.finish()
    return f, facts


def lockfree():
    f = File("src/arenas/lockfree.rs")
    facts = {}
    lo, hi = impl_block(f, r"\bimpl\s+LockfreeArena\s*\{", "impl LockfreeArena")
    optional_verif_fn(f, lo, hi, "verif_audit")
    for fn, spec in [
        ("current_memory_usage", [("CurUsageLoad", r"self\.memory_usage\s*\.load\(\s*$")]),
        ("set_max_memory_usage", [("SetMaxStore", r"self\.max_memory_usage\s*\.store\(\s*max_memory_usage,\s*$")]),
        ("get_max_memory_usage", [("GetMaxLoad", r"self\.max_memory_usage\s*\.load\(\s*$")]),
        ("set_bucket_capacity", [("SetCapStore", r"self\.bucket_capacity\s*\.store\(\s*capacity,\s*$")]),
        ("allocate_memory", [("AllocUpdOk", r"self\.memory_usage\s*\.fetch_update\(\s*$"),
                             ("AllocUpdFail", r"^,\s*$"),
                             ("LimitLoad", r"self\.max_memory_usage\s*\.load\(\s*$")]),
        ("store_str", [("CapLoad", r"self\.bucket_capacity\s*\.load\(\s*$")]),
    ]:
        b, e = fn_body(f.src, lo, hi, fn)
        f.expect(b, e, spec, fn)
    # the three growth branches of store_str: with_capacity; push_slice; push_front -- in this order
    b, e = fn_body(f.src, lo, hi, "store_str")
    body = f.src[b:e]
    ev = sorted([(m.start(), "A") for m in re.finditer(r"AtomicBucket::with_capacity\(", body)] +
                [(m.start(), "S") for m in re.finditer(r"\bbucket\.push_slice\(", body)] +
                [(m.start(), "P") for m in re.finditer(r"self\.buckets\.push_front\(", body)])
    seq = "".join(k for _, k in ev)
    if seq.count("P") != 3 or seq.count("A") != 3:
        lost("store_str: expected three growth branches (with_capacity/push_front), saw %r" % seq)
    facts["slice_before_push"] = (seq == "ASPASPASP")

    lo, hi = impl_block(f, r"\bimpl\s+Debug\s+for\s+LockfreeArena\s*\{", "impl Debug for LockfreeArena")
    f.exclude(lo, hi, "impl Debug for LockfreeArena (diagnostics, Relaxed counters)")
    for m, b, e in blocks(f.src, r"#\[cfg\(test\)\]\s*mod\s+\w+\s*\{"):
        f.exclude(b, e, "#[cfg(test)] module")
    f.finish()
    return f, facts


def threaded():
    f = File("src/threaded_rodeo.rs")
    vals = re.findall(r"self\.key\s*\.fetch_add\(\s*1,\s*Ordering::(\w+)\s*\)", f.src)
    if not vals:
        lost("threaded_rodeo.rs: no key.fetch_add found")
    if len(set(vals)) != 1 or vals[0] not in ORDERINGS:
        lost("threaded_rodeo.rs: key.fetch_add sites disagree: %r" % vals)
    f.sites["KeyFetchAdd"] = vals[0]
    # every other atomic access in the non-test, non-hook part of the file must be one of those fetch_adds:
    # a key counter handled by a separate load and store (or any new atomic) is a structure this model does not know
    body = f.src.split("#[cfg(test)]")[0]
    total = len(re.findall(r"Ordering::\w+", body)) - len(re.findall(r"use\s+core::\{[^}]*Ordering", body))
    hook = 0
    for m in re.finditer(r"#\[cfg\(lasso_verif\)\]\s*(?:#\[doc\(hidden\)\]\s*)?pub fn verif_\w+[^{]*\{", body):
        depth, i = 1, m.end()
        while depth and i < len(body):
            depth += {"{": 1, "}": -1}.get(body[i], 0); i += 1
        hook += len(re.findall(r"Ordering::\w+", body[m.end():i]))
    if total - hook != len(vals) or len(vals) != 2:
        lost("threaded_rodeo.rs: %d atomic orderings outside hooks/tests, %d key.fetch_add(1, ..) sites (expected 2 and 2): an atomic access the model does not know" % (total - hook, len(vals)))
    return f, {"key_fetch_add_sites": len(vals)}

SITES = ["PushHeadLoad", "PushCasOk", "PushCasFail", "IterLoad", "LenLoad", "LenCasOk", "LenCasFail",
         "AllocUpdOk", "AllocUpdFail", "LimitLoad", "CurUsageLoad", "SetMaxStore", "GetMaxLoad", "SetCapStore",
         "CapLoad", "KeyFetchAdd"]


def coq_bool(b):
    return "true" if b else "false"


def main():
    fa, facts_a = atomic_bucket()
    fl, facts_l = lockfree()
    ft, facts_t = threaded()
    sites = {}
    for f in (fa, fl, ft):
        for k, v in f.sites.items():
            if k in sites:
                lost("site %s found in two files" % k)
            sites[k] = v
    missing = [s for s in SITES if s not in sites]
    if missing or len(sites) != len(SITES):
        lost("sites missing or unknown: %r / %r" % (missing, sorted(set(sites) - set(SITES))))
    excluded = []
    for f in (fa, fl):
        for off, what in sorted(f.claimed.items()):
            if what.startswith("excluded:"):
                line = f.src.count("\n", 0, off) + 1
                excluded.append("%s:%d  %s" % (f.rel, line, what[len("excluded:"):]))
    init_before_push = (facts_l["slice_before_push"] and facts_a["push_slice_copies_then_set_len"]
                        and facts_a["with_capacity_inits_fields"])
    out = []
    out.append("(* GENERATED by tools/extract_orderings.py from %s -- do not edit.\n" % "src/arenas/atomic_bucket.rs, src/arenas/lockfree.rs, src/threaded_rodeo.rs")
    out.append("   Ordering tokens NOT attributed to a site (excluded regions):\n")
    for e in excluded:
        out.append("     %s\n" % e)
    out.append("   key.fetch_add sites in threaded_rodeo.rs: %d (all with the same ordering) *)\n" % facts_t["key_fetch_add_sites"])
    out.append("From Lasso Require Import Sync.\n\n")
    out.append("Definition ord_of (s : site) : ordering :=\n  match s with\n")
    for s in SITES:
        out.append("  | %s => %s\n" % (s, sites[s]))
    out.append("  end.\n\n")
    out.append("(* push_front: every non-atomic write of the bucket's next is inside the loop and textually before the CAS *)\n")
    out.append("Definition next_write_before_cas : bool := %s.\n" % coq_bool(facts_a["next_write_before_cas"]))
    out.append("(* store_str: in each of the three growth branches: with_capacity, then push_slice, then push_front *)\n")
    out.append("Definition slice_before_push : bool := %s.\n" % coq_bool(facts_l["slice_before_push"]))
    out.append("(* push_slice copies the bytes and then calls set_len (both before publication) *)\n")
    out.append("Definition push_slice_copies_then_set_len : bool := %s.\n" % coq_bool(facts_a["push_slice_copies_then_set_len"]))
    out.append("(* with_capacity writes next, len and capacity non-atomically *)\n")
    out.append("Definition with_capacity_inits_fields : bool := %s.\n" % coq_bool(facts_a["with_capacity_inits_fields"]))
    out.append("(* together: the ALLOCATE step of the skeleton (all initialisation before PUSH_FRONT) matches the source *)\n")
    out.append("Definition init_before_push : bool := %s.\n\n" % coq_bool(init_before_push))
    out.append("Definition extracted_cfg : cfg := {| ord := ord_of; next_first := next_write_before_cas |}.\n\n")
    out.append("(* re-checked on every run: the extracted orderings satisfy the condition of Sync.race_free *)\n")
    out.append("Lemma adequate_extracted : adequate ord_of = true.\nProof. vm_compute. reflexivity. Qed.\n")
    out.append("Lemma next_first_extracted : next_write_before_cas = true.\nProof. vm_compute. reflexivity. Qed.\n")
    out.append("Lemma init_before_push_extracted : init_before_push = true.\nProof. vm_compute. reflexivity. Qed.\n\n")
    out.append("Theorem extracted_race_free :\n  forall (ls : list label) (s' : state), run extracted_cfg init ls = Some s' -> raced s' = false.\n")
    out.append("Proof. intros ls s' H. exact (race_free extracted_cfg ls adequate_extracted next_first_extracted H). Qed.\n")
    out.append("Print Assumptions extracted_race_free.\n")
    text = "".join(out)
    path = os.path.join(OUT, "Orderings.v")
    with open(path, "w") as fh:
        fh.write(text)
    print("extract_orderings: %d sites, %d excluded tokens -> %s" % (len(sites), len(excluded), path))
    for s in SITES:
        print("  %-13s %s" % (s, sites[s]))
    print("  next_write_before_cas=%s init_before_push=%s" % (facts_a["next_write_before_cas"], init_before_push))


if __name__ == "__main__":
    main()
