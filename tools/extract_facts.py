#!/usr/bin/env python3
"""extract_facts.py -- regenerate /verif/coq/Facts.v from the current source text of the lasso crate.

The translator part of the tie for C19 (thread-safety markers), C20 (borrow discipline) and the
forwarding half of C16/C17 (DESIGN.md 4.5).  A deliberately small, brace-aware reader of Rust source
(no Rust parser is installed) that extracts three tables:

  (a) marker facts     every `unsafe impl .. Send|Sync for <container>` with its bounds, the field types of the
                       four container structs in the type grammar of Markers.v, the unconditional markers of the
                       raw blocks (`Bucket`, `AtomicBucket`);
  (b) signature facts  receiver kind and the lifetime relation receiver -> returned `&str` / iterator item of every
                       string-returning method; receiver kind of every invalidating method; the parameter type of
                       the static entry points;
  (c) forwarding facts callee and receiver passing of every method of every `impl Trait for Wrapper` in
                       src/interface/*.rs.

Whenever the source leaves the shapes this reader understands it exits with status 3 and the line
`extract_facts: LOST TRACK: <what>` -- a refactor the extractor does not understand is an alarm, never a pass.

usage: extract_facts.py [--out FILE] [--check]     (repo from env LASSO_REPO, default /repo)
"""
import os, re, subprocess, sys

REPO = os.environ.get("LASSO_REPO", "/repo")
ROOT = os.path.dirname(os.path.dirname(os.path.abspath(__file__)))
OUT_DEFAULT = os.path.join(os.environ.get("VERIF_COQ_DIR", os.path.join(ROOT, "coq")), "Facts.v")

CONTAINERS = ["Rodeo", "ThreadedRodeo", "RodeoReader", "RodeoResolver"]
CONTAINER_FILE = {"Rodeo": "rodeo.rs", "ThreadedRodeo": "threaded_rodeo.rs", "RodeoReader": "reader.rs", "RodeoResolver": "resolver.rs"}
CONTAINER_PARAMS = {"Rodeo": ["K", "S"], "ThreadedRodeo": ["K", "S"], "RodeoReader": ["K", "S"], "RodeoResolver": ["K"]}
MARKER_FILES = ["rodeo.rs", "threaded_rodeo.rs", "reader.rs", "resolver.rs", "arenas/bucket.rs", "arenas/atomic_bucket.rs"]
INTERFACE_FILES = ["mod.rs", "boxed.rs", "rodeo.rs", "rodeo_reader.rs", "rodeo_resolver.rs", "threaded_rodeo.rs", "threaded_ref.rs"]

# what must exist, exactly once (anything else named like these in a container's inherent impls = lost track)
STRING_METHODS = {
    "Rodeo": ["resolve", "try_resolve", "resolve_unchecked", "iter", "strings"],
    "ThreadedRodeo": ["resolve", "try_resolve", "iter", "strings"],
    "RodeoReader": ["resolve", "try_resolve", "resolve_unchecked", "iter", "strings"],
    "RodeoResolver": ["resolve", "try_resolve", "resolve_unchecked", "iter", "strings"],
}
INDEX_IMPLS = ["Rodeo", "ThreadedRodeo", "RodeoReader", "RodeoResolver"]
INTO_ITER_IMPLS = ["Rodeo", "RodeoReader", "RodeoResolver"]
INVALIDATING_NAMES = ["clear", "try_clone_from", "clone_from", "into_reader", "into_resolver", "into_reader_boxed", "into_resolver_boxed"]
INVALIDATING = {
    "Rodeo": ["clear", "try_clone_from", "into_reader", "into_resolver"],
    "ThreadedRodeo": ["into_reader", "into_resolver"],
    "RodeoReader": ["into_resolver"],
    "RodeoResolver": [],
}
CLONE_FROM_IMPLS = ["Rodeo"]                     # `impl Clone for X` that write their own clone_from
STATIC_NAMES = ["get_or_intern_static", "try_get_or_intern_static"]
STATIC_INHERENT = ["Rodeo", "ThreadedRodeo"]
RESOLVER_STRING_METHODS = ["resolve", "try_resolve", "resolve_unchecked"]
# (trait, wrapper display string) pairs that must be implemented in src/interface
TRAIT_IMPLS = {
    "Interner": ["&mut T", "Box<I>", "Rodeo", "ThreadedRodeo", "&ThreadedRodeo"],
    "Reader": ["&T", "&mut T", "Box<I>", "Rodeo", "ThreadedRodeo", "RodeoReader"],
    "Resolver": ["&T", "&mut T", "Box<I>", "Rodeo", "ThreadedRodeo", "RodeoReader", "RodeoResolver"],
    "IntoReader": ["Box<I>", "Rodeo", "ThreadedRodeo"],
    "IntoResolver": ["Box<I>", "Rodeo", "ThreadedRodeo", "RodeoReader"],
    "IntoReaderAndResolver": ["Rodeo", "ThreadedRodeo"],
}
TRAIT_METHODS = {
    "Interner": ["get_or_intern", "try_get_or_intern", "get_or_intern_static", "try_get_or_intern_static"],
    "Reader": ["get", "contains"],
    "Resolver": ["resolve", "try_resolve", "resolve_unchecked", "contains_key", "len"],
    "IntoReader": ["into_reader", "into_reader_boxed"],
    "IntoResolver": ["into_resolver", "into_resolver_boxed"],
    "IntoReaderAndResolver": [],
}
# field types of the arena structs: anything outside this list = lost track (the model treats the arenas as leaves
# whose markers come from the unconditional impls on the raw blocks)
ARENA_FIELD_WHITELIST = {
    "Arena": {"Vec<Bucket>", "NonZeroUsize", "usize"},
    "LockfreeArena": {"AtomicBucketList", "AtomicUsize"},
    "AnyArena": {"Arena", "LockfreeArena"},
    "Bucket": {"usize", "NonNull<u8>", "NonZeroUsize"},
    "AtomicBucket": {"AtomicPtr<Self>", "AtomicPtr<AtomicBucket>", "AtomicUsize", "NonZeroUsize", "[u8; 0]"},
    "AtomicBucketList": {"AtomicPtr<AtomicBucket>"},
}
ARENA_STRUCT_FILE = {"Arena": "arenas/single_threaded.rs", "LockfreeArena": "arenas/lockfree.rs", "AnyArena": "arenas/mod.rs",
                     "Bucket": "arenas/bucket.rs", "AtomicBucket": "arenas/atomic_bucket.rs", "AtomicBucketList": "arenas/atomic_bucket.rs"}


class Lost(Exception):
    pass


def lose(what):
    raise Lost(what)


# ------------------------------------------------------------------------------------------------ lexical layer
def strip(src):
    """comments and the contents of string/char literals replaced by spaces (newlines kept: line numbers survive)"""
    out = []
    i, n = 0, len(src)
    while i < n:
        c = src[i]
        two = src[i:i + 2]
        if two == "//":
            j = src.find("\n", i)
            j = n if j < 0 else j
            out.append(" " * (j - i)); i = j
        elif two == "/*":
            depth, j = 1, i + 2
            while j < n and depth:
                if src[j:j + 2] == "/*":
                    depth += 1; j += 2
                elif src[j:j + 2] == "*/":
                    depth -= 1; j += 2
                else:
                    j += 1
            out.append("".join(ch if ch == "\n" else " " for ch in src[i:j])); i = j
        elif c == '"':
            j = i + 1
            while j < n and src[j] != '"':
                j += 2 if src[j] == "\\" else 1
            out.append('"' + "".join(ch if ch == "\n" else " " for ch in src[i + 1:j]) + '"'); i = j + 1
        elif c == "r" and re.match(r'r#*"', src[i:]) and (i == 0 or not (src[i - 1].isalnum() or src[i - 1] == "_")):
            m = re.match(r'r(#*)"', src[i:])
            end = src.find('"' + m.group(1), i + len(m.group(0)))
            end = n if end < 0 else end + 1 + len(m.group(1))
            out.append("".join(ch if ch == "\n" else " " for ch in src[i:end])); i = end
        elif c == "'":
            m = re.match(r"'(\\.[^']*|[^'\\])'", src[i:])
            if m:                                   # a char literal (not a lifetime)
                out.append("'" + " " * (len(m.group(0)) - 2) + "'"); i += len(m.group(0))
            else:
                out.append(c); i += 1
        else:
            out.append(c); i += 1
    return "".join(out)


def match_close(txt, i, op, cl):
    """index of the bracket closing the one at txt[i] (op/cl single characters; `->` is skipped for angles)"""
    assert txt[i] == op, (txt[i:i + 20], op)
    depth, j, n = 0, i, len(txt)
    while j < n:
        ch = txt[j]
        if op == "<" and ch == ">" and j > 0 and txt[j - 1] in "-=":
            j += 1; continue
        if ch == op:
            depth += 1
        elif ch == cl:
            depth -= 1
            if depth == 0:
                return j
        j += 1
    lose(f"unbalanced `{op}` near `{txt[i:i + 40]!r}`")


def split_top(s, sep=","):
    """split at separators that are outside (), <>, [], {}"""
    parts, cur, depth, i = [], [], 0, 0
    while i < len(s):
        ch = s[i]
        if ch in "(<[{":
            depth += 1
        elif ch in ")]}":
            depth -= 1
        elif ch == ">" and not (i > 0 and s[i - 1] in "-="):
            depth -= 1
        if ch == sep and depth == 0:
            parts.append("".join(cur)); cur = []
        else:
            cur.append(ch)
        i += 1
    parts.append("".join(cur))
    return [p.strip() for p in parts if p.strip()]


def norm(s):
    s = re.sub(r"\s+", " ", s.strip())
    s = re.sub(r"\s*([<>,()\[\];:&*])\s*", r"\1", s)
    s = s.replace(",", ", ").replace("->", " -> ").replace(";", "; ")
    s = re.sub(r"\s+", " ", s)
    s = re.sub(r"\bmut(?=[A-Za-z_(\[&*])", "mut ", s)
    s = re.sub(r"\bconst(?=[A-Za-z_(\[&*])", "const ", s)
    s = re.sub(r"\b(as|dyn|impl|for)\b", r" \1 ", s)
    s = re.sub(r"\s+", " ", s).strip()
    s = s.replace(" :", ":").replace(":", ": ").replace(": : ", "::").replace(":: ", "::")
    s = re.sub(r"\s+", " ", s).strip()
    s = s.replace("- >", "->")
    return s


def line_of(txt, pos):
    return txt.count("\n", 0, pos) + 1


# ------------------------------------------------------------------------------------------------ item layer
class Fn:
    def __init__(self, name, generics, params, ret, where, body, is_unsafe, is_pub, line):
        self.name, self.generics, self.params, self.ret, self.where, self.body = name, generics, params, ret, where, body
        self.is_unsafe, self.is_pub, self.line = is_unsafe, is_pub, line

    def receiver(self):
        if not self.params:
            return "RecvNone", None
        p = norm(self.params[0])
        m = re.fullmatch(r"&('\w+ )?(mut )?self", p)
        if m:
            return ("RecvMut" if m.group(2) else "RecvRef"), (m.group(1).strip() if m.group(1) else None)
        if p in ("self", "mut self"):
            return "RecvOwn", None
        if p in ("self: Box<Self>", "mut self: Box<Self>"):
            return "RecvBox", None
        if re.match(r"(mut )?self\b", p) or "self" == p.split(":")[0].strip():
            lose(f"receiver `{p}` of fn {self.name} (line {self.line}) is of a kind this reader does not know")
        return "RecvNone", None

    def value_params(self):
        """[(name, type)] of the non-receiver parameters"""
        ps = self.params[1:] if self.receiver()[0] != "RecvNone" else self.params
        out = []
        for p in ps:
            if ":" not in p:
                lose(f"parameter `{p}` of fn {self.name} (line {self.line})")
            a, b = p.split(":", 1)
            out.append((norm(a).replace("mut ", ""), norm(b)))
        return out


class Impl:
    def __init__(self, file, generics, trait, ty, where, fns, types, is_unsafe, line, text):
        self.file, self.generics, self.trait, self.ty, self.where = file, generics, trait, ty, where
        self.fns, self.types, self.is_unsafe, self.line, self.text = fns, types, is_unsafe, line, text

    def trait_name(self):
        return None if self.trait is None else re.match(r"[\w:]+", self.trait).group(0).split("::")[-1]

    def ty_name(self):
        m = re.match(r"[\w:]+", self.ty)
        return m.group(0).split("::")[-1] if m else None


def brace_depths(txt):
    d, out = 0, [0] * (len(txt) + 1)
    for i, ch in enumerate(txt):
        if ch == "}":
            d -= 1
        out[i] = d
        if ch == "{":
            d += 1
    out[len(txt)] = d
    return out


def parse_fns(body, base_line_txt, base_off, what):
    """the fn items and associated types directly inside an impl/trait body (`body` excludes the outer braces)"""
    depth = brace_depths(body)
    fns, types = [], {}
    for m in re.finditer(r"\bfn\s+(\w+)", body):
        if depth[m.start()] != 0:
            continue
        # qualifiers before `fn` (same item: look back to the previous `;`, `}` or `]`)
        back = body[:m.start()]
        k = max(back.rfind(";"), back.rfind("}"), back.rfind("]"), back.rfind("{"))
        quals = back[k + 1:]
        i = m.end()
        while body[i].isspace():
            i += 1
        generics = ""
        if body[i] == "<":
            j = match_close(body, i, "<", ">")
            generics = body[i + 1:j]; i = j + 1
        while body[i].isspace():
            i += 1
        if body[i] != "(":
            lose(f"fn {m.group(1)} in {what}: no parameter list")
        j = match_close(body, i, "(", ")")
        params = split_top(body[i + 1:j]); i = j + 1
        # return type / where clause up to `{` or `;`
        k = i
        while body[k] not in "{;":
            k += 1
        tail = body[i:k]
        ret, where = "", ""
        mw = re.search(r"\bwhere\b", tail)
        if mw:
            where = tail[mw.end():].strip(); tail = tail[:mw.start()]
        tail = tail.strip()
        if tail.startswith("->"):
            ret = tail[2:].strip()
        elif tail:
            lose(f"fn {m.group(1)} in {what}: cannot read `{tail}`")
        fbody = None
        if body[k] == "{":
            e = match_close(body, k, "{", "}")
            fbody = body[k + 1:e]
        fns.append(Fn(m.group(1), generics, params, ret, where, fbody, bool(re.search(r"\bunsafe\b", quals)),
                      bool(re.search(r"\bpub\b", quals)), line_of(base_line_txt, base_off + m.start())))
    for m in re.finditer(r"\btype\s+(\w+)\s*(?::[^=;]*)?=\s*([^;]+);", body):
        if depth[m.start()] == 0:
            types[m.group(1)] = norm(m.group(2))
    return fns, types


class Source:
    """one stripped source file with its top-level impls, traits, structs and type aliases"""
    def __init__(self, rel):
        self.rel = rel
        path = os.path.join(REPO, "src", rel)
        if not os.path.exists(path):
            lose(f"source file src/{rel} is gone")
        self.raw = open(path, encoding="utf-8").read()
        self.txt = strip(self.raw)
        self.depth = brace_depths(self.txt)
        self.impls, self.traits, self.structs, self.aliases = [], {}, {}, {}
        self._scan()

    def _scan(self):
        t = self.txt
        for m in re.finditer(r"\b(unsafe\s+)?impl\b", t):
            if self.depth[m.start()] != 0:
                continue
            i = m.end()
            while t[i].isspace():
                i += 1
            generics = ""
            if t[i] == "<":
                j = match_close(t, i, "<", ">")
                generics = t[i + 1:j]; i = j + 1
            k = t.find("{", i)
            if k < 0:
                lose(f"src/{self.rel}:{line_of(t, m.start())}: impl without a body")
            header = t[i:k]
            e = match_close(t, k, "{", "}")
            where = ""
            mw = re.search(r"\bwhere\b", header)
            if mw:
                where = norm(header[mw.end():]); header = header[:mw.start()]
            if re.search(r"\bfor\s*<", header):
                lose(f"src/{self.rel}:{line_of(t, m.start())}: higher-ranked impl header")
            parts = re.split(r"\bfor\b", header)
            if len(parts) == 1:
                trait, ty = None, norm(parts[0])
            elif len(parts) == 2:
                trait, ty = norm(parts[0]), norm(parts[1])
            else:
                lose(f"src/{self.rel}:{line_of(t, m.start())}: cannot split impl header `{norm(header)}`")
            what = f"src/{self.rel}:{line_of(t, m.start())} impl {trait + ' for ' if trait else ''}{ty}"
            fns, types = parse_fns(t[k + 1:e], t, k + 1, what)
            self.impls.append(Impl(self.rel, generics, trait, ty, where, fns, types, bool(m.group(1)), line_of(t, m.start()), t[m.start():e + 1]))
        for m in re.finditer(r"\btrait\s+(\w+)", t):
            if self.depth[m.start()] != 0:
                continue
            k = t.find("{", m.end())
            e = match_close(t, k, "{", "}")
            fns, types = parse_fns(t[k + 1:e], t, k + 1, f"trait {m.group(1)}")
            if m.group(1) in self.traits:
                lose(f"trait {m.group(1)} declared twice in src/{self.rel}")
            self.traits[m.group(1)] = (norm(t[m.end():k]), fns)
        for m in re.finditer(r"\b(struct|enum)\s+(\w+)", t):
            if self.depth[m.start()] != 0:
                continue
            i = m.end()
            while t[i].isspace():
                i += 1
            generics = ""
            if t[i] == "<":
                j = match_close(t, i, "<", ">")
                generics = t[i + 1:j]; i = j + 1
            k = i
            while t[k] not in "{;(":
                k += 1
            if t[k] != "{":
                fields = None if t[k] == ";" else [("%d" % n, norm(re.sub(r"^\s*(#\[[^\]]*\]\s*)*(pub(\([^)]*\))?\s+)?", "", f)))
                                                    for n, f in enumerate(split_top(t[k + 1:match_close(t, k, "(", ")")]))]
            else:
                e = match_close(t, k, "{", "}")
                fields = []
                for f in split_top(t[k + 1:e]):
                    f = re.sub(r"^\s*(#\[[^\]]*\]\s*)*", "", f)
                    f = re.sub(r"^pub(\([^)]*\))?\s+", "", f)
                    if m.group(1) == "struct":
                        if ":" not in f:
                            lose(f"field `{f}` of struct {m.group(2)}")
                        a, b = f.split(":", 1)
                        fields.append((a.strip(), norm(b)))
                    else:                               # enum variant: Name(T, ..) | Name
                        mv = re.fullmatch(r"(\w+)\s*(\((.*)\))?", f, flags=re.S)
                        if not mv:
                            lose(f"variant `{f}` of enum {m.group(2)}")
                        for n, vt in enumerate(split_top(mv.group(3) or "")):
                            fields.append((f"{mv.group(1)}.{n}", norm(vt)))
            if m.group(2) in self.structs:
                lose(f"struct {m.group(2)} declared twice at the top level of src/{self.rel}")
            self.structs[m.group(2)] = (generics, fields, line_of(t, m.start()))
        for m in re.finditer(r"\btype\s+(\w+)\s*(<[^=]*>)?\s*=\s*([^;]+);", t):
            if self.depth[m.start()] == 0:
                self.aliases[m.group(1)] = (norm(m.group(2) or ""), norm(m.group(3)))


def generic_params(g):
    """`'a, K: Key, S = X` -> ([lifetimes], [(name, [bounds])])"""
    lts, tys = [], []
    for p in split_top(g):
        p = p.strip()
        if p.startswith("'"):
            lts.append(p.split(":")[0].strip())
        elif p.startswith("const "):
            lose(f"const generic `{p}`")
        else:
            name, _, rest = p.partition(":")
            name = name.split("=")[0].strip()
            bounds = [norm(b) for b in split_top(rest.split("=")[0], "+")] if rest else []
            tys.append((name, bounds))
    return lts, tys


# ------------------------------------------------------------------------------------------------ (a) markers
def map_ty(t, aliases):
    """Rust field type -> constructor term of Facts.ty (Coq syntax)"""
    t = norm(t)
    if t == "K":
        return "TK"
    if t == "S":
        return "TS"
    if t == "()":
        return "TUnit"
    if t == "str":
        return "TStr"
    if t in ("usize", "u8", "u16", "u32", "u64", "bool", "NonZeroUsize"):
        return "TPlain"
    if t == "AtomicUsize" or re.fullmatch(r"AtomicPtr<.*>", t):
        return "TAtomic"
    if t in ("Arena", "LockfreeArena", "AnyArena"):
        return "T" + t
    m = re.fullmatch(r"&'static (.+)", t)
    if m:
        return f"(TRef {map_ty(m.group(1), aliases)})"
    if t.startswith("&"):
        lose(f"field type `{t}` borrows with a non-'static lifetime")
    m = re.fullmatch(r"\*(const|mut) (.+)", t)
    if m:
        return f"(TRawPtr {map_ty_or_opaque(m.group(2), aliases)})"
    m = re.fullmatch(r"(unsafe )?(extern \"[^\"]*\" )?fn\(\) -> (.+)", t)
    if m:
        return f"(TFnRet {map_ty(m.group(3), aliases)})"
    m = re.fullmatch(r"([\w:]+)<(.*)>", t)
    if m:
        head, args = m.group(1).split("::")[-1], split_top(m.group(2))
        if head in aliases:
            params, rhs = aliases[head]
            pn = [p.strip() for p in params.strip("<>").split(",") if p.strip()]
            if len(pn) != len(args):
                lose(f"type alias {head}{params} used as `{t}`")
            for p, a in zip(pn, args):
                rhs = re.sub(rf"\b{re.escape(p)}\b", a, rhs)
            return map_ty(rhs, aliases)
        if head == "PhantomData" and len(args) == 1:
            return f"(TPhantom {map_ty(args[0], aliases)})"
        if head == "NonNull" and len(args) == 1:
            return f"(TNonNull {map_ty_or_opaque(args[0], aliases)})"
        if head == "Vec" and len(args) == 1:
            return f"(TVec {map_ty(args[0], aliases)})"
        if head == "HashMap" and len(args) == 3:
            return "(THashMap %s %s %s)" % tuple(map_ty(a, aliases) for a in args)
        if head == "DashMap" and len(args) == 3:
            return "(TDashMap %s %s %s)" % tuple(map_ty(a, aliases) for a in args)
    lose(f"field type `{t}` is outside the type grammar of Markers.v")


def map_ty_or_opaque(t, aliases):
    try:
        return map_ty(t, aliases)
    except Lost:
        return "TPlain"          # behind a raw pointer the pointee does not matter: raw pointers are neither Send nor Sync


def marker_facts(src):
    impls, fields, attributed = [], {}, 0
    raw_blocks = {("Bucket", "Send"): False, ("Bucket", "Sync"): False, ("AtomicBucket", "Send"): False, ("AtomicBucket", "Sync"): False}
    for rel in MARKER_FILES:
        s = src[rel]
        n_lines = len(re.findall(r"\bunsafe\s+impl\b", s.txt))
        here = 0
        for im in s.impls:
            if not im.is_unsafe:
                continue
            tn = im.trait_name()
            if tn not in ("Send", "Sync") or norm(im.trait) != tn:
                lose(f"src/{rel}:{im.line}: `unsafe impl {im.trait} for {im.ty}` is not a Send/Sync marker")
            if im.fns or im.types or im.text[im.text.index("{") + 1:-1].strip():
                lose(f"src/{rel}:{im.line}: marker impl with a non-empty body")
            name = im.ty_name()
            if name in CONTAINERS:
                if CONTAINER_FILE[name] != rel:
                    lose(f"src/{rel}:{im.line}: marker impl for {name} outside its own file")
                if im.where:
                    lose(f"src/{rel}:{im.line}: marker impl with a where clause `{im.where}`")
                lts, tys = generic_params(im.generics)
                want = CONTAINER_PARAMS[name]
                if lts or [n for n, _ in tys] != want or im.ty != f"{name}<{', '.join(want)}>":
                    lose(f"src/{rel}:{im.line}: marker impl `impl<{norm(im.generics)}> {tn} for {im.ty}` does not have the shape impl<{', '.join(want)}> .. for {name}<{', '.join(want)}>")
                atoms = []
                for n, bounds in tys:
                    for b in bounds:
                        if b not in ("Send", "Sync"):
                            lose(f"src/{rel}:{im.line}: bound `{n}: {b}` in a marker impl (only Send/Sync bounds are understood)")
                        atoms.append(f"{n}{b}")
                impls.append((name, tn, sorted(set(atoms)), f"src/{rel}:{im.line}"))
            elif name in ("Bucket", "AtomicBucket"):
                if im.generics.strip() or im.where or im.ty != name:
                    lose(f"src/{rel}:{im.line}: marker impl for {name} is not unconditional")
                if raw_blocks[(name, tn)]:
                    lose(f"src/{rel}:{im.line}: second `unsafe impl {tn} for {name}`")
                raw_blocks[(name, tn)] = True
            else:
                lose(f"src/{rel}:{im.line}: `unsafe impl {tn} for {im.ty}`: a marker on a type this reader does not know")
            here += 1
        if here != n_lines:
            lose(f"src/{rel}: {n_lines} `unsafe impl` lines but {here} attributed")
        attributed += here
    for (c, m) in {(c, m) for c, m, _, _ in impls}:
        if sum(1 for x in impls if x[0] == c and x[1] == m) > 1:
            lose(f"more than one `unsafe impl {m} for {c}`")
    # any other file with an `unsafe impl Send/Sync` would escape the table
    for rel, s in src.items():
        if rel not in MARKER_FILES and re.search(r"\bunsafe\s+impl\b[^{;]*\b(Send|Sync)\b", s.txt):
            lose(f"src/{rel}: a Send/Sync marker impl outside the six files of C19")
    for c in CONTAINERS:
        s = src[CONTAINER_FILE[c]]
        if c not in s.structs:
            lose(f"struct {c} not found in src/{CONTAINER_FILE[c]}")
        generics, flds, line = s.structs[c]
        lts, tys = generic_params(generics)
        if lts or [n for n, _ in tys] != CONTAINER_PARAMS[c] or any(b for _, b in tys):
            lose(f"struct {c}<{norm(generics)}>: parameters are not {CONTAINER_PARAMS[c]} without bounds")
        aliases = dict(src["rodeo.rs"].aliases); aliases.update(s.aliases)
        fields[c] = [(n, t, map_ty(t, aliases)) for n, t in flds]
    for a, rel in ARENA_STRUCT_FILE.items():
        s = src[rel]
        if a not in s.structs:
            lose(f"arena type {a} not found in src/{rel}")
        generics, flds, line = s.structs[a]
        if generics.strip():
            lose(f"arena type {a} became generic")
        for n, t in flds or []:
            if t not in ARENA_FIELD_WHITELIST[a]:
                lose(f"src/{rel}:{line}: field `{n}: {t}` of {a} is not among the field types the arena model knows")
    return impls, fields, raw_blocks, attributed


# ------------------------------------------------------------------------------------------------ (b) signatures
def one(xs, what):
    if len(xs) != 1:
        lose(f"{what}: expected exactly one, found {len(xs)}")
    return xs[0]


def inherent_impls(s, c):
    return [im for im in s.impls if im.trait is None and im.ty_name() == c]


def trait_impls(s, tr, c=None, ty=None):
    out = []
    for im in s.impls:
        if im.trait is None or im.trait_name() != tr:
            continue
        if c is not None and (im.ty_name() != c or im.ty.startswith("&")):
            continue
        if ty is not None and im.ty != ty:
            continue
        out.append(im)
    return out


def lifetimes_in(t):
    return re.findall(r"'\w+", t)


def str_ref_lifetime(ret, what):
    """the lifetime written on the `&str` (or `&Self::Output`) of a return / item type: name, '_' for elided"""
    ms = re.findall(r"&('\w+ )?(?:mut )?(?:str|Self::Output)\b", ret)
    if len(ms) != 1:
        lose(f"{what}: return type `{ret}` does not contain exactly one `&str`")
    lt = ms[0].strip()
    return "'_" if lt in ("", "'_") else lt


def relate(lt, fn, self_ty_lifetime, what):
    """lifetime `lt` of an output, relative to the receiver borrow of fn"""
    kind, rlt = fn.receiver()
    if lt == "'static":
        return "OutStatic"
    if lt == "'_":
        if kind in ("RecvRef", "RecvMut"):
            return "OutTied"                              # elision: the receiver's lifetime wins
        lose(f"{what}: elided output lifetime without a `&self` receiver")
    if kind in ("RecvRef", "RecvMut"):
        if rlt == lt:
            return "OutTied"
        return "OutFree"                                  # a parameter that is not the receiver's borrow
    if kind == "RecvOwn" and self_ty_lifetime is not None and lt == self_ty_lifetime:
        return "OutTied"                                  # `self` IS the borrow `&'a X`
    return "OutFree"


def borrows_argument(lt, fn):
    """does the named output lifetime `lt` also occur in the type of a NON-receiver parameter (the string would then be
    borrowed from that argument - e.g. from the key - as well, and well-ordered programs whose key dies first are rejected)"""
    if lt in ("'_", "'static"):
        return False
    return any(re.search(r"%s\b" % re.escape(lt), ty) for _, ty in fn.value_params())


ARG_BORROWS = []       # (entry point, bool, location): filled by signature_facts


def iterator_of(ret, s, what):
    """`Iter<'_, K>` -> (qualified iterator name, lifetime argument)"""
    m = re.fullmatch(r"(Iter|Strings)<('\w+)(?:, [\w, ]+)?>", ret)
    if not m:
        lose(f"{what}: iterator return type `{ret}`")
    local = m.group(1) in s.structs
    q = ("threaded_rodeo::" if s.rel == "threaded_rodeo.rs" else "util::") + m.group(1)
    if local != (s.rel == "threaded_rodeo.rs"):
        lose(f"{what}: cannot tell which `{m.group(1)}` src/{s.rel} means")
    if not local and not re.search(r"\buse\b[^;]*\butil\b[^;]*\b" + m.group(1) + r"\b", s.txt):
        lose(f"{what}: `{m.group(1)}` is not imported from util in src/{s.rel}")
    return q, m.group(2)


def signature_facts(src):
    del ARG_BORROWS[:]
    sigs = []          # (key, recv, out, iterator or None, location)
    inval = []         # (key, recv, location)
    statics = []       # (key, is_static, location)
    items = []         # (iterator, out)
    # iterator item types
    for rel, names in (("util.rs", ["Iter", "Strings"]), ("threaded_rodeo.rs", ["Iter", "Strings"])):
        s = src[rel]
        for n in names:
            q = ("threaded_rodeo::" if rel == "threaded_rodeo.rs" else "util::") + n
            if n not in s.structs:
                lose(f"struct {n} not found in src/{rel}")
            lts, _ = generic_params(s.structs[n][0])
            if len(lts) != 1:
                lose(f"{q}: expected exactly one lifetime parameter")
            im = one([im for im in s.impls if im.trait == "Iterator" and im.ty_name() == n], f"impl Iterator for {q}")
            ilts, _ = generic_params(im.generics)
            m = re.fullmatch(rf"{n}<('\w+)(, [\w, ]+)?>", im.ty)
            if not m or m.group(1) not in ilts:
                lose(f"src/{rel}:{im.line}: impl Iterator for `{im.ty}`")
            if "Item" not in im.types:
                lose(f"src/{rel}:{im.line}: no `type Item`")
            lt = str_ref_lifetime(im.types["Item"], f"{q}::Item")
            out = "OutStatic" if lt == "'static" else "OutTied" if lt == m.group(1) else None
            if out is None:
                lose(f"{q}::Item = `{im.types['Item']}`: lifetime `{lt}` is neither the iterator's own nor 'static")
            nx = one([f for f in im.fns if f.name == "next"], f"{q}::next")
            if nx.receiver()[0] != "RecvMut" or norm(nx.ret) != "Option<Self::Item>":
                lose(f"{q}::next has an unusual signature")
            items.append((q, out, f"src/{rel}:{im.line}"))
    for c in CONTAINERS:
        s = src[CONTAINER_FILE[c]]
        inh = inherent_impls(s, c)
        # anything public that returns a str / iterator and is not expected is an entry point this table would miss
        for im in inh:
            for f in im.fns:
                if f.is_pub and re.search(r"\bstr\b|\bIter\b|\bStrings\b", f.ret) and f.name not in STRING_METHODS[c]:
                    lose(f"src/{s.rel}:{f.line}: public `{c}::{f.name}` returns `{norm(f.ret)}` and is not in the table of string-returning entry points")
                if f.is_pub and f.name in INVALIDATING_NAMES and f.name not in INVALIDATING[c]:
                    lose(f"src/{s.rel}:{f.line}: `{c}::{f.name}` is an invalidating method the table does not expect")
                if f.is_pub and f.name in STATIC_NAMES and c not in STATIC_INHERENT:
                    lose(f"src/{s.rel}:{f.line}: `{c}::{f.name}` is a static entry point the table does not expect")
        for name in STRING_METHODS[c]:
            f = one([f for im in inh for f in im.fns if f.name == name], f"inherent {c}::{name}")
            what = f"src/{s.rel}:{f.line} {c}::{name}"
            if not f.is_pub:
                lose(f"{what} is not public")
            kind, _ = f.receiver()
            ret = norm(f.ret)
            if name in ("iter", "strings"):
                q, lt = iterator_of(ret, s, what)
                if q.split("::")[1] != {"iter": "Iter", "strings": "Strings"}[name]:
                    lose(f"{what}: returns `{ret}`")
                sigs.append((f"{c}::{name}", kind, relate("'_" if lt == "'_" else lt, f, None, what), q, what))
            else:
                if ret not in ("&str", "Option<&str>") and not re.fullmatch(r"(Option<)?&'\w+ str>?", ret):
                    lose(f"{what}: returns `{ret}`")
                sigs.append((f"{c}::{name}", kind, relate(str_ref_lifetime(ret, what), f, None, what), None, what))
                ARG_BORROWS.append((f"{c}::{name}", borrows_argument(str_ref_lifetime(ret, what), f), what))
        for name in INVALIDATING[c]:
            f = one([f for im in inh for f in im.fns if f.name == name], f"inherent {c}::{name}")
            inval.append((f"{c}::{name}", f.receiver()[0], f"src/{s.rel}:{f.line}"))
        if c in CLONE_FROM_IMPLS:
            im = one(trait_impls(s, "Clone", c), f"impl Clone for {c}")
            f = one([f for f in im.fns if f.name == "clone_from"], f"{c} as Clone::clone_from")
            inval.append((f"{c}::Clone::clone_from", f.receiver()[0], f"src/{s.rel}:{f.line}"))
        else:
            for im in trait_impls(s, "Clone", c):
                if any(f.name == "clone_from" for f in im.fns):
                    lose(f"src/{s.rel}:{im.line}: `impl Clone for {c}` with its own clone_from is not in the table")
        if c in STATIC_INHERENT:
            for name in STATIC_NAMES:
                f = one([f for im in inh for f in im.fns if f.name == name], f"inherent {c}::{name}")
                vp = f.value_params()
                if len(vp) != 1:
                    lose(f"src/{s.rel}:{f.line}: {c}::{name} takes {len(vp)} arguments")
                statics.append((f"{c}::{name}", vp[0][1] == "&'static str", f"src/{s.rel}:{f.line}"))
        if c in INDEX_IMPLS:
            im = one(trait_impls(s, "Index", c), f"impl Index for {c}")
            f = one([f for f in im.fns if f.name == "index"], f"{c} as Index::index")
            what = f"src/{s.rel}:{f.line} {c}::Index::index"
            if im.types.get("Output") != "str" or norm(f.ret) not in ("&Self::Output", "&str") and not re.fullmatch(r"&'\w+ (str|Self::Output)", norm(f.ret)):
                lose(f"{what}: Output = `{im.types.get('Output')}`, returns `{norm(f.ret)}`")
            sigs.append((f"{c}::Index::index", f.receiver()[0], relate(str_ref_lifetime(norm(f.ret), what), f, None, what), None, what))
        ii = [im for im in s.impls if im.trait == "IntoIterator" and im.ty_name() is None and re.fullmatch(rf"&('\w+ )?(mut )?{c}<.*>", im.ty)]
        ii_owned = [im for im in s.impls if im.trait == "IntoIterator" and im.ty_name() == c]
        if ii_owned:
            lose(f"src/{s.rel}:{ii_owned[0].line}: `impl IntoIterator for {c}` (by value) is not in the table")
        if c in INTO_ITER_IMPLS:
            im = one(ii, f"impl IntoIterator for &{c}")
            what = f"src/{s.rel}:{im.line} <&{c}>::IntoIterator"
            m = re.fullmatch(rf"&('\w+) {c}<.*>", im.ty)
            if not m:
                lose(f"{what}: self type `{im.ty}`")
            slt = m.group(1)
            f = one([f for f in im.fns if f.name == "into_iter"], what + "::into_iter")
            if norm(f.ret) != "Self::IntoIter" or "IntoIter" not in im.types or "Item" not in im.types:
                lose(f"{what}: into_iter returns `{norm(f.ret)}`")
            q, lt = iterator_of(im.types["IntoIter"], s, what)
            out = relate(lt, f, slt, what)
            ilt = str_ref_lifetime(im.types["Item"], what + "::Item")
            if relate(ilt, f, slt, what) != out:
                out = "OutFree" if out == "OutTied" else out      # Item and IntoIter disagree: not tied
            sigs.append((f"&{c}::IntoIterator::into_iter", "RecvOwn", out, q, what))
        elif ii:
            lose(f"src/{s.rel}:{ii[0].line}: `impl IntoIterator for &{c}` is not in the table")
    # the traits
    im_src = {rel: src["interface/" + rel] for rel in INTERFACE_FILES}
    mod = im_src["mod.rs"]
    for tr in TRAIT_METHODS:
        if tr not in mod.traits:
            lose(f"trait {tr} not found in src/interface/mod.rs")
    tfns = {tr: {f.name: f for f in mod.traits[tr][1]} for tr in TRAIT_METHODS}
    for tr, want in TRAIT_METHODS.items():
        extra = set(tfns[tr]) - set(want) - ({"is_empty"} if tr == "Resolver" else set())
        missing = set(want) - set(tfns[tr])
        if extra or missing:
            lose(f"trait {tr}: methods {sorted(extra)} are new / {sorted(missing)} are gone")
        for f in tfns[tr].values():
            if re.search(r"\bstr\b", f.ret) and not (tr == "Resolver" and f.name in RESOLVER_STRING_METHODS):
                lose(f"trait {tr}::{f.name} returns `{norm(f.ret)}` and is not in the table of string-returning entry points")
    for name in RESOLVER_STRING_METHODS:
        f = tfns["Resolver"][name]
        what = f"src/interface/mod.rs:{f.line} trait Resolver::{name}"
        sigs.append((f"Resolver::{name}", f.receiver()[0], relate(str_ref_lifetime(norm(f.ret), what), f, None, what), None, what))
        ARG_BORROWS.append((f"Resolver::{name}", borrows_argument(str_ref_lifetime(norm(f.ret), what), f), what))
    for tr, name in (("IntoReader", "into_reader"), ("IntoReader", "into_reader_boxed"), ("IntoResolver", "into_resolver"), ("IntoResolver", "into_resolver_boxed")):
        f = tfns[tr][name]
        inval.append((f"{tr}::{name}", f.receiver()[0], f"src/interface/mod.rs:{f.line}"))
    for name in STATIC_NAMES:
        f = tfns["Interner"][name]
        vp = f.value_params()
        statics.append((f"Interner::{name}", len(vp) == 1 and vp[0][1] == "&'static str", f"src/interface/mod.rs:{f.line}"))
    for tr, wrappers in TRAIT_IMPLS.items():
        for w in wrappers:
            im, rel = find_trait_impl(im_src, tr, w)
            for f in im.fns:
                what = f"src/interface/{rel}:{f.line} <{w} as {tr}>::{f.name}"
                if tr == "Resolver" and f.name in RESOLVER_STRING_METHODS:
                    sigs.append((f"Resolver for {w}::{f.name}", f.receiver()[0], relate(str_ref_lifetime(norm(f.ret), what), f, None, what), None, what))
                    ARG_BORROWS.append((f"Resolver for {w}::{f.name}", borrows_argument(str_ref_lifetime(norm(f.ret), what), f), what))
                elif re.search(r"\bstr\b", f.ret):
                    lose(f"{what} returns `{norm(f.ret)}`")
                if tr in ("IntoReader", "IntoResolver"):
                    inval.append((f"{tr} for {w}::{f.name}", f.receiver()[0], what))
                if tr == "Interner" and f.name in STATIC_NAMES:
                    vp = f.value_params()
                    statics.append((f"Interner for {w}::{f.name}", len(vp) == 1 and vp[0][1] == "&'static str", what))
    return sigs, inval, statics, items


WRAPPER_TY = {"&T": r"&T", "&mut T": r"&mut T", "Box<I>": r"Box<I>", "&ThreadedRodeo": r"&ThreadedRodeo<K, S>",
              "Rodeo": r"Rodeo<K, S>", "ThreadedRodeo": r"ThreadedRodeo<K, S>", "RodeoReader": r"RodeoReader<K, S>", "RodeoResolver": r"RodeoResolver<K>"}
WRAPPER_COQ = {"&T": "WRef", "&mut T": "WMut", "Box<I>": "WBox", "&ThreadedRodeo": "WRefThreaded",
               "Rodeo": "(WCont Rodeo)", "ThreadedRodeo": "(WCont ThreadedRodeo)", "RodeoReader": "(WCont RodeoReader)", "RodeoResolver": "(WCont RodeoResolver)"}


def find_trait_impl(im_src, tr, w):
    hits = []
    for rel, s in im_src.items():
        for im in s.impls:
            if im.trait is not None and im.trait_name() == tr and im.ty == WRAPPER_TY[w]:
                if norm(im.trait) not in (f"{tr}<K>",):
                    lose(f"src/interface/{rel}:{im.line}: impl `{im.trait}` for {im.ty}: trait arguments are not <K>")
                hits.append((im, rel))
    return one(hits, f"impl {tr} for {w} in src/interface")


# ------------------------------------------------------------------------------------------------ (c) forwarding
def classify_body(f, what):
    b = f.body
    if b is None:
        lose(f"{what}: no body")
    b = b.strip()
    m = re.fullmatch(r"unsafe\s*\{(.*)\}", b, flags=re.S)
    if m:
        b = m.group(1).strip()
    # one leading `let x[: T] = <receiver expression>;` (a named re-borrow / move of the receiver) is read as an alias
    alias = {}
    m = re.fullmatch(r"let\s+(?:mut\s+)?(\w+)\s*(?::[^=;]+)?=\s*([^;{]+);\s*(.*)", b, flags=re.S)
    if m:
        alias[m.group(1)] = norm(m.group(2)); b = m.group(3).strip()
        m2 = re.fullmatch(r"unsafe\s*\{(.*)\}", b, flags=re.S)
        if m2:
            b = m2.group(1).strip()
    if ";" in b or "{" in b:
        lose(f"{what}: body is not a single call expression: `{norm(b)}`")
    b = norm(b)
    names = [n for n, _ in f.value_params()]
    class PassOf(dict):
        # `&mut **self`, `&**self`, `&*self` are explicit re-borrows of what auto-ref would borrow anyway
        @staticmethod
        def canon(x):
            x = alias.get(x, x)
            x = re.sub(r"^&\s*(?:mut\s+)?", "", x.strip())
            return x.strip("()").replace(" ", "")
        def __contains__(self, x):
            return dict.__contains__(self, self.canon(x))
        def __getitem__(self, x):
            return dict.__getitem__(self, self.canon(x))
    pass_of = PassOf({"self": "PSelf", "*self": "PStar", "**self": "PStarStar"})
    m = re.fullmatch(r"(self|\(\*self\)|\(\*\*self\)|\w+)\.(\w+)\((.*)\)", b)
    if m and m.group(1) in pass_of:
        args = split_top(m.group(3))
        return "MethodCall", "", m.group(2), pass_of[m.group(1)], args == names
    m = re.fullmatch(r"<(\w+) as (\w+)<K>>::(\w+)\((.*)\)", b)
    if m:
        args = split_top(m.group(4))
        if not args or args[0] not in pass_of:
            lose(f"{what}: first argument of `{b}` is not the receiver")
        return "UfcsTrait", f"{m.group(1)} as {m.group(2)}", m.group(3), pass_of[args[0]], args[1:] == names
    m = re.fullmatch(r"(\w+)::(\w+)\((.*)\)", b)
    if m:
        args = split_top(m.group(3))
        if not args or args[0] not in pass_of:
            lose(f"{what}: first argument of `{b}` is not the receiver")
        return "PathCall", m.group(1), m.group(2), pass_of[args[0]], args[1:] == names
    lose(f"{what}: body `{b}` is not a forwarding call this reader can classify")


def forwarding_facts(src):
    im_src = {rel: src["interface/" + rel] for rel in INTERFACE_FILES}
    table, attributed = [], 0
    total = sum(len(im.fns) for s in im_src.values() for im in s.impls)
    seen_impls = 0
    for tr, wrappers in TRAIT_IMPLS.items():
        for w in wrappers:
            im, rel = find_trait_impl(im_src, tr, w)
            seen_impls += 1
            got = sorted(f.name for f in im.fns)
            if got != sorted(TRAIT_METHODS[tr]):
                lose(f"src/interface/{rel}:{im.line}: impl {tr} for {w} defines {got}, expected {sorted(TRAIT_METHODS[tr])}")
            for f in im.fns:
                what = f"src/interface/{rel}:{f.line} <{w} as {tr}>::{f.name}"
                style, path, callee, pas, same = classify_body(f, what)
                table.append((w, tr, f.name, f.receiver()[0], style, path, callee, pas, same, what))
                attributed += 1
    n_impls = sum(len(s.impls) for s in im_src.values())
    if n_impls != seen_impls:
        others = [f"src/interface/{rel}:{im.line} impl {im.trait} for {im.ty}" for rel, s in im_src.items() for im in s.impls
                  if not any(im.trait and im.trait_name() == tr and im.ty == WRAPPER_TY[w] for tr, ws in TRAIT_IMPLS.items() for w in ws)]
        lose(f"src/interface has {n_impls} impls, {seen_impls} attributed; not attributed: {others}")
    if total != attributed:
        lose(f"src/interface impls contain {total} fns, {attributed} attributed")
    # raw count of `fn` tokens inside impls, independent of parse_fns
    raw = 0
    for s in im_src.values():
        for im in s.impls:
            raw += len(re.findall(r"\bfn\s+\w+", im.text))
    if raw != attributed:
        lose(f"src/interface impls contain {raw} `fn` tokens, {attributed} attributed (nested fn or closure item?)")
    return table, attributed


# ------------------------------------------------------------------------------------------------ emit
PREAMBLE = r'''Require Import Coq.Strings.String Coq.Lists.List Coq.Bool.Bool.
Import ListNotations.
Open Scope string_scope.

(* ---- vocabulary (constant part of the generator) ---- *)
Inductive container := Rodeo | ThreadedRodeo | RodeoReader | RodeoResolver.
Inductive marker := Send | Sync.
Inductive atom := KSend | KSync | SSend | SSync.
(* field types of the four containers; TPlain = integers and the like, TAtomic = AtomicUsize / AtomicPtr<_>,
   TStr = str, the arena types are leaves whose markers follow `raw_block_markers` *)
Inductive ty :=
| TK | TS | TUnit | TPlain | TStr | TAtomic
| TRef (t : ty) | TPhantom (t : ty) | TFnRet (t : ty) | TRawPtr (t : ty) | TNonNull (t : ty)
| TVec (t : ty) | THashMap (k v s : ty) | TDashMap (k v s : ty)
| TArena | TLockfreeArena | TAnyArena.

Inductive recv := RecvRef | RecvMut | RecvOwn | RecvBox | RecvNone.
(* lifetime of the returned &str / iterator / iterator item relative to the receiver borrow *)
Inductive outlt := OutTied | OutStatic | OutFree.

Inductive wrapper := WRef | WMut | WBox | WRefThreaded | WCont (c : container).
Inductive trait := Interner | Reader | Resolver | IntoReader | IntoResolver.
Inductive style := MethodCall | UfcsTrait | PathCall.
Inductive pass := PSelf | PStar | PStarStar.
Record fwd := { fw_wrapper : wrapper; fw_trait : trait; fw_method : string; fw_recv : recv;
                fw_style : style; fw_path : string; fw_callee : string; fw_pass : pass; fw_args_same : bool }.
'''


def coq_str(s):
    return '"' + s.replace('"', '""') + '"'


def cmt(text):
    """a Coq comment that cannot open / close a nested comment or a string"""
    return "(* " + text.replace("(*", "( *").replace("*)", "* )").replace('"', "'") + " *)"


def coq_bool(b):
    return "true" if b else "false"


def coq_list(items, indent="  "):
    if not items:
        return "[]"
    return "[\n" + ";\n".join(indent + it for it in items) + "\n]"


def describe():
    try:
        r = subprocess.run(["git", "-C", REPO, "describe", "--always", "--dirty"], stdout=subprocess.PIPE, stderr=subprocess.DEVNULL, text=True, timeout=30)
        if r.returncode == 0 and r.stdout.strip():
            return r.stdout.strip()
    except Exception:
        pass
    return "unknown (not a git checkout)"


NEED = {"markers", "signatures", "forwarding"}


def generate():
    rels = ["rodeo.rs", "threaded_rodeo.rs", "reader.rs", "resolver.rs", "util.rs", "keys.rs"]
    adir = os.path.join(REPO, "src", "arenas")
    idir = os.path.join(REPO, "src", "interface")
    for d in (adir, idir):
        if not os.path.isdir(d):
            lose(f"directory {d} is gone")
    rels += sorted("arenas/" + f for f in os.listdir(adir) if f.endswith(".rs"))
    rels += sorted("interface/" + f for f in os.listdir(idir) if f.endswith(".rs"))
    src = {rel: Source(rel) for rel in rels}
    for rel in INTERFACE_FILES:
        if "interface/" + rel not in src:
            lose(f"src/interface/{rel} is gone")
    extra = [r for r in rels if r.startswith("interface/") and r[len("interface/"):] not in INTERFACE_FILES + ["tests.rs"]]
    if extra:
        lose(f"new files in src/interface: {extra}")
    if src["interface/tests.rs"].impls:
        lose("src/interface/tests.rs contains impls outside a module")
    # A part the asking property does not need (--need) may lose track without failing the run: it is then emitted
    # EMPTY (its own theorems stop compiling, nobody else's), with the reason in the header.
    lost_parts = []
    def part(name, fn, empty):
        try:
            return fn(src)
        except Lost as e:
            if name in NEED:
                raise
            lost_parts.append(f"{name}: {e}")
            return empty
    impls, fields, raw_blocks, n_markers = part("markers", marker_facts, ([], {c: [] for c in CONTAINERS}, {}, 0))
    sigs, inval, statics, items = part("signatures", signature_facts, ([], [], [], []))
    fwd, n_fwd = part("forwarding", forwarding_facts, ([], 0))

    o = []
    o.append(f"(* GENERATED by tools/extract_facts.py -- do not edit.\n   source: {os.path.join(REPO, 'src')} at {describe()}\n"
             f"   {n_markers} `unsafe impl` marker lines attributed, {len(sigs)} string-returning signatures, {len(inval)} invalidating methods,\n"
             f"   {len(statics)} static entry points, {n_fwd} forwarding methods."
             + "".join(f"\n   PART LOST (emitted empty; not needed by the property being checked): {x}" for x in lost_parts) + " *)")
    o.append(PREAMBLE)
    o.append("(* ---- (a) marker facts ---- *)")
    o.append("(* every `unsafe impl<bounds> Send|Sync for <container>`; at most one per (container, marker) *)")
    o.append("Definition marker_impls : list (container * marker * list atom) := " +
             coq_list([f"(({c}, {m}), [{'; '.join(a)}])  {cmt(loc)}" for c, m, a, loc in sorted(impls)]) + ".")
    o.append("(* field types of the container structs *)")
    o.append("Definition fields : list (container * list (string * ty)) := " +
             coq_list([f"({c}, [{'; '.join('(' + coq_str(n) + ', ' + t + ')' for n, _, t in fields[c])}])"
                       + "  " + cmt("; ".join(f"{n}: {rt}" for n, rt, _ in fields[c])) for c in CONTAINERS]) + ".")
    o.append("(* `unsafe impl Send for Bucket {}`, `Sync for Bucket`, `Send for AtomicBucket`, `Sync for AtomicBucket` present and unconditional *)")
    o.append("Definition raw_block_markers : list (string * marker * bool) := " +
             coq_list([f"(({coq_str(n)}, {m}), {coq_bool(v)})" for (n, m), v in sorted(raw_blocks.items())]) + ".")
    o.append("Definition arena_markers_unconditional : bool := forallb (fun x => snd x) raw_block_markers.")
    o.append("")
    o.append("(* ---- (b) signature facts ---- *)")
    o.append("(* (method, receiver, lifetime of the returned &str or iterator relative to the receiver, iterator type if any) *)")
    o.append("Definition string_sigs : list (string * recv * outlt * option string) := " +
             coq_list([f"((({coq_str(k)}, {r}), {out}), {('Some ' + coq_str(q)) if q else 'None'})  {cmt(loc.split(' ')[0])}"
                       for k, r, out, q, loc in sorted(sigs)]) + ".")
    o.append("(* Iterator::Item of the four iterator types: is the &str of the item bound to the iterator's own lifetime parameter *)")
    o.append("Definition iter_items : list (string * outlt) := " +
             coq_list([f"({coq_str(q)}, {out})  {cmt(loc)}" for q, out, loc in sorted(items)]) + ".")
    o.append("Definition invalidating : list (string * recv) := " +
             coq_list([f"({coq_str(k)}, {r})  {cmt(loc.split(' ')[0])}" for k, r, loc in sorted(inval)]) + ".")
    o.append("(* static entry points: is the string parameter exactly &'static str *)")
    o.append("(* string-returning entry points: is the returned &str ALSO tied to a non-receiver argument (the key)? *)")
    o.append("Definition out_borrows_argument : list (string * bool) := " +
             coq_list([f"({coq_str(k)}, {coq_bool(v)})  {cmt(loc.split(' ')[0])}" for k, v, loc in sorted(ARG_BORROWS)]) + ".")
    o.append("Definition static_entries : list (string * bool) := " +
             coq_list([f"({coq_str(k)}, {coq_bool(v)})  {cmt(loc.split(' ')[0])}" for k, v, loc in sorted(statics)]) + ".")
    o.append("")
    o.append("(* ---- (c) forwarding facts ---- *)")
    order = {w: i for i, w in enumerate(WRAPPER_TY)}
    rows = []
    for w, tr, name, rcv, style, path, callee, pas, same, loc in sorted(fwd, key=lambda x: (order[x[0]], x[1], x[2])):
        note = ""
        if callee != name and not (callee + "_boxed" == name or name + "_boxed" == callee):
            note = "  NOT the same-named method"
        rows.append(f"{{| fw_wrapper := {WRAPPER_COQ[w]}; fw_trait := {tr}; fw_method := {coq_str(name)}; fw_recv := {rcv}; fw_style := {style}; "
                    f"fw_path := {coq_str(path)}; fw_callee := {coq_str(callee)}; fw_pass := {pas}; fw_args_same := {coq_bool(same)} |}}  {cmt(loc.split(' ')[0] + note)}")
    o.append("Definition forwarding : list fwd := " + coq_list(rows) + ".")
    o.append("")
    return "\n".join(o) + "\n"


def main():
    out = OUT_DEFAULT
    check_only = False
    a = sys.argv[1:]
    i = 0
    while i < len(a):
        if a[i] == "--out":
            out = a[i + 1]; i += 2
        elif a[i] == "--check":
            check_only = True; i += 1
        elif a[i] == "--need":
            NEED.clear(); NEED.update(x for x in a[i + 1].split(",") if x); i += 2
        else:
            print(__doc__); sys.exit(2)
    try:
        text = generate()
    except Lost as e:
        print(f"extract_facts: LOST TRACK: {e}")
        print("correspondence broken: the fact extractor no longer understands the source; Facts.v was NOT regenerated")
        sys.exit(3)
    if check_only:
        old = open(out).read() if os.path.exists(out) else ""
        strip_hdr = lambda s: s.split("*)", 1)[-1]
        print("unchanged" if strip_hdr(old) == strip_hdr(text) else "CHANGED")
        sys.exit(0)
    old = open(out).read() if os.path.exists(out) else None
    if old != text:                       # keep the mtime when nothing changed: no needless rebuilds
        tmp = out + ".tmp%d" % os.getpid()
        open(tmp, "w").write(text)
        os.replace(tmp, out)
    print(f"extract_facts: wrote {out} ({'changed' if old != text else 'unchanged'}) from {REPO} at {describe()}")


if __name__ == "__main__":
    main()
