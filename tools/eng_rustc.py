"""C19 / C20 engines and the forwarding check of C16 / C17: the extractor's tables against rustc itself.

For C19 and C20 the deciding oracle on a concrete tree is rustc: a full matrix of generated probe programs is
compiled against the current working tree of the crate (LASSO_REPO, default /repo).  The same matrices validate the
translator: what the Coq model computes from the freshly extracted Facts.v (Markers.derive per cell, Loans.accepts per
event abstraction) must be exactly what rustc does.

  monitor   a probe that must be rejected compiles (or a documented / well-ordered probe no longer compiles or runs
            wrongly): the property is violated on the tree; the probe's source text is the replay;
  mismatch  the table extracted into Facts.v (through the Coq model) and rustc disagree, or the extractor lost track;
  driver    the machinery itself failed.

Generated sources go to /verif/build/probes/<name>/ (never committed); cargo target dir /verif/build/probe-target.
"""
import json, os, re, shutil, subprocess, sys, time

ROOT = os.path.dirname(os.path.dirname(os.path.abspath(__file__)))
# VERIF_COQ_DIR / VERIF_PROBES_DIR: scratch copies, used only when validating against seeded mutants (see BRIEF_RUSTC.md)
COQ = os.environ.get("VERIF_COQ_DIR", os.path.join(ROOT, "coq"))
BUILD = os.path.join(ROOT, "build")
PROBES = os.environ.get("VERIF_PROBES_DIR", os.path.join(BUILD, "probes"))
PROBE_TARGET = (os.path.join(os.path.dirname(PROBES), "probe-target") if os.environ.get("VERIF_PROBES_DIR")
                else os.path.join(BUILD, "probe-target"))
EXTRACT = os.path.join(ROOT, "tools", "extract_facts.py")


def repo():
    return os.environ.get("LASSO_REPO", "/repo")


def sh(cmd, **kw):
    return subprocess.run(cmd, shell=isinstance(cmd, str), stdout=subprocess.PIPE, stderr=subprocess.STDOUT, text=True, **kw)


# ------------------------------------------------------------------------------------------------ Coq side
FACT_FILES = ["Facts.v", "Markers.v", "Loans.v", "Forward.v"]


def refresh_facts(need="markers,signatures,forwarding", files=None):
    """run the extractor (only the parts in `need` are obligatory), recompile Facts.v and the models that rest on
    those parts when stale.  -> (ok, message)"""
    r = sh([sys.executable, EXTRACT, "--need", need], timeout=300)
    if r.returncode != 0:
        return False, "fact extractor lost track of the source: " + r.stdout.strip()[-1500:]
    newest = 0.0
    for f in (files or FACT_FILES):
        src, vo = os.path.join(COQ, f), os.path.join(COQ, f[:-2] + ".vo")
        newest = max(newest, os.path.getmtime(src))
        if not os.path.exists(vo) or os.path.getmtime(vo) < newest:
            c = sh(f"cd {COQ} && timeout 600 coqc -Q . Lasso {f}")
            if c.returncode != 0:
                return False, f"{f} does not compile against the regenerated Facts.v: {c.stdout[-1500:]}"
            newest = max(newest, os.path.getmtime(vo))
    return True, r.stdout.strip()


def coq_eval(name, body):
    """compile a scratch .v (outside /verif/coq) that Requires the models; -> (rc, stdout)"""
    d = os.path.join(PROBES, "coq")
    os.makedirs(d, exist_ok=True)
    p = os.path.join(d, name + ".v")
    open(p, "w").write("Require Import Coq.Strings.String.\nOpen Scope string_scope.\nSet Printing Depth 1000000.\nSet Printing Width 240.\n" + body)
    r = sh(f"cd {d} && timeout 600 coqc -Q {COQ} Lasso {name}.v")
    return r.returncode, r.stdout


def coq_bool_rows(out):
    """`("a", true); ("b", false)` rows anywhere in coqc's output -> {a: True, b: False}"""
    return {m.group(1): m.group(2) == "true" for m in re.finditer(r'\("([^"]+)",\s*(true|false)\)', out)}


# ------------------------------------------------------------------------------------------------ cargo side
BORROWCK = {"E0597", "E0505", "E0502", "E0499", "E0506", "E0521", "E0716", "E0515", "E0503"}


def cargo_env():
    env = dict(os.environ, CARGO_NET_OFFLINE="true", CARGO_TARGET_DIR=PROBE_TARGET)
    env.pop("RUSTFLAGS", None)            # the crate as its users build it (no --cfg lasso_verif)
    return env


def write_crate(name, files, is_bin):
    d = os.path.join(PROBES, name)
    os.makedirs(os.path.join(d, "src"), exist_ok=True)
    toml = (f'[package]\nname = "{name}"\nversion = "0.0.0"\nedition = "2021"\n\n'
            f'[dependencies]\nlasso = {{ path = "{repo()}", features = ["multi-threaded", "serialize"] }}\n\n[workspace]\n')
    changed = False
    for rel, text in dict(files, **{"Cargo.toml": toml}).items():
        p = os.path.join(d, rel)
        if not os.path.exists(p) or open(p).read() != text:
            open(p, "w").write(text); changed = True
    lock = os.path.join(d, "Cargo.lock")
    if not os.path.exists(lock):
        src_lock = os.path.join(repo(), "Cargo.lock")
        if not os.path.exists(src_lock):
            src_lock = "/repo/Cargo.lock"
        shutil.copy(src_lock, lock)
    return d


def cargo_build(d):
    """-> (rc, [diagnostic dicts of level error], raw tail)"""
    r = subprocess.run(["cargo", "build", "--offline", "--message-format=json"], cwd=d, env=cargo_env(),
                       stdout=subprocess.PIPE, stderr=subprocess.PIPE, text=True, timeout=1500)
    errs = []
    for line in r.stdout.splitlines():
        if not line.startswith("{"):
            continue
        try:
            j = json.loads(line)
        except ValueError:
            continue
        if j.get("reason") != "compiler-message":
            continue
        m = j.get("message", {})
        if m.get("level") != "error":
            continue
        code = (m.get("code") or {}).get("code")
        lines = [s["line_start"] for s in m.get("spans", []) if s.get("is_primary") and s.get("file_name", "").startswith("src/")]
        if not lines:
            lines = [s["line_start"] for s in m.get("spans", []) if s.get("file_name", "").startswith("src/")]
        errs.append({"code": code, "lines": lines, "text": m.get("message", ""), "rendered": (m.get("rendered") or "")[:1200],
                     "package": j.get("package_id", "")})
    return r.returncode, errs, (r.stderr or "")[-2500:]


def run_bin(name):
    exe = os.path.join(PROBE_TARGET, "debug", name)
    r = subprocess.run([exe], stdout=subprocess.PIPE, stderr=subprocess.STDOUT, text=True, timeout=300)
    return r.returncode, r.stdout


class Cells:
    """source text assembled cell by cell, remembering each cell's line range"""
    def __init__(self, prelude):
        self.lines = prelude.rstrip("\n").split("\n")
        self.range = {}
        self.text = {}

    def add(self, cid, src):
        src = src.rstrip("\n")
        a = len(self.lines) + 1
        self.lines += src.split("\n")
        self.range[cid] = (a, len(self.lines))
        self.text[cid] = src

    def source(self, tail=""):
        return "\n".join(self.lines) + "\n" + tail

    def cell_at(self, line):
        for cid, (a, b) in self.range.items():
            if a <= line <= b:
                return cid
        return None


# ------------------------------------------------------------------------------------------------ C19
FLAGS = ["Ord", "SyncNotSend", "SendNotSync", "Neither"]
SEND_OF = {"Ord": True, "SyncNotSend": False, "SendNotSync": True, "Neither": False}
SYNC_OF = {"Ord": True, "SyncNotSend": True, "SendNotSync": False, "Neither": False}
C19_CONTAINERS = ["Rodeo", "ThreadedRodeo", "RodeoReader", "RodeoResolver"]

MARKERS_PRELUDE = r'''#![allow(warnings)]
// GENERATED by /verif/tools/eng_rustc.py (C19 marker matrix) -- do not edit
use lasso::{Key, Rodeo, RodeoReader, RodeoResolver, ThreadedRodeo};
use std::collections::hash_map::RandomState;
use std::hash::{BuildHasher, Hash};
use std::marker::PhantomData;

macro_rules! probe_key {
    ($name:ident) => {
        /// a key type that is neither Send nor Sync unless said otherwise below
        #[derive(Clone, Copy, PartialEq, Eq, Hash, Debug)]
        pub struct $name(u32, PhantomData<*const ()>);
        unsafe impl Key for $name {
            fn into_usize(self) -> usize { self.0 as usize }
            fn try_from_usize(int: usize) -> Option<Self> {
                if int < u32::MAX as usize { Some(Self(int as u32, PhantomData)) } else { None }
            }
        }
    };
}
macro_rules! probe_hasher {
    ($name:ident) => {
        /// a BuildHasher that is neither Send nor Sync unless said otherwise below
        #[derive(Clone, Default)]
        pub struct $name(RandomState, PhantomData<*const ()>);
        impl BuildHasher for $name {
            type Hasher = <RandomState as BuildHasher>::Hasher;
            fn build_hasher(&self) -> Self::Hasher { self.0.build_hasher() }
        }
    };
}
probe_key!(KeyOrd);
unsafe impl Send for KeyOrd {}
unsafe impl Sync for KeyOrd {}
probe_key!(KeySyncNotSend);
unsafe impl Sync for KeySyncNotSend {}
probe_key!(KeySendNotSync);
unsafe impl Send for KeySendNotSync {}
probe_key!(KeyNeither);
probe_hasher!(HashOrd);
unsafe impl Send for HashOrd {}
unsafe impl Sync for HashOrd {}
probe_hasher!(HashSyncNotSend);
unsafe impl Sync for HashSyncNotSend {}
probe_hasher!(HashSendNotSync);
unsafe impl Send for HashSendNotSync {}
probe_hasher!(HashNeither);

pub fn assert_send<T: Send>() {}
pub fn assert_sync<T: Sync>() {}
'''

MARKERS_GOOD_MAIN = r'''
fn documented_programs() {
    // moving a single-threaded interner into another thread
    let mut rodeo: Rodeo<KeyOrd, HashOrd> = Rodeo::with_hasher(HashOrd::default());
    let a = rodeo.get_or_intern("a");
    let handle = std::thread::spawn(move || {
        let b = rodeo.get_or_intern("b");
        (rodeo.resolve(&a).to_string(), rodeo.resolve(&b).to_string(), rodeo.len())
    });
    assert_eq!(handle.join().unwrap(), ("a".to_string(), "b".to_string(), 2));
    let mut plain = Rodeo::default();
    let k = plain.get_or_intern("plain");
    assert_eq!(std::thread::spawn(move || plain.resolve(&k).to_string()).join().unwrap(), "plain");

    // sharing a concurrent interner
    let threaded: ThreadedRodeo<KeyOrd, HashOrd> = ThreadedRodeo::with_hasher(HashOrd::default());
    std::thread::scope(|s| {
        for i in 0..4usize {
            let t = &threaded;
            s.spawn(move || {
                let k = t.get_or_intern(format!("s{}", i % 2));
                assert_eq!(t.resolve(&k), format!("s{}", i % 2));
            });
        }
    });
    assert_eq!(threaded.len(), 2);
    let k0 = threaded.get("s0").unwrap();
    // ... and moving it
    let threaded = std::thread::spawn(move || { threaded.get_or_intern("s2"); threaded }).join().unwrap();
    assert_eq!(threaded.len(), 3);

    // sharing and moving a reader
    let reader = threaded.into_reader();
    std::thread::scope(|s| {
        for _ in 0..3 {
            let r = &reader;
            s.spawn(move || { assert_eq!(r.resolve(&k0), "s0"); assert!(r.contains("s1")); });
        }
    });
    let reader = std::thread::spawn(move || { assert_eq!(reader.len(), 3); reader }).join().unwrap();

    // sharing and moving a resolver
    let resolver = reader.into_resolver();
    std::thread::scope(|s| {
        for _ in 0..3 {
            let r = &resolver;
            s.spawn(move || { assert_eq!(r.resolve(&k0), "s0"); });
        }
    });
    assert_eq!(std::thread::spawn(move || resolver.len()).join().unwrap(), 3);
}

fn main() {
    all_cells();
    documented_programs();
    println!("markers_good ok");
}
'''


def c19_cells():
    """[(cid, container, marker, kflag, sflag)] in the enumeration order of Markers.cells; the resolver has no S:
    its 4 S-variants are one rustc cell (sflag None)"""
    out, n = [], 0
    for c in C19_CONTAINERS:
        for m in ("Send", "Sync"):
            for k in FLAGS:
                for s in (FLAGS if c != "RodeoResolver" else [None]):
                    n += 1
                    out.append((f"cell_{n:03d}", c, m, k, s))
    return out


def c19_type(c, k, s):
    return f"{c}<Key{k}>" if s is None else f"{c}<Key{k}, Hash{s}>"


def c19_allowed(c, m, k, s):
    of = SEND_OF if m == "Send" else SYNC_OF
    return of[k] and (True if s is None else of[s])


def c19_derive_from_coq():
    rc, out = coq_eval("MarkerCells", "From Lasso Require Import Facts Markers.\nEval vm_compute in derive_rows.\n")
    if rc != 0:
        return None, out[-1500:]
    rows = {}
    for m in re.finditer(r'\("(\w+)",\s*"(\w+)",\s*"(\w+)",\s*"(\w+)",\s*(true|false)\)', out):
        rows[(m.group(1), m.group(2), m.group(3), m.group(4))] = m.group(5) == "true"
    if len(rows) != 4 * 2 * 4 * 4:
        return None, f"expected 128 rows of Markers.derive_rows, parsed {len(rows)}: {out[-600:]}"
    return rows, ""


def engine_c19(prop, spec, tier, seed, work):
    t0 = time.time()
    problems, samples = [], []
    ok, msg = refresh_facts("markers", ["Facts.v", "Markers.v"])
    derive = None
    if not ok:
        problems.append(("mismatch", None, {"line": "T extractor - C19 " + msg}))
    else:
        derive, err = c19_derive_from_coq()
        if derive is None:
            problems.append(("driver", None, "cannot evaluate Markers.derive: " + err))
    cells = c19_cells()

    def model(c, m, k, s):
        if derive is None:
            return None
        vals = {derive[(c, m, k, s2)] for s2 in ([s] if s is not None else FLAGS)}
        return vals.pop() if len(vals) == 1 else "depends-on-S"

    # ---- the full matrix in one crate: which cells does rustc reject?
    bad = Cells(MARKERS_PRELUDE)
    for cid, c, m, k, s in cells:
        bad.add(cid, f"pub fn {cid}() {{ assert_{m.lower()}::<{c19_type(c, k, s)}>() }}")
    d = write_crate("markers_all", {"src/lib.rs": bad.source()}, False)
    rc, errs, tail = cargo_build(d)
    rejected = set()
    for e in errs:
        if "markers_all" not in e["package"]:
            problems.append(("driver", None, f"the crate itself does not build (features multi-threaded, serialize): {e['rendered']}"))
            continue
        hit = {bad.cell_at(l) for l in e["lines"]} - {None}
        if e["code"] == "E0277" and hit:
            rejected |= hit
        else:
            problems.append(("driver", None, f"unexpected diagnostic in markers_all ({e['code']}): {e['rendered'][:600]}"))
    if rc != 0 and not errs:
        problems.append(("driver", None, "cargo build of markers_all failed without diagnostics: " + tail))
    must_reject = 0
    for cid, c, m, k, s in cells:
        allowed = c19_allowed(c, m, k, s)
        mod = model(c, m, k, s)
        got = cid not in rejected                     # rustc says the marker holds
        if not allowed:
            must_reject += 1
        desc = f"{c19_type(c, k, s)}: {m}"
        if got and not allowed:
            problems.append(("monitor", None, {"line": f"M {cid} - C19 `{desc}` is accepted by rustc although the key/hasher type is not {m}",
                                               "probe": MARKERS_PRELUDE + bad.text[cid] + "\n", "cell": cid, "expected": "rejected (E0277)", "rustc": "accepted"}))
        if mod == "depends-on-S":
            problems.append(("mismatch", None, {"line": f"T {cid} - C19 Markers.derive for RodeoResolver depends on the hasher flags, the type has no hasher"}))
        elif mod is not None and mod != got:
            problems.append(("mismatch", None, {"line": f"T {cid} - C19 `{desc}`: Markers.derive over the extracted Facts.v says {mod}, rustc says {got}",
                                               "probe": bad.text[cid]}))
        if len(samples) < 4 and (not allowed) == (len(samples) % 2 == 0):
            samples.append(bad.text[cid] + ("   // rejected by rustc" if not got else "   // accepted by rustc"))
    # ---- the positive twin: all accepted cells + the documented programs must compile and run
    good = Cells(MARKERS_PRELUDE)
    acc = [x for x in cells if x[0] not in rejected]
    for cid, c, m, k, s in acc:
        good.add(cid, f"pub fn {cid}() {{ assert_{m.lower()}::<{c19_type(c, k, s)}>() }}")
    tailsrc = "pub fn all_cells() {\n" + "".join(f"    {x[0]}();\n" for x in acc) + "}\n" + MARKERS_GOOD_MAIN
    d2 = write_crate("markers_good", {"src/main.rs": good.source(tailsrc)}, True)
    rc2, errs2, tail2 = cargo_build(d2)
    if rc2 != 0:
        first = errs2[0]["rendered"] if errs2 else tail2
        problems.append(("monitor", None, {"line": "M markers_good - C19 the documented cases (move a Rodeo into a thread; share / move a ThreadedRodeo, RodeoReader, RodeoResolver) no longer compile: " + first[:700],
                                           "probe": good.source(tailsrc), "expected": "compiles and runs", "rustc": "rejected"}))
    else:
        rrc, out = run_bin("markers_good")
        if rrc != 0 or "markers_good ok" not in out:
            problems.append(("monitor", None, {"line": f"M markers_good - C19 the documented programs compile but fail at run time (rc {rrc}): {out[-500:]}",
                                               "probe": good.source(tailsrc)}))
    ev = {"evaluations": len(cells) + len(acc) + 1, "distinct_nontrivial": must_reject,
          "rule": "one probe function per (container, marker, key flags, hasher flags) cell -- 4 containers x {Send, Sync} x {ordinary, Sync-not-Send, Send-not-Sync, neither}^2, "
                  "RodeoResolver has no hasher -- compiled by rustc against the working tree; non-trivial = cells whose parameters do not allow the marker (must be rejected with E0277); "
                  "the accepted cells plus real threaded programs are compiled again as a binary and run; every cell is also compared with Markers.derive over the regenerated Facts.v",
          "cells": len(cells), "rejected_by_rustc": len(rejected), "accepted_by_rustc": len(acc), "samples": samples,
          "traces_validated_against_impl": len(cells), "repo": repo(), "wall_s_TM": round(time.time() - t0, 1)}
    return ev, problems, {}


# ------------------------------------------------------------------------------------------------ C20
BORROWS_PRELUDE = r'''#![allow(warnings)]
// GENERATED by /verif/tools/eng_rustc.py (C20 borrow matrix) -- do not edit
use lasso::{Interner, IntoReader, IntoResolver, Key, Reader, Resolver, Rodeo, RodeoReader, RodeoResolver, Spur, ThreadedRodeo};

pub fn k0() -> Spur { Spur::try_from_usize(0).unwrap() }
pub fn mk_rodeo() -> Rodeo { let mut r = Rodeo::default(); r.get_or_intern("alpha"); r.get_or_intern("beta"); r }
pub fn mk_threaded() -> ThreadedRodeo { let r = ThreadedRodeo::default(); r.get_or_intern("alpha"); r.get_or_intern("beta"); r }
pub fn mk_reader() -> RodeoReader { mk_rodeo().into_reader() }
pub fn mk_resolver() -> RodeoResolver { mk_rodeo().into_resolver() }
pub fn use_str(tag: &str, s: &str) { println!("{} {}", tag, s); }
'''

# entry points: name -> (binding expression over x and k, expression reading the bound value r, table key pattern)
#   {C} = the container's name; keys follow tools/extract_facts.py
STR_ENTRIES = {
    "resolve": ("x.resolve(&k)", "r", "{C}::resolve"),
    "try_resolve": ("x.try_resolve(&k).unwrap()", "r", "{C}::try_resolve"),
    "resolve_unchecked": ("unsafe { x.resolve_unchecked(&k) }", "r", "{C}::resolve_unchecked"),
    "index": ("&x[k]", "r", "{C}::Index::index"),
    "iter_item": ("x.iter().find(|(kk, _)| *kk == k).unwrap().1", "r", "{C}::iter/item"),
    "strings_item": ("x.strings().find(|s| *s == \"alpha\").unwrap()", "r", "{C}::strings/item"),
    "into_iter_item": ("(&x).into_iter().find(|(kk, _)| *kk == k).unwrap().1", "r", "&{C}::IntoIterator::into_iter/item"),
    "iter_held": ("x.iter()", "r.find(|(kk, _)| *kk == k).unwrap().1", "{C}::iter"),
    "strings_held": ("x.strings()", "r.find(|s| *s == \"alpha\").unwrap()", "{C}::strings"),
    "into_iter_held": ("(&x).into_iter()", "r.find(|(kk, _)| *kk == k).unwrap().1", "&{C}::IntoIterator::into_iter"),
    "trait_resolve": ("Resolver::resolve(&x, &k)", "r", "Resolver::resolve"),
    "trait_try_resolve": ("Resolver::try_resolve(&x, &k).unwrap()", "r", "Resolver::try_resolve"),
    "trait_resolve_unchecked": ("unsafe { Resolver::resolve_unchecked(&x, &k) }", "r", "Resolver::resolve_unchecked"),
}
ALL_ENTRIES = list(STR_ENTRIES)
NO_UNCHECKED_INTOITER = [e for e in ALL_ENTRIES if e not in ("resolve_unchecked", "into_iter_item", "into_iter_held")]
TRAIT_ONLY = ["trait_resolve", "trait_try_resolve", "trait_resolve_unchecked"]
# through a `dyn` / generic / wrapper value the methods are the trait's
DYN_ENTRIES = {
    "trait_resolve": ("x.resolve(&k)", "r", "Resolver::resolve"),
    "trait_try_resolve": ("x.try_resolve(&k).unwrap()", "r", "Resolver::try_resolve"),
    "trait_resolve_unchecked": ("unsafe { x.resolve_unchecked(&k) }", "r", "Resolver::resolve_unchecked"),
}

# invalidating operations: name -> (statement, extra setup, event).  {MK} = constructor of the form
OPS = {
    "clear": ("x.clear();", "", 'Mutate "Rodeo::clear" 0'),
    "clone_from": ("x.clone_from(&other);", "let other = {MK};", 'Mutate "Rodeo::Clone::clone_from" 0'),
    "try_clone_from": ("x.try_clone_from(&other).unwrap();", "let other = {MK};", 'Mutate "Rodeo::try_clone_from" 0'),
    "into_reader": ("let _v = x.into_reader();", "", 'Mutate "{C}::into_reader" 0'),
    "into_resolver": ("let _v = x.into_resolver();", "", 'Mutate "{C}::into_resolver" 0'),
    "trait_into_reader": ("let _v = IntoReader::into_reader(x);", "", 'Mutate "IntoReader::into_reader" 0'),
    "trait_into_resolver": ("let _v = IntoResolver::into_resolver(x);", "", 'Mutate "IntoResolver::into_resolver" 0'),
    "boxed_into_reader": ("let _v = IntoReader::into_reader(Box::new(x));", "", 'Mutate "IntoReader::into_reader" 0'),
    "drop": ("drop(x);", "", "EndScope 0"),
    "move_out": ("let _moved = x;", "", "EndScope 0"),
    "overwrite": ("x = {MK};", "", "EndScope 0"),
    "scope_end": (None, "", "EndScope 0"),
}

FORMS = [
    # (form, container name for keys, constructor, declared type or None, entries table, entry names, op names)
    ("rodeo", "Rodeo", "mk_rodeo()", None, STR_ENTRIES, ALL_ENTRIES,
     ["clear", "clone_from", "try_clone_from", "into_reader", "into_resolver", "trait_into_reader", "trait_into_resolver", "boxed_into_reader",
      "drop", "move_out", "overwrite", "scope_end"]),
    ("threaded", "ThreadedRodeo", "mk_threaded()", None, STR_ENTRIES, NO_UNCHECKED_INTOITER,
     ["into_reader", "into_resolver", "trait_into_reader", "trait_into_resolver", "drop", "move_out", "overwrite", "scope_end"]),
    ("reader", "RodeoReader", "mk_reader()", None, STR_ENTRIES, ALL_ENTRIES,
     ["into_resolver", "trait_into_resolver", "drop", "move_out", "overwrite", "scope_end"]),
    ("resolver", "RodeoResolver", "mk_resolver()", None, STR_ENTRIES, ALL_ENTRIES, ["drop", "move_out", "overwrite", "scope_end"]),
    ("box_dyn_resolver", None, "Box::new(mk_resolver())", "Box<dyn Resolver>", DYN_ENTRIES, TRAIT_ONLY, ["drop", "move_out", "overwrite", "scope_end"]),
    ("box_dyn_reader", None, "Box::new(mk_reader())", "Box<dyn Reader>", DYN_ENTRIES, TRAIT_ONLY, ["drop", "move_out", "overwrite", "scope_end"]),
    ("box_dyn_interner", None, "Box::new(mk_rodeo())", "Box<dyn Interner>", DYN_ENTRIES, TRAIT_ONLY, ["drop", "move_out", "overwrite", "scope_end"]),
]


def coq_str(s):
    return '"' + s.replace('"', '""') + '"'


def c20_cells():
    """-> [dict(id, kind, bad_src, good_src, bad_events, good_events, what)]"""
    cells, n = [], 0

    def add(what, bad, good, bad_ev, good_ev):
        nonlocal n
        n += 1
        cid = f"cell_{n:03d}"
        cells.append({"id": cid, "what": what, "bad": bad.replace("CELL", cid), "good": good.replace("CELL", cid),
                      "bad_events": bad_ev, "good_events": good_ev})

    for form, cname, mk, ty, table, entries, ops in FORMS:
        decl = f"let mut x: {ty} = {mk};" if ty else f"let mut x = {mk};"
        for en in entries:
            bind, use, keypat = table[en]
            key = keypat.replace("{C}", cname or "")
            call = f"Call {coq_str(key)} 0 0"
            for op in ops:
                stmt, extra, ev = OPS[op]
                ev = ev.replace("{C}", cname or "")
                extra = extra.replace("{MK}", mk)
                what = f"{form}: hold `{en}` across `{op}`"
                if op == "scope_end":
                    bad = (f"pub fn CELL() {{\n    let k = k0();\n    let mut r;\n    {{\n        {decl}\n        r = {bind};\n    }}\n"
                           f"    use_str(\"CELL\", {use});\n}}")
                    good = (f"pub fn CELL() {{\n    let k = k0();\n    {{\n        {decl}\n        let mut r = {bind};\n        use_str(\"CELL\", {use});\n    }}\n}}")
                else:
                    st = stmt.replace("{MK}", mk)
                    pre = f"    {extra}\n" if extra else ""
                    bad = (f"pub fn CELL() {{\n    let k = k0();\n    {decl}\n{pre}    let mut r = {bind};\n    {st}\n    use_str(\"CELL\", {use});\n}}")
                    # an iterator with a destructor (dashmap's) keeps its borrow until it is dropped
                    fin = "    drop(r);\n" if en.endswith("_held") else ""
                    good = (f"pub fn CELL() {{\n    let k = k0();\n    {decl}\n{pre}    let mut r = {bind};\n    use_str(\"CELL\", {use});\n{fin}    {st}\n}}")
                add(what, bad, good, f"[{call}; {ev}; Use 0]", f"[{call}; Use 0; {ev}]")
    # a `&dyn Reader` view of a Rodeo: the calls go through the reference, the operations hit the owner
    for en in TRAIT_ONLY:
        bind, use, key = DYN_ENTRIES[en]
        bind = bind.replace("x.", "v.")
        for op in ["clear", "into_reader", "drop", "move_out", "overwrite"]:
            stmt, extra, ev = OPS[op]
            ev = ev.replace("{C}", "Rodeo")
            st = stmt.replace("{MK}", "mk_rodeo()")
            bad = (f"pub fn CELL() {{\n    let k = k0();\n    let mut x = mk_rodeo();\n    let v: &dyn Reader = &x;\n    let mut r = {bind};\n    {st}\n    use_str(\"CELL\", {use});\n}}")
            good = (f"pub fn CELL() {{\n    let k = k0();\n    let mut x = mk_rodeo();\n    let v: &dyn Reader = &x;\n    let mut r = {bind};\n    use_str(\"CELL\", {use});\n    {st}\n}}")
            call = f"Call {coq_str(key)} 0 0"
            add(f"ref_dyn_reader over a Rodeo: hold `{en}` across `{op}`", bad, good, f"[Borrow 0; {call}; {ev}; Use 0]", f"[Borrow 0; {call}; Use 0; {ev}]")
    # a generic resolver (any R: Resolver), by value
    for en in TRAIT_ONLY:
        bind, use, key = DYN_ENTRIES[en]
        for op in ["drop", "move_out"]:
            st = OPS[op][0]
            bad = (f"pub fn CELL() {{\n    fn inner<X: Resolver>(mut x: X) {{\n        let k = k0();\n        let mut r = {bind};\n        {st}\n        use_str(\"CELL\", {use});\n    }}\n    inner(mk_resolver());\n}}")
            good = (f"pub fn CELL() {{\n    fn inner<X: Resolver>(mut x: X) {{\n        let k = k0();\n        let mut r = {bind};\n        use_str(\"CELL\", {use});\n        {st}\n    }}\n    inner(mk_resolver());\n}}")
            call = f"Call {coq_str(key)} 0 0"
            add(f"generic X: Resolver: hold `{en}` across `{op}`", bad, good, f"[{call}; EndScope 0; Use 0]", f"[{call}; Use 0; EndScope 0]")
    # the blanket impls: &T, &mut T, Box<I> as resolvers in their own right (the wrapper value is the borrower)
    for wname, wdecl, wkey in (("&T", "let mut w = &x;", "Resolver for &T"), ("&mut T", "let mut w = &mut x;", "Resolver for &mut T")):
        for en, m in (("resolve", "resolve"), ("try_resolve", "try_resolve"), ("resolve_unchecked", "resolve_unchecked")):
            expr = {"resolve": "Resolver::resolve(&w, &k)", "try_resolve": "Resolver::try_resolve(&w, &k).unwrap()",
                    "resolve_unchecked": "unsafe { Resolver::resolve_unchecked(&w, &k) }"}[en]
            for op, st in (("drop_owner", "drop(x);"), ("clear_owner", "x.clear();")):
                bad = (f"pub fn CELL() {{\n    let k = k0();\n    let mut x = mk_rodeo();\n    {wdecl}\n    let mut r = {expr};\n    {st}\n    use_str(\"CELL\", r);\n}}")
                good = (f"pub fn CELL() {{\n    let k = k0();\n    let mut x = mk_rodeo();\n    {wdecl}\n    let mut r = {expr};\n    use_str(\"CELL\", r);\n    {st}\n}}")
                call = f"Call {coq_str(wkey + '::' + m)} 0 0"
                ev = "EndScope 0" if op == "drop_owner" else 'Mutate "Rodeo::clear" 0'
                add(f"`{wname}` as Resolver over a Rodeo: hold `{en}` across `{op}`", bad, good, f"[Borrow 0; {call}; {ev}; Use 0]", f"[Borrow 0; {call}; Use 0; {ev}]")
    for en, m in (("resolve", "resolve"), ("try_resolve", "try_resolve"), ("resolve_unchecked", "resolve_unchecked")):
        expr = {"resolve": "Resolver::resolve(&w, &k)", "try_resolve": "Resolver::try_resolve(&w, &k).unwrap()",
                "resolve_unchecked": "unsafe { Resolver::resolve_unchecked(&w, &k) }"}[en]
        for op, st in (("drop", "drop(w);"), ("into_resolver", "let _v = IntoResolver::into_resolver(w);")):
            bad = (f"pub fn CELL() {{\n    let k = k0();\n    let mut w = Box::new(mk_rodeo());\n    let mut r = {expr};\n    {st}\n    use_str(\"CELL\", r);\n}}")
            good = (f"pub fn CELL() {{\n    let k = k0();\n    let mut w = Box::new(mk_rodeo());\n    let mut r = {expr};\n    use_str(\"CELL\", r);\n    {st}\n}}")
            call = f"Call {coq_str('Resolver for Box<I>::' + m)} 0 0"
            ev = "EndScope 0" if op == "drop" else 'Mutate "IntoResolver for Box<I>::into_resolver" 0'
            add(f"`Box<I>` as Resolver: hold `{en}` across `{op}`", bad, good, f"[{call}; {ev}; Use 0]", f"[{call}; Use 0; {ev}]")
    # static entry points fed a string that does not live for the whole program
    statics = [
        ("Rodeo::get_or_intern_static", "let mut x = mk_rodeo();", "x.get_or_intern_static(@S)"),
        ("Rodeo::try_get_or_intern_static", "let mut x = mk_rodeo();", "x.try_get_or_intern_static(@S).unwrap()"),
        ("ThreadedRodeo::get_or_intern_static", "let mut x = mk_threaded();", "x.get_or_intern_static(@S)"),
        ("ThreadedRodeo::try_get_or_intern_static", "let mut x = mk_threaded();", "x.try_get_or_intern_static(@S).unwrap()"),
        ("Interner::get_or_intern_static", "let mut x = mk_rodeo();", "Interner::get_or_intern_static(&mut x, @S)"),
        ("Interner::try_get_or_intern_static", "let mut x = mk_rodeo();", "Interner::try_get_or_intern_static(&mut x, @S).unwrap()"),
        ("Interner::get_or_intern_static", "let mut x = mk_threaded();", "Interner::get_or_intern_static(&mut x, @S)"),
        ("Interner::try_get_or_intern_static", "let mut x = mk_threaded();", "Interner::try_get_or_intern_static(&mut x, @S).unwrap()"),
        ("Interner for &mut T::get_or_intern_static", "let mut y = mk_rodeo(); let mut x = &mut y;", "Interner::get_or_intern_static(&mut x, @S)"),
        ("Interner for &mut T::try_get_or_intern_static", "let mut y = mk_rodeo(); let mut x = &mut y;", "Interner::try_get_or_intern_static(&mut x, @S).unwrap()"),
        ("Interner for &ThreadedRodeo::get_or_intern_static", "let y = mk_threaded(); let mut x = &y;", "Interner::get_or_intern_static(&mut x, @S)"),
        ("Interner for &ThreadedRodeo::try_get_or_intern_static", "let y = mk_threaded(); let mut x = &y;", "Interner::try_get_or_intern_static(&mut x, @S).unwrap()"),
        ("Interner for Box<I>::get_or_intern_static", "let mut x: Box<dyn Interner> = Box::new(mk_rodeo());", "x.get_or_intern_static(@S)"),
        ("Interner for Box<I>::try_get_or_intern_static", "let mut x: Box<dyn Interner> = Box::new(mk_rodeo());", "x.try_get_or_intern_static(@S).unwrap()"),
    ]
    for key, setup, call in statics:
        bad = (f"pub fn CELL() {{\n    {setup}\n    let local = String::from(\"gamma\");\n    let key = {call.replace('@S', 'local.as_str()')};\n"
               f"    drop(local);\n    use_str(\"CELL\", Resolver::resolve(&x, &key));\n}}")
        good = (f"pub fn CELL() {{\n    {setup}\n    let key = {call.replace('@S', chr(34) + 'gamma' + chr(34))};\n    use_str(\"CELL\", Resolver::resolve(&x, &key));\n}}")
        add(f"static entry point `{key}` fed a local String's &str", bad, good, f"[StoreLocal {coq_str(key)} 0 1]", "[]")
    return cells


def c20_model(cells):
    body = ["From Coq Require Import String List.", "From Lasso Require Import Facts Loans.", "Import ListNotations.",
            "Open Scope string_scope.", "Open Scope list_scope.", "Definition progs : list (string * program) := ["]
    rows = []
    for c in cells:
        rows.append(f"  ({coq_str(c['id'] + '/bad')}, {c['bad_events']})")
        rows.append(f"  ({coq_str(c['id'] + '/good')}, {c['good_events']})")
    body.append(";\n".join(rows) + "].")
    body.append("Eval vm_compute in (map (fun x => (fst x, accepts_now (snd x))) progs).")
    body.append('Eval vm_compute in (map (fun x => ((fst x ++ "#known")%string, known_now (snd x))) progs).')
    rc, out = coq_eval("BorrowCells", "\n".join(body) + "\n")
    if rc != 0:
        return None, out[-1500:]
    rows = coq_bool_rows(out)
    if len(rows) != 4 * len(cells):
        return None, f"expected {4 * len(cells)} rows from Loans.accepts_now / known_now, parsed {len(rows)}"
    return rows, ""


def keyfree_cells():
    """well-ordered programs in which the KEY dies before the string is used: the string is borrowed from the interner
    only (Facts.out_borrows_argument / C20_strings_borrow_only_the_receiver), through the inherent methods of the four
    containers and through every trait form (generic, &dyn, Box<dyn>, &T, &mut T, Box<I>)"""
    out = []
    exprs = {"resolve": "{X}.resolve(&k)", "try_resolve": "{X}.try_resolve(&k).unwrap()", "resolve_unchecked": "unsafe { {X}.resolve_unchecked(&k) }"}
    forms = [("rodeo", "let x = mk_rodeo();", "x"), ("threaded", "let x = mk_threaded();", "x"), ("reader", "let x = mk_reader();", "x"),
             ("resolver", "let x = mk_resolver();", "x"),
             ("dyn_resolver", "let x = mk_resolver(); let v: &dyn Resolver = &x;", "v"),
             ("dyn_reader", "let x = mk_reader(); let v: &dyn Reader = &x;", "v"),
             ("box_dyn", "let v: Box<dyn Resolver> = Box::new(mk_rodeo());", "v"),
             ("box_reader", "let v: Box<dyn Reader> = Box::new(mk_reader());", "v")]
    n = 0
    for fname, decl, X in forms:
        for en, e in exprs.items():
            n += 1
            cid = f"keyfree_{n:02d}"
            body = e.replace("{X}", X)
            out.append((cid, f"pub fn {cid}() {{\n    {decl}\n    let r = {{ let k = k0(); {body} }};\n    use_str(\"{cid}\", r);\n}}", f"{fname}: `{en}` with a key that dies first"))
    # accessor shapes: a by-value key, generic over the trait, and the blanket impls
    for en in exprs:
        body = {"resolve": "Resolver::resolve(t, &k)", "try_resolve": "Resolver::try_resolve(t, &k).unwrap()",
                "resolve_unchecked": "unsafe { Resolver::resolve_unchecked(t, &k) }"}[en]
        for wname, sig, setup, arg in (
                ("generic", "fn acc<R: Resolver>(t: &R, k: Spur) -> &str", "let keep = mk_rodeo();", "&keep"),
                ("ref_t", "fn acc<'t>(t: &'t &Rodeo, k: Spur) -> &'t str", "let keep = mk_rodeo(); let w = &keep;", "&w"),
                ("mut_t", "fn acc<'t>(t: &'t &mut Rodeo, k: Spur) -> &'t str", "let mut keep = mk_rodeo(); let w = &mut keep;", "&w"),
                ("box_i", "fn acc(t: &Box<Rodeo>, k: Spur) -> &str", "let keep = Box::new(mk_rodeo());", "&keep")):
            n += 1
            cid = f"keyfree_{n:02d}"
            out.append((cid, f"pub fn {cid}() {{\n    {sig} {{ {body} }}\n    {setup}\n    let r = acc({arg}, k0());\n    use_str(\"{cid}\", r);\n}}",
                        f"accessor over `{wname}`: `{en}` with a by-value key"))
    return out


def engine_c20(prop, spec, tier, seed, work):
    t0 = time.time()
    problems, samples = [], []
    cells = c20_cells()
    ok, msg = refresh_facts("signatures", ["Facts.v", "Loans.v"])
    model = None
    if not ok:
        problems.append(("mismatch", None, {"line": "T extractor - C20 " + msg}))
    else:
        model, err = c20_model(cells)
        if model is None:
            problems.append(("driver", None, "cannot evaluate Loans.accepts on the probe abstractions: " + err))
    # ---- the ill-ordered matrix: every function must carry a borrow-check error
    bad = Cells(BORROWS_PRELUDE)
    for c in cells:
        bad.add(c["id"], c["bad"])
    d = write_crate("borrows_bad", {"src/lib.rs": bad.source()}, False)
    rc, errs, tail = cargo_build(d)
    rejected, codes = {}, {}
    early = False
    for e in errs:
        if "borrows_bad" not in e["package"]:
            problems.append(("driver", None, f"the crate itself does not build: {e['rendered']}")); early = True
            continue
        hit = {bad.cell_at(l) for l in e["lines"]} - {None}
        if e["code"] in BORROWCK and hit:
            for h in hit:
                rejected.setdefault(h, set()).add(e["code"])
        elif e["code"] is None and ("aborting" in e["text"] or "could not compile" in e["text"]):
            pass
        else:
            early = True
            problems.append(("driver", None, f"borrows_bad: diagnostic {e['code']} that is not a borrow-check error (rustc stops before borrowck; the probes no longer type-check against this tree): {e['rendered'][:700]}"))
    if rc != 0 and not errs:
        problems.append(("driver", None, "cargo build of borrows_bad failed without diagnostics: " + tail)); early = True
    if not early:
        for c in cells:
            cid = c["id"]
            got_rejected = cid in rejected
            if not got_rejected:
                problems.append(("monitor", None, {"line": f"M {cid} - C20 {c['what']}: the ill-ordered program is accepted by the borrow checker",
                                                   "probe": BORROWS_PRELUDE + c["bad"] + "\n", "cell": cid, "expected": "rejected (one of " + " ".join(sorted(BORROWCK)) + ")",
                                                   "rustc": "accepted", "events": c["bad_events"]}))
            if model is not None:
                if not model.get(cid + "/bad#known", False):
                    problems.append(("mismatch", None, {"line": f"T {cid} - C20 {c['what']}: the extracted tables do not contain a method of {c['bad_events']}"}))
                elif model[cid + "/bad"] == got_rejected:
                    problems.append(("mismatch", None, {"line": f"T {cid} - C20 {c['what']}: Loans.accepts over the extracted Facts.v says {'accepted' if model[cid + '/bad'] else 'rejected'}, "
                                                                f"rustc says {'rejected ' + ' '.join(sorted(rejected[cid])) if got_rejected else 'accepted'}",
                                                        "probe": c["bad"], "events": c["bad_events"]}))
    # ---- the well-ordered twins: must compile, run, print the expected strings
    good = Cells(BORROWS_PRELUDE)
    for c in cells:
        good.add(c["id"], c["good"])
    kfree = keyfree_cells()
    for cid, src_, _ in kfree:
        good.add(cid, src_)
    main = ("fn main() {\n" + "".join(f"    {c['id']}();\n" for c in cells) + "".join(f"    {cid}();\n" for cid, _, _ in kfree)
            + "    println!(\"borrows_good ok\");\n}\n")
    d2 = write_crate("borrows_good", {"src/main.rs": good.source(main)}, True)
    rc2, errs2, tail2 = cargo_build(d2)
    if rc2 != 0:
        hit = sorted({good.cell_at(l) for e in errs2 for l in e["lines"]} - {None})
        first = errs2[0]["rendered"] if errs2 else tail2
        problems.append(("monitor", None, {"line": f"M borrows_good - C20 the well-ordered programs no longer compile (cells {hit[:8]}): {first[:700]}",
                                           "probe": BORROWS_PRELUDE + "\n".join(good.text[h] for h in hit[:3]), "expected": "compiles and runs"}))
    else:
        rrc, out = run_bin("borrows_good")
        lines = out.splitlines()
        want = ([f"{c['id']} " + ("gamma" if "StoreLocal" in c["bad_events"] else "alpha") for c in cells]
                + [f"{cid} alpha" for cid, _, _ in kfree] + ["borrows_good ok"])
        if rrc != 0 or lines != want:
            diff = next(((a, b) for a, b in zip(lines + ["<eof>"] * len(want), want) if a != b), None)
            problems.append(("monitor", None, {"line": f"M borrows_good - C20 the well-ordered programs print something else (rc {rrc}): first difference (got, want) = {diff}",
                                               "probe": good.source(main)[:4000]}))
    if model is not None:
        for c in cells:
            if not model.get(c["id"] + "/good", False):
                problems.append(("mismatch", None, {"line": f"T {c['id']} - C20 {c['what']}: Loans.accepts rejects the well-ordered twin {c['good_events']}"}))
    for c in cells[:2] + cells[len(cells) // 2: len(cells) // 2 + 1] + cells[-1:]:
        samples.append(c["bad"] + f"\n// events: {c['bad_events']}; rustc: {' '.join(sorted(rejected.get(c['id'], []))) or 'accepted'}")
    hist = {}
    for cs in rejected.values():
        for code in cs:
            hist[code] = hist.get(code, 0) + 1
    ev = {"evaluations": 2 * len(cells) + len(kfree), "distinct_nontrivial": len(cells), "key_dies_first_programs": len(kfree),
          "rule": "one ill-ordered probe function per (container or trait-object form) x (string-returning entry point) x (invalidating operation) that exists, plus the static entry "
                  "points fed a local String's &str; each must carry a borrow-check error (E0597 E0505 E0502 E0499 E0506 E0521 E0716 E0515 E0503) and its event abstraction must be rejected "
                  "by Loans.accepts over the regenerated Facts.v; the well-ordered twin of every probe is compiled into a binary, run, and must print the expected string; "
                  "non-trivial = the ill-ordered probes (each must be rejected)",
          "cells": len(cells), "rejected_by_rustc": len(rejected), "error_codes": hist, "samples": samples,
          "traces_validated_against_impl": 2 * len(cells), "repo": repo(), "wall_s_TM": round(time.time() - t0, 1)}
    return ev, problems, {}


# ------------------------------------------------------------------------------------------------ C16 / C17 forwarding
def forwarding_problems():
    """run the extractor, recompile Facts.v / Forward.v / Props/C16F.v / Props/C17F.v; -> list of problems (same conventions)"""
    problems = []
    ok, msg = refresh_facts("forwarding", ["Facts.v", "Forward.v"])
    if not ok:
        return [("mismatch", None, {"line": "T extractor - C16/C17 " + msg})]
    for f in ("Props/C16F.v", "Props/C17F.v"):
        c = sh(f"cd {COQ} && timeout 600 coqc -Q . Lasso {f}")
        n_print = len(re.findall(r"Print Assumptions", open(os.path.join(COQ, f)).read()))
        if c.returncode != 0:
            # which entries are to blame: ask the model
            rc, out = coq_eval("ForwardCells", "From Coq Require Import String List.\nFrom Lasso Require Import Facts Forward.\n"
                               "Eval vm_compute in (map (fun e => (fw_wrapper e, fw_trait e, fw_method e, fw_callee e)) "
                               "(filter (fun e => negb (entry_ok e || entry_declared e)) Facts.forwarding)).\n")
            problems.append(("mismatch", None, {"line": f"P {f} - the forwarding theorems no longer hold for the table extracted from src/interface: {c.stdout.strip()[-600:]}",
                                                "unfaithful_entries": re.sub(r"\s+", " ", out)[-1200:] if rc == 0 else "(could not evaluate)"}))
        elif c.stdout.count("Closed under the global context") < n_print:
            problems.append(("driver", None, f"{f}: Print Assumptions reports assumptions: {c.stdout[-600:]}"))
    return problems


# ------------------------------------------------------------------------------------------------ registration
def register(PROPS):
    PROPS["C19"] = {"engine": "rustc", "engine_fn": engine_c19, "monitors": ["C19"], "facts": "markers", "level": "proof",
                    "trusted_extra": ["C19: rustc 1.95 (trait selection) is the oracle on the probe matrix; the auto-trait rules of coq/Markers.v, incl. the DashMap rule taken from dashmap 6.0.0 / lock_api (trusted, only used when a manual impl is absent); "
                                      "tools/extract_facts.py (regex/brace reader of Rust source) -- cross-checked against rustc on all 104 cells each run; the theorem speaks about the model, the matrix about rustc"]}
    PROPS["C20"] = {"engine": "rustc", "engine_fn": engine_c20, "monitors": ["C20"], "facts": "signatures", "level": "proof",
                    "trusted_extra": ["C20: rustc 1.95 (NLL borrow checker) is the oracle on the probe matrix; coq/Loans.v models loans at signature level only (no two-phase borrows, no reborrow chains); "
                                      "tools/extract_facts.py reads lifetimes from signatures by regex -- cross-checked against rustc on every probe each run"]}


if __name__ == "__main__":
    which = sys.argv[1] if len(sys.argv) > 1 else "C19"
    if which == "snapshot":
        # copy the generated probe sources of the last run to /verif/probes/ (for reading; never compiled from there)
        dst = os.path.join(ROOT, "probes")
        os.makedirs(dst, exist_ok=True)
        for name, f in (("markers_all", "lib.rs"), ("markers_good", "main.rs"), ("borrows_bad", "lib.rs"), ("borrows_good", "main.rs")):
            src = os.path.join(PROBES, name, "src", f)
            if os.path.exists(src):
                shutil.copy(src, os.path.join(dst, name + ".rs")); print("wrote", os.path.join(dst, name + ".rs"))
        sys.exit(0)
    if which == "forwarding":
        ps = forwarding_problems()
        print(json.dumps(ps, indent=1)); sys.exit(1 if ps else 0)
    fn = {"C19": engine_c19, "C20": engine_c20}[which]
    ev, problems, _ = fn(which, {}, "quick", 0, "/tmp")
    print(json.dumps({k: v for k, v in ev.items() if k != "samples"}, indent=1))
    for p in problems[:40]:
        print(p[0], json.dumps(p[2] if not isinstance(p[2], dict) else {k: v for k, v in p[2].items() if k != "probe"})[:600])
    print(f"{len(problems)} problems")
    sys.exit(1 if problems else 0)
