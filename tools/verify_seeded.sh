#!/bin/bash
# verify_seeded.sh <src-dir containing patch.diff demo.rs meta.json> <name>
# Confirms, in a scratch worktree of /repo HEAD: the patch applies, both feature sets build, the pinned
# default-feature test-suite passes with the patch, the demo fails with the patch and passes without it.
# On success copies the three files to /verif/seeded/<name>/ and appends what was run to meta.json.
set -u
src=$1; name=$2
wt=/tmp/seedverify/$name
export CARGO_TARGET_DIR=/tmp/seedverify/target-$name CARGO_NET_OFFLINE=true
rm -rf "$wt"; mkdir -p /tmp/seedverify
git -C /repo worktree add -q --detach "$wt" HEAD || exit 2
cleanup() { git -C /repo worktree remove --force "$wt" 2>/dev/null; rm -rf "$CARGO_TARGET_DIR"; }
trap cleanup EXIT
cd "$wt"
log=/tmp/seedverify/$name.log; : > $log
git apply --check "$src/patch.diff" 2>>$log || { echo "$name: PATCH DOES NOT APPLY"; exit 1; }
mkdir -p examples
# unpatched demo must pass
cp "$src/demo.rs" examples/demo.rs
rundemo() { if [ -f "$src/demo.sh" ]; then timeout 900 bash "$src/demo.sh" >>$log 2>&1; else timeout 900 cargo run -q --offline --features multi-threaded,serialize --example demo >>$log 2>&1; fi; }
rundemo; clean_rc=$?
git apply "$src/patch.diff"
timeout 900 cargo build -q --offline >>$log 2>&1; b1=$?
timeout 900 cargo build -q --offline --features multi-threaded,serialize >>$log 2>&1; b2=$?
rundemo; mut_rc=$?
rm -f examples/demo.rs
timeout 1800 cargo test -q --offline --workspace --no-fail-fast >>$log 2>&1; t1=$?
echo "$name: clean_demo_rc=$clean_rc build_default=$b1 build_all=$b2 mutant_demo_rc=$mut_rc tests_default_rc=$t1"
if [ $clean_rc -eq 0 ] && [ $b1 -eq 0 ] && [ $b2 -eq 0 ] && [ $mut_rc -ne 0 ] && [ $t1 -eq 0 ]; then
  mkdir -p /verif/seeded/$name
  cp "$src/patch.diff" "$src/demo.rs" /verif/seeded/$name/; [ -f "$src/demo.sh" ] && cp "$src/demo.sh" /verif/seeded/$name/
  python3 - "$src/meta.json" /verif/seeded/$name/meta.json "$clean_rc" "$mut_rc" <<'PY'
import json,sys
m=json.load(open(sys.argv[1]))
m["confirmed_by_verify_seeded"]={"worktree":"scratch worktree of /repo HEAD","demo_on_clean_rc":int(sys.argv[3]),"demo_on_mutant_rc":int(sys.argv[4]),
  "builds":"cargo build --offline (default) and --features multi-threaded,serialize: ok",
  "tests":"cargo test --offline --workspace --no-fail-fast (default features, the pinned suite): pass with the patch applied"}
json.dump(m,open(sys.argv[2],"w"),indent=1)
PY
  echo "$name: KEPT"
else
  echo "$name: REJECTED (see $log)"
fi
