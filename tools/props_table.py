"""Which streams, monitors and theorems decide which property (see DESIGN.md section 7)."""
import itertools
import gen

def take(it, n):
    return itertools.islice(it, n)

def every(it, k):
    return itertools.islice(it, 0, None, k)

def Q(tier, q, t):
    return q if tier == "quick" else t

def s_C01(tier, rng):
    return [("corpus", gen.corpus()),
            ("long_strings", gen.long_strings(tier, rng, Q(tier, 60, 600))),
            ("arena_small", every(gen.arena_small(tier, rng), Q(tier, 9, 3))),
            ("random_histories", gen.random_histories(tier, rng, Q(tier, 1500, 12000))),
            ("statics_routes", gen.statics_routes(tier, rng, Q(tier, 300, 3000))),
            ("views", gen.views(tier, rng, Q(tier, 300, 3000))),
            ("clear_cycles", gen.clear_cycles(tier, rng, Q(tier, 150, 1500))),
            ("serde_roundtrip", gen.serde_roundtrip(tier, rng, Q(tier, 400, 4000)))]

def s_C02(tier, rng):
    return [("corpus", gen.corpus()),
            ("long_strings", gen.long_strings(tier, rng, Q(tier, 60, 600))),
            ("random_histories", gen.random_histories(tier, rng, Q(tier, 2000, 15000))),
            ("statics_routes", gen.statics_routes(tier, rng, Q(tier, 500, 5000))),
            ("clone_stream", gen.clone_stream(tier, rng, Q(tier, 300, 3000))),
            ("keyfill", gen.keyfill(tier, rng))]

def s_C04(tier, rng):
    return [("corpus", gen.corpus()),
            ("arena_small", every(gen.arena_small(tier, rng), Q(tier, 2, 1))),
            ("arena_variants", gen.arena_variants(tier, rng, Q(tier, 3000, 60000))),
            ("clone_stream", gen.clone_stream(tier, rng, Q(tier, 300, 3000))),
            ("serde_stream", gen.serde_stream(tier, rng, Q(tier, 400, 4000))),
            ("views", gen.views(tier, rng, Q(tier, 300, 3000))),
            ("random_histories", gen.random_histories(tier, rng, Q(tier, 600, 8000)))]

def s_C06(tier, rng):
    return [("corpus", gen.corpus()),
            ("long_strings", gen.long_strings(tier, rng, Q(tier, 60, 600))),
            ("views", gen.views(tier, rng, Q(tier, 1500, 20000))),
            ("keyfill", gen.keyfill(tier, rng)),
            ("statics_routes", gen.statics_routes(tier, rng, Q(tier, 300, 3000))),
            ("random_histories", gen.random_histories(tier, rng, Q(tier, 500, 6000)))]

def s_C07(tier, rng):
    return [("corpus", gen.corpus()),
            ("keyfill", gen.keyfill(tier, rng)),
            ("keyfill_mini", gen.keyfill_mini(rng)),
            ("memfail_then_more", gen.memfail_then_more(tier, rng, Q(tier, 1500, 20000))),
            ("arena_variants", gen.arena_variants(tier, rng, Q(tier, 800, 8000))),
            ("random_histories", gen.random_histories(tier, rng, Q(tier, 600, 8000)))]

def s_C08(tier, rng):
    return [("corpus", gen.corpus()),
            ("constructors", gen.constructors(rng)),
            ("arena_small", gen.arena_small(tier, rng)),
            ("arena_variants", gen.arena_variants(tier, rng, Q(tier, 4000, 80000))),
            ("memfail_then_more", gen.memfail_then_more(tier, rng, Q(tier, 600, 8000))),
            ("clear_cycles", gen.clear_cycles(tier, rng, Q(tier, 300, 3000))),
            ("clone_stream", gen.clone_stream(tier, rng, Q(tier, 200, 2000)))]

def s_C10(tier, rng):
    return [("corpus", gen.corpus()),
            ("iter_plans", gen.iter_plans(tier, rng, Q(tier, 1500, 20000))),
            ("keyfill", gen.keyfill(tier, rng)),
            ("memfail_then_more", gen.memfail_then_more(tier, rng, Q(tier, 800, 8000))),
            ("random_histories", gen.random_histories(tier, rng, Q(tier, 800, 8000)))]

def s_C12(tier, rng):
    return [("corpus", gen.corpus()),
            ("clone_stream", gen.clone_stream(tier, rng, Q(tier, 2000, 30000))),
            ("clone_full_keyspace", gen.clone_full_keyspace(rng)),
            ("arena_variants", gen.arena_variants(tier, rng, Q(tier, 800, 8000))),
            ("random_histories", gen.random_histories(tier, rng, Q(tier, 500, 6000)))]

def s_C13(tier, rng):
    return [("corpus", gen.corpus()),
            ("clear_cycles", gen.clear_cycles(tier, rng, Q(tier, 2000, 30000))),
            ("arena_variants", gen.arena_variants(tier, rng, Q(tier, 800, 8000))),
            ("random_histories", gen.random_histories(tier, rng, Q(tier, 500, 6000)))]

def s_C03(tier, rng):
    # the sequential side of "one key per string, forever": a restored concurrent interner whose tables grow
    return [("corpus", gen.corpus()),
            ("threaded_growth_after_de", gen.threaded_growth_after_de(tier, rng)),
            ("serde_roundtrip", gen.serde_roundtrip(tier, rng, Q(tier, 300, 3000)))]

def s_C14(tier, rng):
    return [("corpus", gen.corpus()),
            ("threaded_growth_after_de", gen.threaded_growth_after_de(tier, rng)),
            ("serde_big", gen.serde_big(tier, rng)),
            ("serde_roundtrip", gen.serde_roundtrip(tier, rng, Q(tier, 2000, 30000))),
            ("serde_stream", gen.serde_stream(tier, rng, Q(tier, 600, 6000))),
            ("serde_wide", gen.serde_wide(tier, rng, Q(tier, 40, 500))),
            ("serde_full_keyspace", gen.serde_full_keyspace(rng)),
            ("keyfill", gen.keyfill(tier, rng)),
            ("random_histories", gen.random_histories(tier, rng, Q(tier, 400, 5000)))]

def s_C15(tier, rng):
    return [("corpus", gen.corpus()),
            ("serde_in_place", gen.serde_in_place(tier, rng, Q(tier, 300, 3000))),
            ("serde_big", gen.serde_big(tier, rng)),
            ("serde_stream", gen.serde_stream(tier, rng, Q(tier, 3000, 50000))),
            ("serde_wide", gen.serde_wide(tier, rng, Q(tier, 100, 1000))),
            ("serde_full_keyspace", gen.serde_full_keyspace(rng)),
            ("serde_roundtrip", gen.serde_roundtrip(tier, rng, Q(tier, 500, 5000)))]

def s_C16(tier, rng):
    return [("corpus", gen.corpus()),
            ("statics_routes", gen.statics_routes(tier, rng, Q(tier, 1500, 40000))),
            ("views", gen.views(tier, rng, Q(tier, 500, 5000))),
            ("random_histories", gen.random_histories(tier, rng, Q(tier, 600, 8000)))]

def s_C17(tier, rng):
    # the same histories under every route: the result must not depend on V= (the model ignores it)
    import random as _r
    def routed():
        n = 0
        for k in range(Q(tier, 200, 3000)):
            seed = rng.randrange(1 << 30)
            for V in gen.ROUTES:
                yield gen.random_history(_r.Random(seed), f"rt{k}-{V}", Q(tier, 40, 120), V=V)
    return [("corpus", gen.corpus()),
            ("collections", gen.collections(tier, rng, Q(tier, 1000, 15000))),
            ("collections_bulk", gen.collections_bulk(tier, rng, Q(tier, 24, 500))),
            ("routed_histories", routed()),
            ("statics_routes", gen.statics_routes(tier, rng, Q(tier, 600, 6000))),
            ("views", gen.views(tier, rng, Q(tier, 400, 4000)))]

def s_C18(tier, rng):
    return [("corpus", gen.corpus()),
            ("eq_pairs", gen.eq_pairs(tier, rng, Q(tier, 3000, 50000))),
            ("eq_after_exhaustion", gen.eq_after_exhaustion(rng)),
            ("eq_static_slices", gen.eq_static_slices(rng, Q(tier, 200, 2000))),
            ("eq_after_memfail", gen.eq_after_memfail(rng, Q(tier, 200, 2000))),
            ("keyfill", gen.keyfill(tier, rng)),
            ("serde_roundtrip", gen.serde_roundtrip(tier, rng, Q(tier, 400, 4000)))]

ALLMON = ["C01", "C02", "C04", "C06", "C07", "C08", "C10", "C12", "C13", "C14", "C15", "C16", "C18", "EXP"]

PROPS = {
    "C01": {"translate": ["arena", "lockfree", "rodeo", "threaded", "views"], "streams": s_C01, "monitors": ["C01"], "conc_monitors": ["C03", "C05", "C16"]},
    "C02": {"translate": ["rodeo", "threaded", "views", "clone"], "streams": s_C02, "monitors": ["C02"], "props_extra": ["C02H"], "conc_monitors": ["C03"]},
    "C04": {"translate": ["arena", "lockfree", "rodeo"], "streams": s_C04, "monitors": ["C04"], "conc_monitors": ["C05", "C04", "PANIC"], "props_extra": ["C04D", "C05R"], "orderings": True, "sreplay": True, },
    "C06": {"translate": ["rodeo", "threaded", "views", "iters"], "streams": s_C06, "monitors": ["C06", "C01", "C02"], "props_extra": ["C06B"]},
    "C07": {"translate": ["keys", "rodeo", "threaded"], "streams": s_C07, "monitors": ["C07"], "conc_monitors": ["C07"]},
    "C08": {"translate": ["arena", "lockfree"], "streams": s_C08, "monitors": ["C08"], },
    "C10": {"translate": ["rodeo", "threaded", "clone", "iters"], "streams": s_C10, "monitors": ["C10"]},
    "C12": {"translate": ["arena", "rodeo", "clone"], "streams": s_C12, "monitors": ["C12", "C01", "C02"]},
    "C13": {"translate": ["arena", "rodeo"], "streams": s_C13, "monitors": ["C13", "C01", "C02", "C07", "C08", "C10"]},
    "C14": {"translate": ["serde"], "streams": s_C14, "monitors": ["C14", "C01", "C02", "C10", "EXP"], "conc_monitors": ["C14"]},
    "C15": {"translate": ["serde"], "streams": s_C15, "monitors": ALLMON},
    "C16": {"translate": ["rodeo", "threaded"], "streams": s_C16, "monitors": ["C16"], "conc_monitors": ["C16"], "forwarding": True, "facts": "forwarding", "props_extra": ["C16F"]},
    "C17": {"streams": s_C17, "monitors": ["C17"], "forwarding": True, "facts": "forwarding", "props_extra": ["C17F"]},
    "C18": {"streams": s_C18, "monitors": ["C18"]},
}

# engines for the non-sequential properties are registered by their own modules
for modname in ("eng_keys", "eng_conc", "eng_rustc"):
    try:
        mod = __import__(modname)
        mod.register(PROPS)
    except ImportError:
        pass

# C03 is decided on schedules, but "one key per string, forever" also has a sequential side (a restored interner whose
# tables grow): the conc engine runs first, then these streams through the sequential correspondence
if "C03" in PROPS:
    PROPS["C03"]["streams"] = s_C03
    PROPS["C03"]["seq_monitors"] = ["C03", "C01", "C02", "C10", "C14", "EXP"]
