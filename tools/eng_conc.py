"""Engines for the concurrent properties C03, C05, C09: controlled schedules of the real ThreadedRodeo
(harness/concdriver) validated event by event against Conc.step (runner/creplay), plus the driver's monitors,
plus (thorough tier) a free-running stress run whose monitors are the failing-input search."""
import os, re, subprocess, time, random, json

ROOT = os.path.dirname(os.path.dirname(os.path.abspath(__file__)))
TARGET = os.path.join(ROOT, "build", os.environ.get("VERIF_ALT", "alt"), "target") if os.environ.get("VERIF_REPO") else os.path.join(ROOT, "build", "target")
CREPLAY = os.path.join(ROOT, "build", "bin", "creplay")

def hx(b):
    return b.hex() if b else "-"

# strings: first byte decides the shard (ShardHasher), so 'a..' / 'b..' are cross-shard, 'a1' / 'a2' same shard
def S(first, n, j=0):
    return (first + "".join(chr(48 + (j + i) % 10) for i in range(n - 1))).encode() if n > 0 else b""

def sched(rng, nthreads, length, style):
    out = []
    if style == "uniform":
        out = [rng.randrange(nthreads) for _ in range(length)]
    elif style == "runs":
        while len(out) < length:
            t = rng.randrange(nthreads)
            out += [t] * rng.choice([1, 1, 2, 3, 5, 8])
    elif style == "lockstep":
        out = [i % nthreads for i in range(length)]
    else:  # pct-like: one thread runs, a few preemption points
        order = list(range(nthreads)); rng.shuffle(order)
        pts = sorted(rng.sample(range(length), min(3, length)))
        cur = 0
        for i in range(length):
            if i in pts:
                cur = (cur + 1) % nthreads
            out.append(order[cur])
    return out

def conc_case(cid, K, cap, lim, progs, schedule, seed=1):
    ps = " ; ".join(",".join(p) if p else "-" for p in progs)
    return f"CONC {cid} K={K} CAP={cap} LIM={lim} SEED={seed} ; {ps} | " + " ".join(map(str, schedule))

def gen_cases(prop, tier, rng):
    n = {"quick": 260, "thorough": 4000}[tier]
    out = []
    styles = ["uniform", "runs", "lockstep", "pct"]
    for i in range(n):
        fam = i % 8
        nt = rng.choice([2, 2, 2, 3, 3, 4])
        K, cap, lim = "spur", rng.choice([1, 2, 3, 4, 8, 16]), "max"
        progs = []
        if fam == 0:      # same string, copy/static mix
            s = S("a", rng.choice([0, 1, 2, 3]))
            if i % 32 == 0:   # a long string: size-dependent paths (block larger than the default, out-of-lock copies)
                s = S("a", rng.choice([4095, 4096, 4097, 6000])); cap = rng.choice([16, 4096, 8192])
            for t in range(nt):
                progs.append([rng.choice(["I:", "I:", "IS:"]) + hx(s)] + ([f"G:{hx(s)}"] if rng.random() < 0.5 else []))
        elif fam == 1:    # different strings, same shard (same first byte), same bucket
            cap = rng.choice([8, 16, 32])
            for t in range(nt):
                progs.append([f"I:{hx(S('a', rng.choice([1, 2, 3]), 3 * t + j))}" for j in range(rng.choice([1, 2]))])
        elif fam == 2:    # different strings, different shards, one big bucket: CAS races on one length
            cap = rng.choice([8, 16, 64])
            for t in range(nt):
                progs.append([f"I:{hx(S(chr(97 + t), rng.choice([1, 2, 3]), j))}" for j in range(rng.choice([1, 2, 3]))])
        elif fam == 3:    # tiny blocks: every call pushes a new block
            cap = rng.choice([1, 1, 2])
            for t in range(nt):
                progs.append([f"I:{hx(S(chr(97 + t), rng.choice([2, 3, 5, 9]), j))}" for j in range(rng.choice([1, 2]))])
        elif fam == 4:    # racing for the last keys of a tiny key type
            K = rng.choice(["cap1", "cap2", "cap3"]); cap = 16
            for t in range(nt):
                progs.append([rng.choice(["I:", "IS:"]) + hx(S(chr(97 + t), 2, j)) for j in range(2)] + [f"R:{rng.randrange(0, 3)}"])
        elif fam == 5:    # limits close to usage (the budget step), cross-shard
            cap = rng.choice([1, 2, 4]); lim = str(cap + rng.randrange(0, 3 * cap + 6))
            for t in range(nt):
                progs.append([f"I:{hx(S(chr(97 + t), rng.choice([1, 2, 2 * cap, 2 * cap + 1, 3]), j))}" for j in range(rng.choice([1, 2]))] + (["U"] if rng.random() < 0.6 else []))
        elif fam == 6:    # limit changes racing with interning
            cap = rng.choice([1, 2, 4]); lim = str(cap + rng.randrange(0, 8))
            for t in range(nt - 1):
                progs.append([f"I:{hx(S(chr(97 + t), rng.choice([1, 2, 3]), j))}" for j in range(2)] + ["U"])
            progs.append([f"L:{rng.choice(['max', str(cap + rng.randrange(0, 12))])}", "U", f"L:{cap + rng.randrange(0, 12)}"])
        else:             # readers racing with writers
            s1, s2 = S("a", 2), S("b", 3)
            progs.append([f"I:{hx(s1)}", f"IS:{hx(s2)}"])
            progs.append([f"G:{hx(s1)}", "R:0", f"G:{hx(s2)}", "R:1", f"I:{hx(s2)}"])
            for t in range(nt - 2):
                progs.append([f"I:{hx(s1)}", "R:0", "R:1", f"G:{hx(s2)}"])
        length = rng.choice([30, 60, 120])
        out.append(conc_case(f"cc{i}", K, cap, lim, progs, sched(rng, len(progs), length, styles[(i // 8) % 4]), seed=i))
    # systematic: every schedule with at most two preemptions (thread x runs a events, thread y runs b events, then x
    # to completion, then y) of a few two-thread program pairs -- all ways one call can be cut in two around the other
    pairs = [
        ("spur", 8, "max", [[f"I:{hx(S('a', 3))}"], [f"I:{hx(S('b', 3))}"]]),            # same bucket, CAS race
        ("spur", 1, "max", [[f"I:{hx(S('a', 2))}"], [f"I:{hx(S('b', 2))}"]]),            # both push a new block
        ("spur", 1, "4",   [[f"I:{hx(S('a', 2))}"], [f"I:{hx(S('b', 2))}"]]),            # the budget step (F2)
        ("spur", 8, "max", [[f"I:{hx(S('a', 2))}"], [f"I:{hx(S('a', 2))}", f"G:{hx(S('a', 2))}", "R:0"]]),   # same string
        ("spur", 8, "max", [[f"IS:{hx(S('a', 2))}"], [f"IS:{hx(S('a', 2))}", "R:0"]]),   # static / static, equal content
        ("spur", 4096, "max", [[f"I:{hx(S('a', 4100))}"], [f"I:{hx(S('a', 4100))}", "R:0"]]),   # same LONG string (>= 4 KiB)
        ("cap1", 8, "max", [[f"I:{hx(S('a', 2))}"], [f"IS:{hx(S('b', 2))}", "R:0"]]),    # the last key
        ("spur", 8, "max", [[f"I:{hx(S('a', 2))}", f"I:{hx(S('a', 2, 5))}"], [f"G:{hx(S('a', 2))}", "R:0", f"G:{hx(S('a', 2, 5))}"]]),  # reader vs writer, same shard
    ]
    stepq = 1 if tier == "thorough" else 4
    k = 0
    for K, cap, lim, progs in pairs:
        for first in (0, 1):
            for a in range(0, 30, stepq):
                for b in range(0, 30, stepq):
                    sch = [first] * a + [1 - first] * b + [first] * 40 + [1 - first] * 40
                    out.append(conc_case(f"sy{k}", K, cap, lim, progs, sch, seed=k)); k += 1
    # corpus: the F2 witness schedule (both threads check the budget, then both add)
    out.insert(0, conc_case("corpus-F2", "spur", 1, 4, [[f"I:{hx(b'ab')}"], [f"I:{hx(b'cd')}"]], [0, 1] * 40))
    return out

def run_driver(profile, cases_file, trace_file, timeout_ms=None):
    exe = os.path.join(TARGET, profile, "concdriver")
    skip = None
    open(trace_file, "w").close()
    mon_all = []
    for _ in range(50):   # the driver exits with 3 after a deadlock/timeout: continue behind the offending case
        tmp = trace_file + ".part"
        cmd = [exe, "run", cases_file, tmp] + (["--skip-to", skip] if skip else []) + (["--timeout-ms", str(timeout_ms)] if timeout_ms else [])
        r = subprocess.run(cmd, stdout=subprocess.PIPE, stderr=subprocess.STDOUT, text=True, timeout=3000)
        if os.path.exists(tmp):
            txt = open(tmp, errors="replace").read()
            open(trace_file, "a").write(txt)
            if os.path.exists(tmp + ".mon"):
                mon_all += [l.rstrip("\n") for l in open(tmp + ".mon", errors="replace")]
            last = [l for l in txt.splitlines() if l.startswith("BEGIN ")]
            if r.returncode == 3 and last:
                skip = last[-1][6:]
                continue
        if r.returncode not in (0, 3):
            mon_all.append(f"M ? DRIVER concdriver {profile} exited with {r.returncode}: {r.stdout[-300:]}")
        break
    return mon_all

def replay_one(case_line, work, tag, profiles=("debug", "release"), srexe=None):
    cf = os.path.join(work, f"{tag}.conc"); open(cf, "w").write(case_line + "\n")
    res = {"bad": [], "monitors": [], "sync": []}
    for prof in profiles:
        tf = os.path.join(work, f"{tag}.{prof}.trace")
        mons = run_driver(prof, cf, tf)
        rep = os.path.join(work, f"{tag}.{prof}.rep")
        subprocess.run([CREPLAY, cf, tf, rep], timeout=600)
        res["bad"] += [f"[{prof}] {l.strip()}" for l in open(rep) if l.startswith("BAD")]
        res["monitors"] += [f"[{prof}] {m}" for m in mons]
        if srexe:
            so = os.path.join(work, f"{tag}.{prof}.sync")
            subprocess.run([srexe, tf, so], stdout=subprocess.DEVNULL, stderr=subprocess.DEVNULL, timeout=600)
            if os.path.exists(so):
                res["sync"] += [f"[{prof}] {l.strip()[:600]}" for l in open(so) if l.startswith(("SRACE", "SREJECT"))]
    return res

def shrink_schedule(case_line, work, still_fails):
    left, schedule = case_line.split(" | ")
    s = schedule.split()
    n, budget = 2, 60
    while len(s) >= 2 and budget > 0:
        chunk = max(1, len(s) // n); reduced = False
        for i in range(0, len(s), chunk):
            cand = s[:i] + s[i + chunk:]
            budget -= 1
            if still_fails(left + " | " + " ".join(cand)):
                s = cand; n = max(n - 1, 2); reduced = True; break
            if budget <= 0:
                break
        if not reduced:
            if chunk == 1:
                break
            n = min(len(s), n * 2)
    return left + " | " + " ".join(s)

def engine(prop, spec, tier, seed, work):
    t0 = time.time()
    rng = random.Random(seed * 7919 + int(prop[1:]))
    cases = gen_cases(prop, tier, rng)
    cf = os.path.join(work, "cases.conc"); open(cf, "w").write("\n".join(cases) + "\n")
    by_id = {c.split(" ", 2)[1]: c for c in cases}
    problems, nev, ok, retried = [], 0, 0, 0
    nontrivial = set()
    mons_wanted = spec.get("monitors", [prop])
    for prof in ("debug", "release"):
        tf = os.path.join(work, f"all.{prof}.trace")
        mons = run_driver(prof, cf, tf)
        rep = os.path.join(work, f"all.{prof}.rep")
        r = subprocess.run([CREPLAY, cf, tf, rep], stdout=subprocess.PIPE, stderr=subprocess.STDOUT, text=True, timeout=3000)
        if r.returncode != 0:
            problems.append(("driver", None, f"creplay crashed: {r.stdout[-300:]}"))
            continue
        for l in open(rep):
            p = l.split(" ", 2)
            if p[0] == "OK":
                ok += 1; nev += int(p[2].split("=")[1])
            elif p[0] == "BAD":
                if "ended in TIMEOUT" in l and p[1] in by_id:
                    # "nothing happened for 5 s" can be a loaded machine instead of a livelock: once more, alone, with 60 s
                    retried += 1
                    cf1 = os.path.join(work, f"retry{retried}.conc"); open(cf1, "w").write(by_id[p[1]] + "\n")
                    tf1 = os.path.join(work, f"retry{retried}.{prof}.trace"); rep1 = os.path.join(work, f"retry{retried}.{prof}.rep")
                    mons1 = run_driver(prof, cf1, tf1, timeout_ms=60000)
                    subprocess.run([CREPLAY, cf1, tf1, rep1], timeout=600)
                    lines1 = [x for x in open(rep1)] if os.path.exists(rep1) else []
                    if lines1 and all(x.startswith("OK") for x in lines1):
                        ok += 1; mons += mons1
                        continue
                    l = (lines1[0] if lines1 else l)
                problems.append(("mismatch", p[1], {"profile": prof, "line": l.strip()}))
        for m in mons:
            p = m.split(" ", 3)
            if len(p) >= 3 and (p[2] in mons_wanted or p[2] in ("DRIVER", "MON")):
                problems.append(("monitor", p[1], {"profile": prof, "line": m}))
        if prof == "debug":
            cur = None
            for l in open(tf, errors="replace"):
                if l.startswith("BEGIN "):
                    cur = l[6:].strip()
                elif l.startswith("EV ") and cur:
                    q = l.split()
                    # a failed CAS (len or head or usage retry) or an error answer makes a schedule non-trivial
                    if (q[2] in ("25", "38") and q[3] == "0"):
                        nontrivial.add(cur)
                elif l.startswith("RET ") and cur and (" E:" in l):
                    nontrivial.add(cur)
    sync_stats = None
    if spec.get("sreplay"):
        # C05's data-race clause: every real trace must be an execution of Sync.v's release/acquire skeleton under the
        # orderings extracted from the source in this run, and the view machine must flag no race on it
        srdir = os.path.join(work, "sreplay")
        coqdir = os.environ.get("VERIF_COQ_DIR", os.path.join(ROOT, "coq"))
        r = subprocess.run([os.path.join(ROOT, "runner", "sreplay", "build.sh"), srdir, coqdir], stdout=subprocess.PIPE, stderr=subprocess.STDOUT, text=True, timeout=900)
        if r.returncode != 0:
            problems.append(("driver", None, f"sreplay does not build: {r.stdout[-400:]}"))
        else:
            sync_stats = {"SOK": 0, "SREJECT": 0, "SRACE": 0, "SSKIP": 0, "labels": 0}
            for prof in ("debug", "release"):
                tf = os.path.join(work, f"all.{prof}.trace"); so = os.path.join(work, f"all.{prof}.sync")
                r = subprocess.run([os.path.join(srdir, "sreplay"), tf, so], stdout=subprocess.PIPE, stderr=subprocess.STDOUT, text=True, timeout=3000)
                if r.returncode != 0 or not os.path.exists(so):
                    problems.append(("driver", None, f"sreplay crashed: {r.stdout[-300:]}")); continue
                for l in open(so):
                    q = l.split(" ", 2)
                    if q[0] in sync_stats:
                        sync_stats[q[0]] += 1
                    if q[0] == "SOK":
                        m_ = re.search(r"labels=(\d+)", l); sync_stats["labels"] += int(m_.group(1)) if m_ else 0
                    elif q[0] in ("SREJECT", "SRACE"):
                        # a case already reported by the SC replay (e.g. TIMEOUT) is not reported twice
                        problems.append(("sync", q[1], {"profile": prof, "line": l.strip()[:600]}))
    stress = None
    if True:
        # free-running threads (no parking): the failing-input search for interleavings finer than the hook points
        # (e.g. a read-modify-write split into a load and a store inside one segment) -- monitors only
        mf = os.path.join(work, "stress.mon")
        secs = "120" if tier == "thorough" else "4"
        r = subprocess.run([os.path.join(TARGET, "release", "concdriver"), "stress", secs, "16", str(seed), mf], stdout=subprocess.PIPE, stderr=subprocess.STDOUT, text=True, timeout=3000)
        stress = r.stdout.strip().splitlines()[-1:] if r.stdout else []
        if os.path.exists(mf):
            for m in open(mf):
                p = m.split(" ", 3)
                if len(p) >= 3 and p[2] in mons_wanted:
                    problems.append(("monitor", None, {"profile": "release/free-running", "line": m.strip()}))
    # shrink the first problem to a minimal schedule and make it the replay
    replay = None
    first = next((p for p in problems if p[1] in by_id), None)
    if first:
        cid = first[1]
        srexe = os.path.join(work, "sreplay", "sreplay") if first[0] == "sync" else None
        def fails(cl):
            r = replay_one(cl, work, "shrink", srexe=srexe)
            if srexe:
                return bool(r["sync"])
            return bool(r["bad"]) or any((m.split("] ", 1)[-1].split(" ", 3) + ["", "", ""])[2] in mons_wanted for m in r["monitors"])
        small = shrink_schedule(by_id[cid], work, fails) if fails(by_id[cid]) else by_id[cid]
        r = replay_one(small, work, "final", srexe=srexe)
        replay = {"case": small, "original_case": by_id[cid], "trace_disagreements": r["bad"], "monitors": r["monitors"],
                  "how_to_replay": "harness concdriver run <file with this CONC line> <trace>; runner creplay <cases> <trace> <report>"}
        if srexe:
            replay["sync_replay"] = r["sync"]
            replay["sync_race_on_real_trace"] = any("SRACE" in x for x in r["sync"])
            replay["how_to_replay"] += "; runner/sreplay/build.sh <dir> && <dir>/sreplay <trace> <out>  (the trace of this case through the extracted Sync.step under the orderings of the source)" 
    ev = {"evaluations": 2 * len(cases), "distinct_nontrivial": len(nontrivial),
          "rule": "controlled schedules (uniform / runs / lock-step / few-preemption) of 2-4 threads over 8 program families (same-string races, same-shard and cross-shard different strings, tiny blocks, last-key races, limits near usage, racing limit changes, readers vs writers), each run on the debug and the release build; "
                  "non-trivial = the schedule made at least one compare-and-swap fail or a call return an error; every trace is replayed through Conc.step",
          "traces_validated_against_impl": ok, "events_replayed": nev, "samples": cases[:3] + cases[-2:], "wall_s_TM": round(time.time() - t0, 1)}
    if stress is not None:
        ev["free_running"] = stress
    if retried:
        ev["timeouts_retried_alone_with_60s"] = retried
    if sync_stats is not None:
        ev["sync_replay"] = dict(sync_stats, rule="every trace mapped to Sync.label's and run through the extracted Sync.step under the orderings extracted in this run: SOK = accepted and race-free")
    if replay:
        ev["_replay"] = replay
    return ev, problems, {}

def register(PROPS):
    common = {"engine": "conc", "engine_fn": engine, "orderings": True,
              "trusted_extra": ["the controlled scheduler parks threads only at the lasso_verif points: interleavings finer than that (and weak-memory reorderings; the hardware is x86-TSO) are not exhibited by the tie, they are covered by the model-level theorems only",
                                "the point-granularity argument of DESIGN.md section 4.4 (between two points a thread touches shared mutable state at most once) is made on paper",
                                "DashMap is modelled as an association list guarded by per-shard reader-writer locks; its internals are not verified"]}
    PROPS["C03"] = dict(common, monitors=["C03", "C07"], translate=["threaded"])
    PROPS["C05"] = dict(common, monitors=["C05"], orderings=True, props_extra=["C05R"], sreplay=True, translate=["lockfree"],
                        trusted_extra=common["trusted_extra"] + ["C05 data-race clause: coq/Sync.v is a hand-written release/acquire view machine (promise-free; SeqCst treated as AcqRel; locks as release/acquire channels) running a hand-abstracted synchronisation skeleton of the arena; only the 16 atomic orderings and two textual-order facts are extracted from the source (tools/extract_orderings.py, which fails on any atomic access it cannot attribute)"])
    PROPS["C09"] = dict(common, monitors=["C09"], props_extra=["C09L"], translate=["lockfree"])
