#!/bin/bash
# crosscheck.sh <cases> <N>
# Removes the Coq extraction and the OCaml compiler from the trusted base for a sample of cases:
# the runner (variant B) logs every call of the extracted Rodeo.step it makes for the first N cases
# and writes them as Coq Examples  snd (run h cand growf keycap [] ops) = outs ;  coqc then
# re-evaluates the model itself (vm_compute) and must reproduce exactly the outputs the runner got.
# Prints  CROSSCHECK ok cases=<k> skipped=<m> wall=<s>  (exit 0)
#     or  CROSSCHECK FAILED <first error lines>         (exit 1).
# skipped = cases of the sample over the size caps (> 400 model calls, a string > 64 bytes,
# a number >= 2^62 other than usize_max).
cases=$1
n=$2
if [ -z "$cases" ] || [ -z "$n" ] || [ ! -r "$cases" ]; then
  echo "usage: crosscheck.sh <cases> <N>" >&2
  exit 2
fi
work=/verif/build/work
mkdir -p $work
base=crosscheck_$$
v=$work/$base.v
log=$work/$base.log
cleanup() {
  rm -f $v $work/$base.vo $work/$base.vos $work/$base.vok $work/$base.glob $work/.$base.aux $work/$base.out $log
}
trap cleanup EXIT
t0=$(date +%s.%N)

if ! /verif/build/bin/runner "$cases" $work/$base.out B --emit-coq $v "$n" > $log 2>&1; then
  echo "CROSSCHECK FAILED runner: $(head -5 $log | tr '\n' ' ')"
  exit 1
fi
summary=$(grep -E '^\(\* crosscheck: emitted=[0-9]+ skipped=[0-9]+ \*\)$' $v | tail -1)
k=$(echo "$summary" | sed -E 's/.*emitted=([0-9]+).*/\1/')
m=$(echo "$summary" | sed -E 's/.*skipped=([0-9]+).*/\1/')
# the file must hold exactly the announced number of closed Examples
ex=$(grep -c '^Example case_' $v)
qed=$(grep -c '^Proof\. vm_compute\. reflexivity\. Qed\.$' $v)
if [ -z "$summary" ] || [ "$ex" != "$k" ] || [ "$qed" != "$k" ]; then
  echo "CROSSCHECK FAILED malformed file: summary='$summary' examples=$ex qeds=$qed"
  exit 1
fi

(cd $work && timeout 600 coqc -Q /verif/coq Lasso $v) > $log 2>&1
rc=$?
t1=$(date +%s.%N)
wall=$(echo "$t1 $t0" | awk '{printf "%.1f", $1 - $2}')
if [ $rc -ne 0 ] || [ ! -s $work/$base.vo ]; then
  [ $rc -eq 124 ] && echo "timeout after 600s" >> $log
  echo "CROSSCHECK FAILED rc=$rc wall=$wall"
  # the first error, with the name of the Example it is in
  line=$(sed -nE 's/^File "[^"]*", line ([0-9]+),.*/\1/p' $log | head -1)
  if [ -n "$line" ]; then
    head -n "$line" $v | grep -E '^(\(\* case |Example case_)' | tail -2 | sed -E 's/ : snd.*//'
  fi
  grep -v '^WARNING conda' $log | head -12
  exit 1
fi
echo "CROSSCHECK ok cases=$k skipped=$m wall=$wall"
exit 0
