"""C11 engine: the implementation's key types, swept pointwise (keysweep), against Keys.summary (Coq, extracted)."""
import os, subprocess, time

ROOT = os.path.dirname(os.path.dirname(os.path.abspath(__file__)))
TARGET = os.path.join(ROOT, "build", os.environ.get("VERIF_ALT", "alt"), "target") if os.environ.get("VERIF_REPO") else os.path.join(ROOT, "build", "target")
RUNNER = os.path.join(ROOT, "build", "bin", "runner")

def engine(prop, spec, tier, seed, work):
    t0 = time.time()
    exe = os.path.join(TARGET, "release", "keysweep")
    r = subprocess.run([exe, tier, str(seed)], stdout=subprocess.PIPE, stderr=subprocess.STDOUT, text=True, timeout=3000)
    m = subprocess.run([RUNNER, "--keys"], stdout=subprocess.PIPE, stderr=subprocess.STDOUT, text=True, timeout=300)
    problems = []
    if r.returncode != 0:
        problems.append(("driver", None, f"keysweep exited with {r.returncode}: {r.stdout[-400:]}"))
    summary = {}
    for line in m.stdout.splitlines():
        p = line.split()
        if p and p[0] == "SUMMARY":
            summary.setdefault(p[1], []).append((int(p[2]), int(p[3]), p[4]))
    runs, points, seen_keys = {}, 0, set()
    samples = []
    for line in r.stdout.splitlines():
        p = line.split()
        if not p:
            continue
        if p[0] == "RUN":
            name, a, b, kind = p[1], int(p[2]), int(p[3]), p[4]
            runs.setdefault(name, []).append((a, b, kind))
            if len(samples) < 12:
                samples.append(line)
            ok = any(lo <= a and b <= hi and kind == k for lo, hi, k in summary.get(name, []))
            if not ok:
                # the first index of the run that leaves the model's interval is the failing input
                bad = a
                for lo, hi, k in summary.get(name, []):
                    if lo <= a <= hi and kind == k and b > hi:
                        bad = hi + 1
                problems.append(("monitor", None, {"line": f"M keysweep - C11 {name}: try_from_usize is `{kind}` on the sampled indices [{a}, {b}] but Keys.summary says {summary.get(name)}; first offending index {bad}",
                                                   "index": bad, "key_type": name}))
        elif p[0] == "KEY":
            seen_keys.add(p[1])
            if "size_opt_eq=1" not in line or "default_ok=1" not in line:
                problems.append(("monitor", None, {"line": f"M keysweep - C11 {line}"}))
        elif p[0] == "SERDE":
            if not line.endswith("bad=[]"):
                problems.append(("monitor", None, {"line": f"M keysweep - C11 serde round trip / rejection wrong: {line}"}))
            samples.append(line)
        elif p[0] == "VIOL":
            problems.append(("monitor", None, {"line": f"M keysweep - C11 {line}"}))
    for name in ("micro", "mini", "spur", "large"):
        if name not in seen_keys or name not in runs:
            problems.append(("driver", None, f"keysweep printed nothing for {name}"))
        else:
            # the boundary itself must have been evaluated on both sides
            cap = summary[name][0][1] + 1
            if not any(a <= cap - 1 <= b and k == "some" for a, b, k in runs[name]) or not any(a <= cap <= b and k == "none" for a, b, k in runs[name]):
                problems.append(("monitor", None, {"line": f"M keysweep - C11 {name}: the boundary {cap - 1} / {cap} is not where Keys.v puts it: runs {runs[name][:4]}"}))
    dense = (1 << 17) if tier == "quick" else (1 << 32) + (1 << 20)
    ev = {"evaluations": 4 * dense, "distinct_nontrivial": 4 * 2,
          "rule": "every index below `dense_upto` plus boundary windows around 2^8, 2^16, 2^32, 2^63, usize::MAX and random 64-bit indices is evaluated on all four key types "
                  "(try_from_usize, into_usize, raw value, Ord against the predecessor); non-trivial = the maximal runs of equal behaviour (2 per key type: accepted / rejected), each compared with Keys.summary",
          "dense_upto": dense, "exhaustive": tier != "quick", "samples": samples, "wall_s_TM": round(time.time() - t0, 1),
          "traces_validated_against_impl": sum(len(v) for v in runs.values())}
    return ev, problems, {}

def register(PROPS):
    PROPS["C11"] = {"engine": "keys", "engine_fn": engine, "monitors": ["C11"], "translate": ["keys"],
                    "trusted_extra": ["C11: the pointwise sweep of the implementation is exhaustive below 2^32+2^20 only in the thorough tier; serde_json is the wire format used for the round trip"]}
