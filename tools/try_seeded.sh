#!/bin/bash
# try_seeded.sh <seeded-name> <prop> [<prop>...]: apply the seeded change to /repo, run the checks, undo it.
name=$1; shift
git -C /repo apply /verif/seeded/$name/patch.diff || { echo "cannot apply $name"; exit 2; }
trap 'git -C /repo checkout -- . ' EXIT
for p in "$@"; do
  out=$(cd /verif && ./check $p 2>&1 | grep -E "^(VIOLATION|OK|KNOWN)" | head -3)
  echo "$name $p: $out"
done
