#!/bin/bash
# try_seeded.sh <seeded-name> <prop> [<prop>...]
# Applies the seeded change to a SCRATCH worktree of /repo (never to /repo itself while other work is going on),
# runs the checks against it (VERIF_REPO), removes the worktree.  For the final confirmation on /repo itself
# use: git -C /repo apply seeded/<name>/patch.diff; ./check <prop>; git -C /repo checkout -- .
name=$1; shift
wt=/tmp/mutrepo-$$
lane=${VERIF_ALT:-alt}
git -C /repo worktree add -q --detach $wt HEAD || exit 2
trap 'git -C /repo worktree remove --force '$wt' 2>/dev/null' EXIT
git -C $wt apply /verif/seeded/$name/patch.diff || { echo "cannot apply $name"; exit 2; }
for p in "$@"; do
  out=$(cd /verif && VERIF_REPO=$wt ./check $p 2>&1 | grep -E "^(VIOLATION|OK|KNOWN)" | head -3)
  echo "$name $p: $out"
done
