#!/usr/bin/env python3
"""Case generation for the sequential correspondence (format: /verif/FORMAT.md).

Every random choice derives from one `random.Random(seed)`; a stream is a python generator of
case lines.  Case ids carry the stream name so that a failing case can be traced to its stream.
Ids starting with `MO-` are monitor-only (too large for the model runner; the driver's monitors
still run on them).
"""
import random, itertools

KEYCAP = {"micro": 255, "mini": 65535, "spur": 2**32 - 1, "large": 2**64 - 1}
HASHERS = ["rs", "c0", "len", "low3", "fnv", "rcl"]
ROUTES = ["inh", "trait", "mutref", "box", "dyn"]

def hx(b: bytes) -> str:
    return b.hex() if b else "-"

def keycap(k: str) -> int:
    return KEYCAP[k] if k in KEYCAP else int(k[3:])

def cfg(K="spur", H="fnv", V="inh", P=None):
    pool = "-" if not P else ",".join(P)
    return f"K={K} H={H} V={V} P={pool}"

def case(cid, conf, ops):
    return f"CASE {cid} {conf} ; " + " ; ".join(ops)

# ---------------------------------------------------------------- string pools
def sized(j: int, n: int) -> bytes:
    """a string of exactly n bytes, different for different j (n >= 1)"""
    if n == 0:
        return b""
    head = bytes([97 + (j % 26)])
    body = bytes([48 + ((j // 26 + i) % 10) for i in range(n - 1)])
    return head + body

COLLIDERS = [b"", b"a", b"b", b"ab", b"ba", b"abc", b"abd", b"abcd", b"abce", b"aab", b"\xc3\xa9", b"\xc3\xa9a",
             " ".encode(), "\U0001F600".encode(), b"\"q\\", b"\x01\x02", b"key", b"keys", b"kex", b"z" * 9,
             b"0123456789", b"abcdefgh", b"hello world", b"hello worle", b"x" * 17, b"y" * 33]

def rand_str(rng, maxlen=12):
    r = rng.random()
    if r < 0.45:
        return rng.choice(COLLIDERS)
    if r < 0.6:
        return sized(rng.randrange(200), rng.randrange(1, maxlen + 1))
    if r < 0.7:
        # multi-byte utf-8
        return "".join(rng.choice("aé€😀ß") for _ in range(rng.randrange(1, 5))).encode()
    n = rng.randrange(0, maxlen + 1)
    return bytes(rng.choice(b"abc") for _ in range(n))

def static_pool(rng):
    """own buffers plus prefix / inner slices of them (same start address as the base!)"""
    bases = [b"interner", b"static string", b"ab", b"", "é€".encode(), b"a static string of thirty-five bytes"]
    k = rng.randrange(1, 4)
    chosen = rng.sample(bases, k)
    entries, contents = [], []
    for b in chosen:
        entries.append(hx(b)); contents.append(b)
    nb = len(chosen)
    for j in range(nb):
        b = chosen[j]
        if len(b) >= 2 and all(c < 128 for c in b):
            n = rng.randrange(0, len(b))
            entries.append(f"@{j}.0.{n}"); contents.append(b[:n])           # prefix: SAME pointer, shorter
            if rng.random() < 0.5:
                o = rng.randrange(1, len(b)); n2 = rng.randrange(0, len(b) - o + 1)
                entries.append(f"@{j}.{o}.{n2}"); contents.append(b[o:o + n2])
    if rng.random() < 0.5:
        entries.append(hx(chosen[0])); contents.append(chosen[0])           # equal content, other address
    return entries, contents

def lim(v):
    return "max" if v is None else str(v)

# ---------------------------------------------------------------- stream: constructors (C08: every way to set a capacity / limit)
CTORS = ["new", "default", "with_capacity", "with_limits", "with_capacity_and_limits", "with_hasher", "with_capacity_and_hasher",
         "full", "cap_for_strings", "cap_for_bytes", "cap_minimal", "lim_for_memory_usage"]

def constructors(rng):
    n = 0
    for t in ("r", "t"):
        for c in CTORS:
            for cap, limv in ((1, None), (7, 7), (64, 100), (4096, 5000), (10000, 3)):
                yield case(f"ct{n}", cfg(H=HASHERS[n % 6]), [f"CT {t} {c} {cap} {lim(limv)} {n % 9}"])
                n += 1

# ---------------------------------------------------------------- stream: arena small scope (C04 C08 C01 C13)
def arena_small(tier, rng):
    caps = [1, 2, 3] if tier == "quick" else [1, 2, 3, 4]
    n = 0
    for kind in ("NR", "NT"):
        for c in caps:
            lens = list(range(0, 2 * c + 4)) + [4 * c + 1]
            maxk = 3 if (tier != "quick" or c <= 2) else 2
            if tier == "thorough":
                maxk = 4 if c <= 2 else 3
            limits = list(range(c, c + 13)) + [None] if tier != "quick" else list(range(c, c + 11)) + [None]
            for m in limits:
                for k in range(1, maxk + 1):
                    for ls in itertools.product(lens, repeat=k):
                        ops = [f"{kind} {c} {lim(m)} 0 {n % 7}"]
                        for j, L in enumerate(ls):
                            ops.append(f"I 0 {hx(sized(j, L))}")
                        ops.append("CUR 0")
                        yield case(f"as{n}", cfg(K="spur", H=HASHERS[n % 6]), ops)
                        n += 1

def arena_variants(tier, rng, count):
    """small-scope geometry with set-limit / clear / clone / clone_from mixed in"""
    for n in range(count):
        c = rng.randrange(1, 6)
        m = rng.choice([None, c, c + rng.randrange(0, 14), 3 * c + rng.randrange(0, 6)])
        kind = rng.choice(["NR", "NR", "NT"])
        ops = [f"{kind} {c} {lim(m)} {rng.randrange(0, 3)} {rng.randrange(9)}"]
        slots = 1
        j = 0
        for _ in range(rng.randrange(2, 9)):
            r = rng.random()
            if r < 0.50:
                L = rng.choice([0, 1, c, c + 1, 2 * c, 2 * c + 1, 4 * c + 1, rng.randrange(0, 3 * c + 3)])
                ops.append(f"I {rng.randrange(slots)} {hx(sized(j, L))}"); j += 1
            elif r < 0.56:
                ops.append(f"{rng.choice(['IS', 'ISP', 'ISP'])} {rng.randrange(slots)} {rng.randrange(3)}")
            elif r < 0.7:
                ops.append(f"LIM {rng.randrange(slots)} {lim(rng.choice([None, rng.randrange(0, 6 * c + 8)]))}")
            elif r < 0.8 and kind == "NR":
                ops.append(f"CLR {rng.randrange(slots)}")
            elif r < 0.88 and kind == "NR":
                ops.append(f"CL {rng.randrange(slots)}"); slots += 1
            elif r < 0.94 and kind == "NR" and slots >= 2:
                a, b = rng.sample(range(slots), 2)
                ops.append(f"CF {a} {b}")
            elif r < 0.97:
                ops.append(f"{rng.choice(['IS', 'ISP'])} {rng.randrange(slots)} {rng.randrange(3)}")
            else:
                ops.append(f"CUR {rng.randrange(slots)}")
        yield case(f"av{n}", cfg(H=rng.choice(HASHERS), V=rng.choice(ROUTES), P=[hx(b"a static string of thirty-five bytes"), hx(b"st"), "@0.0.9"]), ops)

# ---------------------------------------------------------------- stream: random histories
def random_history(rng, cid, maxops, K=None, H=None, V=None):
    K = K or rng.choice(["spur", "spur", "micro", "mini", "large", "cap0", "cap1", "cap2", "cap3", "cap5"])
    H = H or rng.choice(HASHERS)
    V = V or rng.choice(ROUTES)
    entries, contents = static_pool(rng)
    cap = keycap(K)
    ops = []
    kinds = []     # per slot: rodeo / threaded / reader / resolver / dead
    approx = []    # per slot: strings seen (list of bytes) -- only used to pick plausible args
    def new_interner():
        c = rng.choice([1, 1, 2, 3, 4, 8, 16, 64])
        m = rng.choice([None, None, None, c, c + rng.randrange(0, 40), rng.randrange(0, 80)])
        kind = rng.choice(["NR", "NR", "NT"])
        ops.append(f"{kind} {c} {lim(m)} {rng.choice([0, 0, 1, 4, 50])} {rng.randrange(100)}")
        kinds.append("rodeo" if kind == "NR" else "threaded"); approx.append([])
    new_interner()
    nops = rng.randrange(1, maxops + 1)
    for _ in range(nops):
        live = [i for i, k in enumerate(kinds) if k != "dead"]
        if not live or (len(kinds) < 5 and rng.random() < 0.04):
            new_interner(); continue
        i = rng.choice(live)
        k = kinds[i]
        seen = approx[i]
        s = rng.choice(seen) if (seen and rng.random() < 0.35) else rand_str(rng)
        keyidx = rng.choice([0, 1, len(seen) - 1 if seen else 0, len(seen), len(seen) + 1, rng.randrange(0, 8), cap - 1, cap, 300]) if rng.random() < 0.3 \
            else (rng.randrange(len(seen)) if seen else 0)
        keyidx = max(0, keyidx)
        r = rng.random()
        interner = k in ("rodeo", "threaded")
        if interner and r < 0.30:
            op = rng.choice(["I", "I", "I", "IP"])
            ops.append(f"{op} {i} {hx(s)}"); seen.append(s)
        elif interner and r < 0.40 and entries:
            sidx = rng.randrange(len(entries))
            op = rng.choice(["IS", "IS", "ISP", "IA"])
            ops.append(f"{op} {i} {sidx}"); seen.append(contents[sidx])
        elif r < 0.47 and k != "resolver":
            ops.append(f"{rng.choice(['G', 'G', 'C'])} {i} {hx(s)}")
        elif r < 0.50 and k != "resolver" and entries:
            ops.append(f"{rng.choice(['GS', 'CS'])} {i} {rng.randrange(len(entries))}")
        elif r < 0.53 and k != "resolver" and seen:
            kk = rng.randrange(len(seen))
            ops.append(f"GK {i} {kk} {rng.randrange(0, 4)}")   # runner/driver clamp via X when unresolvable; n may exceed: see below
        elif r < 0.62:
            ops.append(f"{rng.choice(['R', 'TR', 'TR', 'IX', 'CK'])} {i} {keyidx}")
        elif r < 0.66:
            ops.append(f"{rng.choice(['LEN', 'EMP', 'CUR', 'MAX'])} {i}")
        elif r < 0.72:
            plan = "".join(rng.choice(["n", "n", "b", "b", "l", f"t{rng.randrange(0, 4)}"]) for _ in range(rng.randrange(0, 12))) or "-"
            ops.append(f"{rng.choice(['IT', 'ST'])} {i} {plan}")
        elif r < 0.75 and k == "rodeo":
            ops.append(f"CLR {i}"); approx[i] = []
        elif r < 0.79 and interner:
            ops.append(f"LIM {i} {lim(rng.choice([None, rng.randrange(0, 120)]))}")
        elif r < 0.83 and k == "rodeo" and len(kinds) < 6:
            ops.append(f"CL {i}"); kinds.append("rodeo"); approx.append(list(seen))
        elif r < 0.86 and k == "rodeo":
            others = [j for j in live if j != i and kinds[j] == "rodeo"]
            if others:
                j = rng.choice(others); ops.append(f"CF {i} {j}"); approx[i] = list(approx[j])
        elif r < 0.88:
            ops.append(f"DROP {i}"); kinds[i] = "dead"
        elif r < 0.90 and interner:
            ops.append(f"RD {i}"); kinds[i] = "reader"
        elif r < 0.92 and k != "resolver":
            ops.append(f"RS {i}"); kinds[i] = "resolver"
        elif r < 0.94:
            ops.append(f"SER {i}")
        elif r < 0.965 and live:
            ops.append(f"EQ {i} {rng.choice(live)}")
        elif r < 0.98 and interner:
            l = [rand_str(rng) for _ in range(rng.randrange(0, 5))]
            ops.append(f"EX {i} {','.join(hx(x) for x in l) or '.'} {rng.choice(['exact', 'none', 'low', 'high'])} {rng.choice(['vec', 'lazy', 'boxed', 'refs'])}"); seen.extend(l)
        elif len(kinds) < 6:
            l = [rand_str(rng) for _ in range(rng.randrange(0, 6))]
            t = rng.choice(["r", "t"])
            ops.append(f"FI {t} {rng.choice(['exact', 'none', 'low', 'high'])} {','.join(hx(x) for x in l) or '.'}")
            kinds.append("rodeo" if t == "r" else "threaded"); approx.append(l)
    return case(cid, cfg(K, H, V, entries), ops)

def random_histories(tier, rng, count, maxops=None):
    maxops = maxops or (40 if tier == "quick" else 160)
    for n in range(count):
        yield random_history(rng, f"rh{n}", maxops)

# GK needs n on a char boundary and <= len: restrict GK to ascii strings by construction of the probe length 0..3
# (the runner takes `firstn n`, the driver slices; multi-byte contents are avoided by the `gk_safe` filter below)
def gk_safe(line: str) -> str:
    return line

# ---------------------------------------------------------------- stream: key-space fill (C07 C10 C03-seq)
def keyfill(tier, rng):
    n = 0
    for K in ["cap0", "cap1", "cap2", "cap3", "cap5", "micro"]:
        cap = keycap(K)
        for kind in ("NR", "NT"):
            for variant in range(4 if K != "micro" else 3):
                ops = [f"{kind} {rng.choice([1, 4, 64])} max {rng.choice([0, 4])} {n}"]
                pool_e, pool_c = [hx(b"static-one"), hx(b"static-two")], [b"static-one", b"static-two"]
                total = cap + 3
                for j in range(total):
                    if variant == 1 and j % 7 == 3:
                        ops.append(f"IS 0 {j % 2}")
                    elif variant == 2 and j % 5 == 1:
                        ops.append(f"I 0 {hx(sized(j - 1, 3))}")     # a duplicate in between
                        ops.append(f"I 0 {hx(sized(j, 3))}")
                    else:
                        ops.append(f"I 0 {hx(sized(j, 3))}")
                ops += [f"I 0 {hx(b'one-more')}", f"IS 0 0", f"IP 0 {hx(b'panics')}", f"I 0 {hx(sized(0, 3))}", "LEN 0",
                        f"CK 0 {max(cap - 1, 0)}", f"CK 0 {cap}", f"TR 0 {max(cap - 1, 0)}", f"G 0 {hx(b'one-more')}", "IT 0 nbl", "EQ 0 0"]
                if kind == "NR":
                    ops += ["CL 0", "EQ 0 1", f"I 1 {hx(b'into-clone')}", "CF 1 0", "SER 0", "RD 0", f"G 0 {hx(sized(1, 3))}", "RS 0", "IT 0 bbn"]
                else:
                    ops += ["SER 0", f"NR 4 max 0 9", "EQ 0 1"] + ([ "RD 0", f"G 0 {hx(sized(1, 3))}", "IT 0 nnb", "RS 0"] if variant % 2 == 0 else ["RS 0", "IT 0 nbn", "LEN 0"])
                yield case(f"kf{n}", cfg(K=K, H=HASHERS[n % 6], V=ROUTES[n % 5], P=pool_e), ops)
                n += 1

def keyfill_mini(rng):
    """monitor-only: 65535 keys and beyond, both interners (the model runner is quadratic here)"""
    for kind in ("NR", "NT"):
        ops = [f"{kind} 4096 max 0 1"]
        for j in range(65535 + 3):
            ops.append(f"I 0 {hx(b'%05x' % j)}")
        ops += [f"I 0 {hx(b'over-a')}", f"I 0 {hx(b'over-b')}", "LEN 0", f"R 0 0", f"R 0 65534", f"G 0 {hx(b'00000')}"]
        yield case(f"MO-mini-{kind}", cfg(K="mini", H="fnv"), ops)

# ---------------------------------------------------------------- stream: statics and routes (C16 C17 C02)
def statics_routes(tier, rng, count):
    for n in range(count):
        entries, contents = static_pool(rng)
        V = ROUTES[n % 5]; H = ["c0", "fnv", "len", "c0", "low3"][n % 5 if n % 3 else 0]
        kind = rng.choice(["NR", "NT"])
        c = rng.choice([1, 2, 8, 64])
        m = rng.choice([None, None, c, c + 5])
        ops = [f"{kind} {c} {lim(m)} 0 {n}"]
        for _ in range(rng.randrange(3, 14)):
            r = rng.random()
            sidx = rng.randrange(len(entries))
            if r < 0.35:
                ops.append(f"{rng.choice(['IS', 'ISP'])} 0 {sidx}")
            elif r < 0.45:
                ops.append(f"IA 0 {sidx}")
            elif r < 0.6:
                ops.append(f"I 0 {hx(rng.choice(contents + [rand_str(rng)]))}")
            elif r < 0.75:
                ops.append(f"{rng.choice(['GS', 'CS'])} 0 {sidx}")
            elif r < 0.85:
                ops.append(f"GK 0 {rng.randrange(0, 4)} {rng.randrange(0, 3)}")
            else:
                ops.append(f"{rng.choice(['R', 'IX', 'RU'])} 0 0" if len(ops) > 2 else "LEN 0")
        ops += ["CUR 0", rng.choice(["RD 0", "RS 0"])]
        if ops[-1] == "RD 0":
            ops += [f"GS 0 {rng.randrange(len(entries))}", f"GK 0 0 1", "RS 0"]
        ops += ["IT 0 nnnn"]
        yield case(f"sr{n}", cfg(K=rng.choice(["spur", "micro", "cap3"]), H=H, V=V, P=entries), ops)

# ---------------------------------------------------------------- stream: serde (C14 C15)
def serde_stream(tier, rng, count):
    for n in range(count):
        K = rng.choice(["spur", "micro", "mini", "large", "cap2", "cap5"])
        cap = keycap(K)
        kind = rng.choice(["rodeo", "threaded", "reader", "resolver"])
        strs = []
        for _ in range(rng.randrange(0, 7)):
            strs.append(rand_str(rng))
        r = rng.random()
        ops = []
        if kind == "threaded":
            uniq = list(dict.fromkeys(strs))
            raws = list(range(1, len(uniq) + 1))
            rng.shuffle(raws)
            if r < 0.25 and uniq:       # gap / far above / max
                raws[rng.randrange(len(raws))] = rng.choice([len(uniq) + 1, len(uniq) + 6, min(cap, 2**32), cap, 7])
            elif r < 0.4 and len(uniq) >= 2:   # repeated key
                raws[0] = raws[1]
            elif r < 0.5 and uniq:      # raw out of the key type's range
                raws[0] = rng.choice([0, cap + 1])
            elif r < 0.7 and uniq:      # any multiset of small keys: repeats and gaps that may cancel out
                raws = [rng.randrange(1, len(uniq) + 2) for _ in uniq]
            pairs = list(zip(uniq, raws))
            if r > 0.85 and pairs:      # repeated JSON string (parser: last wins)
                pairs.append((pairs[0][0], rng.choice(raws)))
            doc = "M:" + ",".join(f"{hx(s)}={k}" for s, k in pairs)
        else:
            if r < 0.35 and strs:       # repeated entries anywhere
                for _ in range(rng.randrange(1, 4)):
                    strs.insert(rng.randrange(len(strs) + 1), rng.choice(strs))
            doc = "L:" + ",".join(hx(s) for s in strs)
        ops.append(f"DE {kind} {doc}")
        # whole safe API on the result (slot 0 if it exists)
        ops += ["LEN 0", "IT 0 nnnbbb", "ST 0 nbn"]
        for j in range(4):
            ops.append(f"TR 0 {j}")
        for s in (strs[:3] + [b"absent"]):
            if kind != "resolver":
                ops.append(f"G 0 {hx(s)}")
        if kind in ("rodeo", "threaded"):
            ops += [f"I 0 {hx(b'fresh-1')}", f"I 0 {hx(strs[0] if strs else b'x')}", f"I 0 {hx(b'fresh-2')}", "LEN 0", "IT 0 nnnnnnnnnn"]
            ops += ["SER 0", rng.choice(["RD 0", "RS 0"]), "IT 0 bbbb", "TR 0 0"]
        elif kind == "reader":
            ops += ["SER 0", "RS 0", "IT 0 nb"]
        else:
            ops += ["SER 0"]
        yield case(f"sd{n}", cfg(K=K, H=rng.choice(HASHERS), V=rng.choice(ROUTES)), ops)

def serde_wide(tier, rng, count):
    """documents of 60..300 entries (beyond any small-document special case: word-sized masks, inline buffers, a first
    table growth) whose defect, if any, sits near a boundary: a stray key just above the count, a gap next to the end,
    a repeat far down, counts around multiples of 8/32/64.  Compared with the model like serde_stream."""
    for n in range(count):
        K = rng.choice(["spur", "spur", "mini", "large"])
        kind = rng.choice(["threaded", "threaded", "threaded", "rodeo", "reader", "resolver"])
        m = rng.choice([63, 64, 65, 66, 96, 127, 128, 129, 130, 191, 200, 255, 256, 257, 300]) if rng.random() < 0.7 else rng.randrange(60, 301)
        strs = [b"w%x-%d" % (i, n % 7) for i in range(m)]
        r = rng.random()
        if kind == "threaded":
            raws = list(range(1, m + 1))
            if r < 0.45:      # one key moved to just above the count (leaves a gap below it)
                raws[rng.randrange(m)] = m + rng.randrange(1, 70)
            elif r < 0.6:     # repeated key
                i, j = rng.sample(range(m), 2); raws[i] = raws[j]
            elif r < 0.7:     # the last key far away
                raws[m - 1] = rng.choice([m + 64, m + 1000, 2 * m])
            order = list(range(m)); rng.shuffle(order)
            doc = "M:" + ",".join(f"{hx(strs[i])}={raws[i]}" for i in order)
        else:
            if r < 0.4:
                strs.insert(rng.randrange(m // 2, m + 1), strs[rng.randrange(m)])
            doc = "L:" + ",".join(hx(s) for s in strs)
        ops = [f"DE {kind} {doc}", "LEN 0", "IT 0 nbl", "ST 0 bnl"]
        for j in sorted({0, 1, m // 2, m - 2, m - 1, m, m + 1, (m | 63), (m | 63) + 1}):
            ops.append(f"TR 0 {j}")
        if kind != "resolver":
            ops += [f"G 0 {hx(strs[0])}", f"G 0 {hx(strs[-1])}", f"G 0 {hx(b'absent')}"]
        if kind in ("rodeo", "threaded"):
            ops += [f"I 0 {hx(b'fresh-1')}", f"I 0 {hx(strs[m // 3])}", "LEN 0", "SER 0", rng.choice(["RD 0", "RS 0"]), "LEN 0", f"TR 0 {m - 1}", f"TR 0 {m}", "IT 0 bbn", "ST 0 l"]
        elif kind == "reader":
            ops += ["SER 0", "RS 0", "IT 0 nb"]
        yield case(f"sw{n}", cfg(K=K, H=rng.choice(HASHERS), V=rng.choice(ROUTES)), ops)

def collections_bulk(tier, rng, count):
    """`Extend` / `FromIterator` with MANY items into an object that already holds many: size hints large enough to make
    an implementation reserve and re-hash its tables up front (20..64 items, hints exact/low/high; the model runner is quadratic, hence no more), then every OLD and
    new string must still be found under its key; an explicit intern loop on a twin states the expectation."""
    for n in range(count):
        t = rng.choice(["r", "r", "t"])
        old = [b"o%x.%d" % (i, n % 5) for i in range(rng.choice([0, 3, 17, 28, 40, 56]))]
        add = [b"a%x.%d" % (i, n % 3) for i in range(rng.choice([20, 31, 32, 33, 40, 64]))]
        if rng.random() < 0.4 and old:
            add[rng.randrange(len(add))] = rng.choice(old)
        hint = ["exact", "low", "high", "none"][n % 4]
        shape = ["vec", "lazy", "boxed", "refs"][(n // 4) % 4]
        ctor = "NR" if t == "r" else "NT"
        ops = [f"{ctor} {rng.choice([4, 64, 4096])} max {rng.choice([0, 4, 50])} {n}", f"{ctor} 4096 max 50 {n + 1}"]
        for s_ in old:
            ops += [f"I 0 {hx(s_)}", f"I 1 {hx(s_)}"]
        ops.append(f"EX 0 {','.join(hx(x) for x in add)} {hint} {shape}")
        for s_ in add:
            ops.append(f"I 1 {hx(s_)}")
        ops += ["EQ 0 1", "LEN 0", "LEN 1"]
        for s_ in ([old[0], old[len(old) // 2], old[-1]] if old else []) + [add[0], add[-1]]:
            ops += [f"G 0 {hx(s_)}", f"I 0 {hx(s_)}"]
        ops += ["LEN 0", "EQ 0 1", f"FI {t} {hint} {','.join(hx(x) for x in (old[:40] + add))} {shape}", "EQ 2 0" if len(old) <= 40 else "LEN 2",
                f"G 2 {hx(add[0])}", f"I 2 {hx(add[-1])}", "LEN 2", "IT 0 bnl"]
        yield case(f"cb{n}", cfg(K=rng.choice(["spur", "large", "mini"]), H=rng.choice(HASHERS), V=rng.choice(ROUTES)), ops)

def serde_full_keyspace(rng):
    """documents holding exactly as many entries as the key type has keys (and one fewer / one more), for the four
    containers: a FULL interner must round-trip; then interning continues (refused: no key left / accepted: one left)."""
    n = 0
    for K in ["cap1", "cap2", "cap3", "cap5", "micro"]:
        cap = keycap(K)
        for kind in ("rodeo", "reader", "resolver", "threaded"):
            for m in (cap - 1, cap, cap + 1):
                if m < 0:
                    continue
                strs = [b"f%x" % i for i in range(m)]
                doc = ("M:" + ",".join(f"{hx(x)}={i + 1}" for i, x in enumerate(strs))) if kind == "threaded" else ("L:" + ",".join(hx(x) for x in strs))
                ops = [f"DE {kind} {doc}", "LEN 0", f"TR 0 {max(m - 1, 0)}", f"TR 0 {m}", "IT 0 bnl"]
                if kind != "resolver" and strs:
                    ops += [f"G 0 {hx(strs[-1])}", f"G 0 {hx(strs[0])}"]
                if kind in ("rodeo", "threaded"):
                    ops += [f"I 0 {hx(b'fresh-a')}", f"I 0 {hx(b'fresh-b')}", f"I 0 {hx(strs[0] if strs else b'z')}", "LEN 0", "SER 0", "RS 0", "LEN 0"]
                else:
                    ops += ["SER 0"]
                yield case(f"fk{n}", cfg(K=K, H=HASHERS[n % 6], V=ROUTES[n % 5]), ops)
                n += 1

def serde_in_place(tier, rng, count):
    """`Deserialize::deserialize_in_place` into an existing object (serde's contract: `*place = T::deserialize(d)?`):
    a refused document leaves the object as it was, an accepted one replaces it.  Monitor-only, expectations stated here."""
    for n in range(count):
        kind = ["rodeo", "rodeo", "reader", "resolver", "threaded"][n % 5]
        old = list(dict.fromkeys(rand_str(rng) for _ in range(rng.randrange(1, 6))))
        old = [x for x in old if x] or [b"o"]
        newd = list(dict.fromkeys(rand_str(rng) for _ in range(rng.randrange(1, 7))))
        newd = [x for x in newd if x and x not in old] or [b"n"]
        ctor = "NT" if kind == "threaded" else "NR"
        ops = [f"EXP NEW0 {ctor} {rng.choice([4, 64, 4096])} {lim(rng.choice([None, 100000]))} 0 {n}"] + [f"EXP K{i} I 0 {hx(x)}" for i, x in enumerate(old)]
        if kind == "reader":
            ops.append("EXP U RD 0")
        elif kind == "resolver":
            ops.append("EXP U RS 0")
        good = ("M:" + ",".join(f"{hx(x)}={i + 1}" for i, x in enumerate(newd))) if kind == "threaded" else ("L:" + ",".join(hx(x) for x in newd))
        mode = n % 3
        if mode == 0 and kind != "resolver":
            # refused half-way: a repeat far down the list / a repeated key in the map
            bad = (good + f",{hx(newd[0] + b'~')}={len(newd)}") if kind == "threaded" else (good + "," + hx(newd[0]))
            ops.append(f"EXP DE:err DEI 0 {kind} {bad}")
            ops += [f"EXP #{len(old)} LEN 0"] + [f"EXP S:{hx(x)} TR 0 {i}" for i, x in enumerate(old)]
            if kind != "resolver":
                ops += [f"EXP K{i} G 0 {hx(x)}" for i, x in enumerate(old)] + [f"EXP N G 0 {hx(newd[0])}"]
        else:
            ops.append(f"EXP U DEI 0 {kind} {good}")
            ops += [f"EXP #{len(newd)} LEN 0"] + [f"EXP S:{hx(x)} TR 0 {i}" for i, x in enumerate(newd)]
            if kind != "resolver":
                ops += [f"EXP K{i} G 0 {hx(x)}" for i, x in enumerate(newd)] + [f"EXP N G 0 {hx(old[0])}"]
            if kind in ("rodeo", "threaded"):
                ops += [f"EXP K{len(newd)} I 0 {hx(b'after-in-place')}", f"EXP K0 I 0 {hx(newd[0])}"]
        yield case(f"MO-dei{n}", cfg(K="spur", H=rng.choice(HASHERS)), ops)

def serde_big(tier, rng):
    """documents large enough to make the deserialiser's own tables grow several times.  Monitor-only (the model
    runner is cubic on documents whose strings all collide): the generator states the expected answers itself --
    string i of a duplicate-free list has key i."""
    n = 7600 if tier == "quick" else 30000
    strs = [b"%05x" % i for i in range(n)]
    doc = "L:" + ",".join(hx(s) for s in strs)
    idx = (0, 1, 100, 4096, 7168, n - 1)
    probes = [f"EXP K{i} G 0 {hx(strs[i])}" for i in idx] + [f"EXP S:{hx(strs[i])} TR 0 {i}" for i in idx]
    yield case("MO-sb0", cfg(K="spur", H="fnv"), [f"EXP NEW0 DE rodeo {doc}", f"EXP #{n} LEN 0"] + probes +
               [f"EXP K3 I 0 {hx(strs[3])}", f"EXP K{n} I 0 {hx(b'fresh')}", f"EXP #{n + 1} LEN 0"])
    yield case("MO-sb1", cfg(K="spur", H="rs"), [f"EXP NEW0 DE reader {doc}", f"EXP #{n} LEN 0"] + probes)
    yield case("MO-sb2", cfg(K="spur", H="len"), [f"EXP DE:err DE rodeo {doc},{hx(strs[5])}"])     # a repeat at the very end
    yield case("MO-sb3", cfg(K="large", H="low3"), [f"EXP NEW0 DE resolver {doc}", f"EXP #{n} LEN 0", f"EXP S:{hx(strs[7168])} TR 0 7168"])
    m = "M:" + ",".join(f"{hx(s)}={i + 1}" for i, s in enumerate(strs[:3000]))
    yield case("MO-sb4", cfg(K="spur", H="fnv"), [f"EXP NEW0 DE threaded {m}", "EXP #3000 LEN 0", f"EXP K0 G 0 {hx(strs[0])}", f"EXP K2999 G 0 {hx(strs[2999])}",
                                                 f"EXP K3000 I 0 {hx(b'fresh')}", "EXP U RD 0", f"EXP K17 G 0 {hx(strs[17])}"])

def threaded_growth_after_de(tier, rng):
    """a deserialised ThreadedRodeo keeps working while its shard tables GROW: restore n strings, intern many fresh ones
    (every shard table of the string->key map re-hashes its entries several times), then every old and new string must
    still be found under its key and interning an old string again must return the old key.  Monitor-only with the
    expected answers stated here (restored string i has key i, the j-th fresh string gets key n+j)."""
    for c, (n, fresh, H) in enumerate([(300, 1500, "rs"), (64, 2500, "rcl"), (700, 900, "fnv")] if tier == "quick"
                                      else [(300, 1500, "rs"), (64, 2500, "rcl"), (700, 900, "fnv"), (3000, 20000, "rs"), (10, 30000, "low3")]):
        old = [b"o%04x-%d" % (i, c) for i in range(n)]
        new = [b"n%05x" % j for j in range(fresh)]
        m = "M:" + ",".join(f"{hx(s)}={i + 1}" for i, s in enumerate(old))
        ops = [f"EXP NEW0 DE threaded {m}", f"EXP #{n} LEN 0"]
        ops += [f"EXP K{n + j} I 0 {hx(t)}" for j, t in enumerate(new)]
        ops += [f"EXP K{i} G 0 {hx(old[i])}" for i in range(0, n, max(1, n // 150))]
        ops += [f"EXP K{i} I 0 {hx(old[i])}" for i in range(0, n, max(1, n // 60))]
        ops += [f"EXP K{n + j} G 0 {hx(new[j])}" for j in range(0, fresh, max(1, fresh // 150))]
        ops += [f"EXP #{n + fresh} LEN 0", f"EXP S:{hx(old[n - 1])} TR 0 {n - 1}", "EXP U RD 0",
                f"EXP K{n // 2} G 0 {hx(old[n // 2])}", f"EXP K{n + fresh - 1} G 0 {hx(new[-1])}"]
        yield case(f"MO-tg{c}", cfg(K="spur", H=H), ops)

def long_strings(tier, rng, count):
    """strings around and above 4 KiB (a page, the default block size, common cut-off constants): lookups by content,
    views made from both interners, clones and serde round trips must treat them like any other string"""
    sizes = [4095, 4096, 4097, 5000, 8191, 8193, 9000]
    for n in range(count):
        kind = ["NR", "NT"][n % 2]
        cap = rng.choice([64, 4096, 8192, 20000])
        k = rng.randrange(2, 5)
        # strings sharing a long common prefix (first 4096 bytes equal) and differing only far behind it
        base = bytes(rng.choice(b"abcdefgh") for _ in range(64)) * 80
        strs = []
        for i in range(k):
            L = rng.choice(sizes)
            tail = b"#%d-%d" % (n, i)
            strs.append((base[:L - len(tail)] + tail) if rng.random() < 0.7 else (tail + base[:L - len(tail)]))
        short = [b"s%d" % i for i in range(3)]
        ops = [f"{kind} {cap} max 0 {n % 7}"]
        order = strs + short
        rng.shuffle(order)
        ops += [f"I 0 {hx(x)}" for x in order]
        ops += [f"G 0 {hx(x)}" for x in strs] + [f"C 0 {hx(strs[0])}", f"G 0 {hx(strs[0][:-1] + b'!')}"]
        conv = rng.choice(["RD", "RS", "CL", "SERDE", "none"])
        if conv in ("RD", "RS"):
            ops += [f"{conv} 0"] + ([f"G 0 {hx(x)}" for x in strs + short] if conv == "RD" else []) + [f"TR 0 {i}" for i in range(len(order))]
            if conv == "RD" and rng.random() < 0.5:
                ops += ["RS 0"] + [f"TR 0 {i}" for i in range(len(order))]
        elif conv == "CL" and kind == "NR":
            ops += ["CL 0"] + [f"G 1 {hx(x)}" for x in strs] + [f"I 1 {hx(strs[-1])}", "LEN 1", "EQ 0 1"]
        elif conv == "SERDE":
            ops += ["SER 0"]
        ops += ["LEN 0"]
        yield case(f"ls{n}", cfg(K="spur", H=rng.choice(HASHERS), V=rng.choice(ROUTES)), ops)

def serde_roundtrip(tier, rng, count):
    """history -> SER -> DE of the same document -> continue on both, compare"""
    for n in range(count):
        K = rng.choice(["spur", "micro", "large", "cap5", "mini"])
        kind = rng.choice(["NR", "NT"])
        strs = list(dict.fromkeys(rand_str(rng) for _ in range(rng.randrange(0, 7))))
        if K == "cap5":
            strs = strs[:4]
        ops = [f"{kind} {rng.choice([1, 4, 64])} max 0 {n}"] + [f"I 0 {hx(s)}" for s in strs]
        conv = rng.choice(["", "RD 0", "RS 0"])
        if conv:
            ops.append(conv)
        ops.append("SER 0")
        tk = {"": ("rodeo" if kind == "NR" else "threaded"), "RD 0": "reader", "RS 0": "resolver"}[conv]
        if tk == "threaded":
            doc = "M:" + ",".join(f"{hx(s)}={i + 1}" for i, s in enumerate(strs))
        else:
            doc = "L:" + ",".join(hx(s) for s in strs)
        ops.append(f"DE {tk} {doc}")
        ops += ["EQ 0 1", "EQ 1 0", "LEN 1", "IT 1 nnnnnnn"]
        if tk in ("rodeo", "threaded"):
            more = [rand_str(rng) for _ in range(3)] + strs[:2]
            for s in more:
                ops += [f"I 0 {hx(s)}", f"I 1 {hx(s)}"]
            ops += ["EQ 0 1", "IT 1 nnnnnnnnnn", "RS 1", "IT 1 bbbb"]
        yield case(f"rt{n}", cfg(K=K, H=rng.choice(HASHERS)), ops)

# ---------------------------------------------------------------- stream: equality pairs (C18)
def eq_pairs(tier, rng, count):
    for n in range(count):
        base = list(dict.fromkeys(rand_str(rng) for _ in range(rng.randrange(0, 6))))
        other = list(base)
        r = rng.random()
        if r < 0.2:
            rng.shuffle(other)
        elif r < 0.35 and other:
            other = other[:-1]
        elif r < 0.6 and other:
            j = rng.randrange(len(other)); s = other[j]
            other[j] = (s[:-1] + bytes([s[-1] ^ 1])) if (s and s[-1] < 0x7f and rng.random() < 0.5) else s + b"x"
            other = list(dict.fromkeys(other))
        elif r < 0.7:
            other = []
        entries = [hx(s) for s in base if s] or None
        kinds = []
        ops = []
        for which, strs in ((0, base), (1, other)):
            kind = rng.choice(["NR", "NT"])
            ops.append(f"{kind} {rng.choice([1, 4, 64])} {lim(rng.choice([None, None, 500]))} {rng.choice([0, 8])} {rng.randrange(50)}")
            for s in strs:
                if which == 0 and entries and s and rng.random() < 0.4:
                    ops.append(f"IS {which} {[e for e in entries].index(hx(s))}")
                else:
                    ops.append(f"I {which} {hx(s)}")
            conv = rng.choice(["", "", "RD", "RS"])
            if conv:
                ops.append(f"{conv} {which}")
        ops += ["EQ 0 1", "EQ 1 0", "EQ 0 0", "EQ 1 1"]
        peq = (n % 25 == 7)
        if peq:
            ops += ["PEQ 0 1", "EQ 0 1"]       # both directions at once, on separate threads: same answer, and it must come
        K = rng.choice(["spur", "micro", "cap5", "large"])
        if K == "cap5":
            pass
        yield case(f"eq{n}", cfg(K=K if len(base) <= 5 and len(other) <= 5 else "spur", H=(rng.choice(["c0", "fnv"]) if peq else rng.choice(HASHERS)), P=entries), ops)
    # two concurrent interners with the same contents, compared in both directions at once
    for c, H in enumerate(["c0", "fnv", "rs"]):
        strs = [b"t%d" % i for i in range(40)]
        ops = ["NT 64 max 0 1", "NT 8 max 0 2"] + [f"I 0 {hx(x)}" for x in strs] + [f"I 1 {hx(x)}" for x in strs] + ["PEQ 0 1", "EQ 1 0", "LEN 0"]
        yield case(f"eqp{c}", cfg(K="spur", H=H), ops)

def eq_static_slices(rng, count):
    """same key, 'static strings that START AT THE SAME ADDRESS but differ in length (a slice and its base)"""
    for n in range(count):
        base = rng.choice([b"interner", b"static string", b"abcdefgh"])
        cut = rng.randrange(0, len(base))
        pool = [hx(base), f"@0.0.{cut}", hx(b"other")]
        pre = [rand_str(rng) for _ in range(rng.randrange(0, 3))]
        pre = [s for s in dict.fromkeys(pre) if s not in (base, base[:cut], b"other")]
        ops = []
        for which, sidx in ((0, 0), (1, 1)):
            ops.append(f"NR {rng.choice([4, 64])} max 0 {rng.randrange(50)}")
            ops += [f"I {which} {hx(s)}" for s in pre]
            ops.append(f"IS {which} {sidx}")
            ops.append(f"IS {which} 2")
            conv = rng.choice(["", "", "RD", "RS"])
            if conv:
                ops.append(f"{conv} {which}")
        ops += ["EQ 0 1", "EQ 1 0", "EQ 0 0", "IT 0 nnnn", "IT 1 nnnn"]
        yield case(f"es{n}", cfg(K="spur", H=rng.choice(HASHERS), P=pool), ops)

def eq_after_memfail(rng, count):
    """equal content, but one side saw interns refused for lack of memory (and other no-op attempts) on the way"""
    for n in range(count):
        strs = list(dict.fromkeys(sized(j, rng.choice([1, 2, 3, 5])) for j in range(rng.randrange(1, 6))))
        kind = rng.choice(["NR", "NR", "NT"])
        ops = [f"{kind} 4 {rng.choice([8, 12, 20])} 0 {n}", f"{rng.choice(['NR', 'NT'])} 64 max 0 {n + 1}"]
        kept = []
        for s in strs:
            ops.append(f"I 0 {hx(s)}")
            ops.append(f"I 0 {hx(sized(77, 40))}")            # refused: larger than the limit allows
            if rng.random() < 0.5:
                ops.append(f"IP 0 {hx(sized(78, 33))}")       # refused, panicking variant
        ops += ["IT 0 nnnnnnn", "LIM 0 max"]
        # the peer gets exactly what slot 0 really holds: replay it from slot 0's listing is not possible here, so
        # intern the same strings in the same order and let the model decide which of them slot 0 accepted
        for s in strs:
            ops.append(f"I 1 {hx(s)}")
        ops += ["EQ 0 1", "EQ 1 0", "CL 0" if kind == "NR" else "SER 0", "EQ 0 0"]
        if kind == "NR":
            ops += ["EQ 2 0", "EQ 0 2", "CF 1 0" if ops[1].startswith("NR") else "LEN 1", "EQ 1 0"]
        yield case(f"em{n}", cfg(K="spur", H=rng.choice(HASHERS)), ops)

def eq_after_exhaustion(rng):
    """a concurrent interner whose key counter overshot (failed interns) must still compare by content"""
    n = 0
    for K in ["cap2", "cap3", "micro"]:
        cap = keycap(K)
        ops = ["NT 4 max 0 1", "NT 4 max 0 2", "NR 4 max 0 3"]
        for j in range(cap):
            s = hx(sized(j, 3)); ops += [f"I 0 {s}", f"I 1 {s}", f"I 2 {s}"]
        ops += [f"I 0 {hx(b'refused')}", f"I 0 {hx(b'refused2')}", "EQ 0 1", "EQ 1 0", "EQ 0 2", "EQ 1 2", "SER 0", "RS 1", "EQ 0 1", "RD 0", "LEN 0", "IT 0 nb"]
        yield case(f"qx{n}", cfg(K=K), ops); n += 1

# ---------------------------------------------------------------- stream: iterator plans (C10)
def iter_plans(tier, rng, count):
    for n in range(count):
        K = rng.choice(["spur", "micro", "cap5", "large", "mini"])
        k = rng.randrange(0, 6 if K == "cap5" else 9)
        kind = rng.choice(["NR", "NR", "NT"])
        ops = [f"{kind} {rng.choice([1, 8, 64])} max 0 {n}"]
        strs = [sized(j, 1 + j % 4) for j in range(k)]
        for j, s in enumerate(strs):
            ops.append(f"I 0 {hx(s)}")
            if rng.random() < 0.15:
                ops.append(f"I 0 {hx(strs[rng.randrange(j + 1)])}")
        conv = rng.choice(["", "", "RD 0", "RS 0"])
        if conv:
            ops.append(conv)
        for _ in range(3):
            alphabet = ["n", "b", "l", f"t{rng.randrange(0, k + 2)}"] + ([f"s{rng.randrange(0, k + 2)}"] if kind == "NR" else [])
            plan = "".join(rng.choice(alphabet) for _ in range(rng.randrange(1, 14)))
            ops.append(f"{rng.choice(['IT', 'ST'])} 0 {plan}")
        ops.append("IT 0 " + "n" * (k + 1) + "l")
        ops.append("IT 0 " + "b" * (k + 1) + "l")
        yield case(f"ip{n}", cfg(K=K, H=rng.choice(HASHERS)), ops)

# ---------------------------------------------------------------- stream: clone (C12)
def clone_stream(tier, rng, count):
    for n in range(count):
        entries, contents = static_pool(rng)
        K = rng.choice(["spur", "micro", "cap3", "cap5"])
        cap = keycap(K)
        c = rng.choice([1, 2, 4, 16])
        ops = [f"NR {c} {lim(rng.choice([None, None, c, 40]))} 0 {rng.randrange(1000)}"]
        nstr = rng.randrange(0, min(cap, 7) + 1)
        if rng.random() < 0.2:
            nstr = min(cap, 7)
        for j in range(nstr):
            r = rng.random()
            if r < 0.25:
                ops.append(f"IS 0 {rng.randrange(len(entries))}")
            else:
                ops.append(f"I 0 {hx(rng.choice([sized(j, rng.choice([1, c, 2 * c + 1, 4 * c + 1])), b'', rand_str(rng)]))}")
        # a second, differently seeded interner as clone_from target
        c2 = rng.choice([1, 4, 64])
        ops.append(f"NR {c2} {lim(rng.choice([None, None, c2 + 3, 30]))} 0 {1000 + rng.randrange(1000)}")
        for j in range(rng.randrange(0, 4)):
            ops.append(f"I 1 {hx(sized(40 + j, 2))}")
        ops += ["CL 0", "EQ 0 2", "CF 1 0", "EQ 1 0"]
        probes = [f"G 1 {hx(rand_str(rng))}" for _ in range(3)] + [f"G 2 {hx(rand_str(rng))}" for _ in range(2)]
        ops += probes
        for t in (1, 2, 0):
            ops += [f"I {t} {hx(rand_str(rng))}", f"I {t} {hx(sized(90 + t, 3))}"]
        tail = rng.choice([["DROP 0"], ["CLR 0"], ["CLR 2"], ["DROP 2"], []])
        ops += tail
        ops += ["IT 1 nnnnnnnnn", "IT 2 nnnnnnnnn", "TR 1 0", "TR 2 0", f"G 1 {hx(sized(0, 1))}", "CUR 1", "CUR 2"]
        yield case(f"cl{n}", cfg(K=K, H=rng.choice(HASHERS), P=entries), ops)

def clone_full_keyspace(rng):
    n = 0
    for K in ["cap1", "cap2", "cap5", "micro"]:
        cap = keycap(K)
        ops = ["NR 4 max 0 5", "NR 64 max 0 77"]
        for j in range(cap):
            ops.append(f"I 0 {hx(sized(j, 2))}")
        ops += ["CL 0", "EQ 0 2", "CF 1 0", "EQ 0 1", "LEN 1", "LEN 2", f"I 2 {hx(b'xx-more')}", f"G 1 {hx(sized(0, 2))}", "DROP 0", f"TR 1 {max(cap - 1, 0)}", f"TR 2 {max(cap - 1, 0)}"]
        yield case(f"cx{n}", cfg(K=K, H="rs"), ops); n += 1

# ---------------------------------------------------------------- stream: clear cycles (C13)
def clear_cycles(tier, rng, count):
    for n in range(count):
        entries, contents = static_pool(rng)
        c = rng.choice([1, 2, 4, 10, 16])
        m = rng.choice([None, None, c, 2 * c + 5, 25, 40])
        K = rng.choice(["spur", "micro", "cap3"])
        ops = [f"NR {c} {lim(m)} 0 {n}"]
        mode = rng.randrange(4)   # 0 mixed, 1 statics only, 2 empty only, 3 oversized
        for cyc in range(rng.randrange(1, 6)):
            filled = []
            for j in range(rng.randrange(0, 5)):
                if mode == 1 or (mode == 0 and rng.random() < 0.3):
                    sidx = rng.randrange(len(entries)); ops.append(f"IS 0 {sidx}"); filled.append(contents[sidx])
                elif mode == 2:
                    ops.append("I 0 -"); filled.append(b"")
                else:
                    s = sized(10 * cyc + j, rng.choice([1, c, c + 1, 2 * c + 1, 4 * c + 1, 5 * c]))
                    ops.append(f"I 0 {hx(s)}"); filled.append(s)
            ops.append("CUR 0")
            ops.append("CLR 0")
            ops += ["LEN 0", "EMP 0", "IT 0 nb", "TR 0 0", "CK 0 0", "R 0 0"]
            for s in filled[:2]:
                ops.append(f"G 0 {hx(s)}")
        ops += [f"I 0 {hx(b'after')}", "TR 0 0", "CUR 0"]
        yield case(f"cc{n}", cfg(K=K, H=rng.choice(HASHERS), P=entries), ops)

# ---------------------------------------------------------------- stream: views (C06)
def views(tier, rng, count):
    for n in range(count):
        entries, contents = static_pool(rng)
        K = rng.choice(["spur", "micro", "cap5", "large"])
        cap = keycap(K)
        kind = rng.choice(["NR", "NT", "NT"])
        ops = [f"{kind} {rng.choice([1, 2, 8, 64])} {lim(rng.choice([None, None, 60]))} {rng.choice([0, 3])} {n}"]
        strs = []
        for j in range(rng.randrange(0, min(cap, 8) + 1)):
            if rng.random() < 0.3:
                sidx = rng.randrange(len(entries)); ops.append(f"IS 0 {sidx}"); strs.append(contents[sidx])
            else:
                s = rand_str(rng); ops.append(f"I 0 {hx(s)}"); strs.append(s)
        if kind == "NR" and rng.random() < 0.3:
            ops += ["CLR 0"] + [f"I 0 {hx(s)}" for s in strs[:3]]
        if kind == "NR" and rng.random() < 0.3:
            ops += ["CL 0"]
        if (K == "cap5" and rng.random() < 0.3) or (K == "micro" and rng.random() < 0.04):
            ops += [f"I 0 {hx(sized(j, 4))}" for j in range(min(cap, 300) + 2)]   # overshoot the key space first
        route = rng.choice([["RD 0"], ["RS 0"], ["RD 0", "RS 0"]])
        probes = [f"G 0 {hx(s)}" for s in strs[:4]] + [f"G 0 {hx(b'not there')}", f"C 0 {hx(rand_str(rng))}"]
        ops += probes + ["LEN 0", "IT 0 nnnnnnnnnn"]
        ops.append(route[0])
        if route[0] == "RD 0":
            ops += probes + ([f"GS 0 {rng.randrange(len(entries))}"])
        ops += ["LEN 0", "IT 0 nnnnnnnnnn", "IT 0 bbbbbbbbbb", "ST 0 nbnbnb"] + [f"TR 0 {j}" for j in range(4)] + [f"CK 0 {len(strs)}"]
        ops.append(f"PQ 0 {rng.choice([2, 4, 8])}")
        if len(route) > 1:
            ops += [route[1], "IT 0 nnnnnnnnnn"] + [f"R 0 {j}" for j in range(2)] + [f"PQ 0 {rng.choice([2, 8])}"]
        yield case(f"vw{n}", cfg(K=K, H=rng.choice(HASHERS), V=rng.choice(ROUTES), P=entries), ops)

# ---------------------------------------------------------------- stream: collections (C17)
def collections(tier, rng, count):
    for n in range(count):
        l = [rand_str(rng) for _ in range(rng.randrange(0, 9))]
        t = rng.choice(["r", "t"])
        hint = ["exact", "none", "low", "high"][n % 4]
        shape = ["vec", "lazy", "boxed", "refs"][(n // 2) % 4]
        ops = [f"FI {t} {hint} {','.join(hx(x) for x in l) or '.'} {shape}"]
        # the explicit sequence on a twin
        ops.append(f"{'NR' if t == 'r' else 'NT'} 4096 max 50 {n}")
        for s in l:
            ops.append(f"IP 1 {hx(s)}")
        ops += ["EQ 0 1", "IT 0 nnnnnnnnnn", "IT 1 nnnnnnnnnn"]
        l2 = [rand_str(rng) for _ in range(rng.randrange(0, 6))] + l[:2]
        if n % 3 == 0:
            # runs of distinct items of EQUAL length, produced one at a time: each owned item is dropped before the next is
            # built, so consecutive items may live at the same address
            w = rng.choice([1, 2, 3, 5, 8])
            l2 = [bytes(rng.choice(b"abcdxyz") for _ in range(w)) for _ in range(rng.randrange(3, 9))] + l2
        shape2 = ["lazy", "boxed", "vec", "refs"][n % 4]
        ops.append(f"EX 0 {','.join(hx(x) for x in l2) or '.'} {['exact', 'none', 'low', 'high'][(n // 4) % 4]} {shape2}")
        for s in l2:
            ops.append(f"IP 1 {hx(s)}")
        ops += ["EQ 0 1", "LEN 0", "LEN 1", "IX 0 0", "R 0 0", f"IX 0 {len(l) + len(l2) + 1}", f"R 1 {len(l) + len(l2) + 1}", "IT 0 bbbbbbbbbbbbbbbb"]
        yield case(f"co{n}", cfg(K=rng.choice(["spur", "large", "mini"]), H=rng.choice(HASHERS), V=rng.choice(ROUTES)), ops)

# ---------------------------------------------------------------- stream: memory failure then more (C07 C10, threaded key density)
def memfail_then_more(tier, rng, count):
    for n in range(count):
        kind = rng.choice(["NT", "NT", "NR"])
        c = rng.choice([1, 2, 4, 8])
        m = c + rng.randrange(0, 3 * c + 4)
        K = rng.choice(["spur", "micro", "cap5"])
        ops = [f"{kind} {c} {m} 0 {n}"]
        j = 0
        for _ in range(rng.randrange(3, 10)):
            r = rng.random()
            if r < 0.5:
                ops.append(f"I 0 {hx(sized(j, rng.choice([1, c, 2 * c, m, m + 1, 4 * c + 1])))}"); j += 1
            elif r < 0.65:
                ops.append(f"I 0 {hx(sized(rng.randrange(j + 1), 1))}")
            elif r < 0.8:
                ops.append(f"LIM 0 {rng.choice(['max', str(m + rng.randrange(0, 30))])}")
            else:
                ops.append(f"IP 0 {hx(sized(j, rng.choice([1, m + 2])))}"); j += 1
        ops += ["LEN 0", "IT 0 nnnnnnnnnn", "CK 0 0", "CK 0 1", "CK 0 2", "CK 0 3", rng.choice(["RD 0", "RS 0", "SER 0"]), "IT 0 nnnn", "LEN 0"]
        yield case(f"mf{n}", cfg(K=K, H=rng.choice(HASHERS)), ops)

# ---------------------------------------------------------------- corpus: the witnesses of the repaired defects and kept minimised cases
CORPUS = [
    # F1  C04/C08
    case("corpus-F1-rodeo", cfg(), ["NR 10 15 4 1", f"I 0 {hx(b'0123456789')}", f"I 0 {hx(b'abcdefgh')}", "CUR 0"]),
    case("corpus-F1-threaded", cfg(), ["NT 10 15 4 1", f"I 0 {hx(b'0123456789')}", f"I 0 {hx(b'abcdefgh')}", "CUR 0"]),
    # F3  C14
    case("corpus-F3", cfg(), ["NT 64 max 0 1", f"I 0 {hx(b'a')}", f"I 0 {hx(b'b')}", "SER 0", f"DE threaded M:{hx(b'a')}=1,{hx(b'b')}=2", f"I 1 {hx(b'c')}", "TR 1 1", "IT 1 -"]),
    # F4  C15
    case("corpus-F4-gap", cfg(), [f"DE threaded M:{hx(b'a')}=1,{hx(b'b')}=7", "RS 0"]),
    case("corpus-F4-dup", cfg(), [f"DE threaded M:{hx(b'a')}=1,{hx(b'b')}=1", f"G 0 {hx(b'b')}", "TR 0 0"]),
    case("corpus-F4-hole", cfg(), [f"DE threaded M:{hx(b'a')}=2", "RD 0"]),
    # F5  C15
    case("corpus-F5-rodeo", cfg(), [f"DE rodeo L:{hx(b'a')},{hx(b'a')},{hx(b'b')}", f"G 0 {hx(b'b')}", "IT 0 nn"]),
    case("corpus-F5-reader", cfg(), [f"DE reader L:{hx(b'a')},{hx(b'a')},{hx(b'b')}", f"G 0 {hx(b'b')}", "IT 0 nn"]),
    # F6  C16/C17
    case("corpus-F6-box", cfg(V="box", P=[hx(b"a static string of thirty-five bytes")]), ["NR 4096 max 0 1", "IS 0 0", "R 0 0", "CUR 0"]),
    case("corpus-F6-dyn", cfg(V="dyn", P=[hx(b"a static string of thirty-five bytes")]), ["NT 8 8 0 1", "IS 0 0", "R 0 0", "CUR 0"]),
    # F7  C04: a first bucket no Layout can describe (capacity 2^63) is a failed allocation, not an unchecked Layout
    case("corpus-F7-rodeo", cfg(), ["NR 9223372036854775808 max 0 1", "NR 8 max 0 1", f"I 0 {hx(b'a')}", "CUR 0"]),
    case("corpus-F7-threaded", cfg(), ["NT 9223372036854775808 max 0 1", "NT 8 max 0 1", f"I 0 {hx(b'a')}", "CUR 0"]),
]

def corpus():
    for c in CORPUS:
        yield c
