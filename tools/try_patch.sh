#!/bin/bash
# try_patch.sh <patch.diff> <lane> <prop> [<prop>...]
# Development aid: applies an arbitrary patch to a SCRATCH worktree of /repo, runs the quick checks against it in the
# scratch area build/<lane> (VERIF_REPO + VERIF_ALT; evidence/ is never touched), removes the worktree.
# Used for the behaviour-preserving changes of seeded/benign/ (false-alarm measurement) next to try_seeded.sh.
patch=$1; lane=$2; shift 2
wt=/tmp/patchrepo-$lane-$$
git -C /repo worktree add -q --detach $wt HEAD || exit 2
trap 'git -C /repo worktree remove --force '$wt' 2>/dev/null' EXIT
git -C $wt apply "$patch" || { echo "cannot apply $patch"; exit 2; }
for p in "$@"; do
  t0=$(date +%s)
  out=$(cd /verif && VERIF_REPO=$wt VERIF_ALT=$lane ./check $p 2>&1 | grep -E "^(VIOLATION|OK|KNOWN|BROKEN)" | head -3 | tr '\n' ' ')
  echo "$(basename $patch .diff) $p: $out ($(( $(date +%s) - t0 )) s)"
done
