#!/bin/bash
# Extract the Coq model and build the runner.  Needs /verif/coq compiled (Base, Arena, Rodeo .vo).
set -e
ext=/verif/build/extracted
mkdir -p $ext /verif/build/bin
cd $ext
rm -f *.ml *.mli *.cm* *.o
coqc -Q /verif/coq Lasso /verif/coq/Extract.v > /dev/null
rm -f /verif/coq/Extract.vo /verif/coq/Extract.glob /verif/coq/.Extract.aux /verif/coq/Extract.vos /verif/coq/Extract.vok
cp /verif/runner/main.ml $ext/runner_main.ml; cp /verif/runner/util.ml $ext/util.ml; cp /verif/runner/creplay.ml $ext/creplay_main.ml
ocamlfind ocamlopt -O3 -package str -linkpkg -w -a \
  Datatypes.mli Datatypes.ml Nat.mli Nat.ml PeanoNat.mli PeanoNat.ml BinNums.mli BinNums.ml \
  BinPosDef.mli BinPosDef.ml BinPos.mli BinPos.ml BinNat.mli BinNat.ml List.mli List.ml \
  Base.mli Base.ml Arena.mli Arena.ml Keys.mli Keys.ml Ctors.mli Ctors.ml Rodeo.mli Rodeo.ml Conc.mli Conc.ml util.ml runner_main.ml -o /verif/build/bin/.runner.new.$$ 2>&1 | grep -v "^$" | head -30
ocamlfind ocamlopt -O3 -package str -linkpkg -w -a \
  Datatypes.cmx Nat.cmx PeanoNat.cmx BinNums.cmx BinPosDef.cmx BinPos.cmx BinNat.cmx List.cmx \
  Base.cmx Arena.cmx Keys.cmx Ctors.cmx Rodeo.cmx Conc.cmx util.cmx creplay_main.ml -o /verif/build/bin/.creplay.new.$$ 2>&1 | grep -v "^$" | head -30
# install atomically (other processes run these binaries while we build): never leave a broken binary
for b in runner creplay; do
  if [ -x /verif/build/bin/.$b.new.$$ ]; then mv -f /verif/build/bin/.$b.new.$$ /verif/build/bin/$b
  else echo "build.sh: $b failed to build, keeping the old binary" >&2; rm -f /verif/build/bin/.$b.new.$$; fail=1; fi
done
ls -la /verif/build/bin/runner
[ -z "$fail" ]
