(* shared helpers of the model runners: numbers, hex strings (no model logic) *)
module L = Stdlib.List
open BinNums
open Datatypes

(* ---------- numbers: coq_N <-> unsigned 64-bit ---------- *)
let rec pos_of_u64 (x : int64) : positive =
  if Int64.equal x 1L then Coq_xH
  else
    let rest = pos_of_u64 (Int64.shift_right_logical x 1) in
    if Int64.equal (Int64.logand x 1L) 1L then Coq_xI rest else Coq_xO rest

let n_of_u64 (x : int64) : coq_N = if Int64.equal x 0L then N0 else Npos (pos_of_u64 x)
let n_of_int (i : int) : coq_N = n_of_u64 (Int64.of_int i)

let rec u64_of_pos (p : positive) : int64 =
  match p with
  | Coq_xH -> 1L
  | Coq_xO q -> Int64.shift_left (u64_of_pos q) 1
  | Coq_xI q -> Int64.logor (Int64.shift_left (u64_of_pos q) 1) 1L

let u64_of_n (n : coq_N) : int64 = match n with N0 -> 0L | Npos p -> u64_of_pos p
let int_of_n (n : coq_N) : int = Int64.to_int (u64_of_n n)
let string_of_n (n : coq_N) : string = Printf.sprintf "%Lu" (u64_of_n n)
let n_of_string (s : string) : coq_N = n_of_u64 (Int64.of_string ("0u" ^ s))

let rec nat_of_int (i : int) : nat = if i <= 0 then O else S (nat_of_int (i - 1))

let usize_max = Base.usize_max
let lim_of_string s = if s = "max" then usize_max else n_of_string s
let string_of_lim n = if BinNat.N.eqb n usize_max then "max" else string_of_n n

(* ---------- strings ---------- *)
let hexdigit c =
  match c with
  | '0' .. '9' -> Char.code c - 48
  | 'a' .. 'f' -> Char.code c - 87
  | _ -> failwith "bad hex"

let bytes_of_hex (h : string) : coq_N list =
  if h = "-" then []
  else begin
    let n = String.length h / 2 in
    let rec go i acc =
      if i < 0 then acc
      else go (i - 1) (n_of_int ((hexdigit h.[2 * i] * 16) + hexdigit h.[(2 * i) + 1]) :: acc)
    in
    go (n - 1) []
  end

let hex_of_bytes (s : coq_N list) : string =
  if s = [] then "-"
  else begin
    let b = Buffer.create 32 in
    L.iter (fun x -> Buffer.add_string b (Printf.sprintf "%02x" (int_of_n x))) s;
    Buffer.contents b
  end

let rec take n l = if n <= 0 then [] else match l with [] -> [] | x :: t -> x :: take (n - 1) t
let rec drop n l = if n <= 0 then l else match l with [] -> [] | _ :: t -> drop (n - 1) t

let split_on c s = String.split_on_char c s
let hexlist s = if s = "." || s = "" then [] else L.map bytes_of_hex (split_on ',' s)

