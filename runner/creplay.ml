(* Trace replayer: validates event traces of the real ThreadedRodeo (harness/concdriver, controlled
   scheduler) against the extracted small-step model Conc.step.  Every event of the implementation
   must be a move the model allows at that point, and carry the value the model computes; the
   answers of all calls and the final state must agree.  (Safety direction: every observed
   behaviour of the code is a behaviour of the model, about which the invariants are proved.)
   usage: creplay <cases> <traces> <report> *)

module L = Stdlib.List
open BinNums
open Datatypes
open Util

exception Bad of string

let bad fmt = Printf.ksprintf (fun s -> raise (Bad s)) fmt

let keycap_of (k : string) : coq_N =
  match k with
  | "micro" -> n_of_int 255
  | "mini" -> n_of_int 65535
  | "spur" -> n_of_u64 4294967295L
  | "large" -> usize_max
  | _ -> n_of_string (String.sub k 3 (String.length k - 3))

let split_on c s = String.split_on_char c s
let starts_with p s = String.length s >= String.length p && String.sub s 0 (String.length p) = p

let int_of_nat (n : nat) : int =
  let rec go n acc = match n with O -> acc | S m -> go m (acc + 1) in
  go n 0

let rec nat_of_int (i : int) : nat = if i <= 0 then O else S (nat_of_int (i - 1))

type case = { id : string; keycap : coq_N; cap : coq_N; lim : coq_N; progs : Conc.call list list }

let parse_case (line : string) : case =
  match Str.split (Str.regexp_string " | ") line with
  | [] -> failwith "empty"
  | left :: _ ->
      let parts = L.map String.trim (Str.split (Str.regexp_string " ; ") left) in
      let head = L.hd parts and progs = L.tl parts in
      let toks = L.filter (fun t -> t <> "") (split_on ' ' head) in
      let cfg k =
        let pre = k ^ "=" in
        let t = L.find (starts_with pre) toks in
        String.sub t (String.length pre) (String.length t - String.length pre)
      in
      let addr = ref 0 in
      let parse_call (c : string) : Conc.call =
        match split_on ':' c with
        | [ "I"; h ] -> Conc.CIntern (bytes_of_hex h)
        | [ "IS"; h ] -> incr addr; Conc.CInternStatic (n_of_int !addr, bytes_of_hex h)
        | [ "G"; h ] -> Conc.CGet (bytes_of_hex h)
        | [ "R"; k ] -> Conc.CResolve (try n_of_string k with _ -> usize_max)
        | [ "L"; m ] -> Conc.CSetLimit (lim_of_string m)
        | [ "U" ] -> Conc.CUsage
        | _ -> failwith ("bad call " ^ c)
      in
      let parse_prog p = if p = "-" || p = "" then [] else L.map parse_call (split_on ',' p) in
      { id = L.nth toks 1; keycap = keycap_of (cfg "K"); cap = n_of_string (cfg "CAP"); lim = lim_of_string (cfg "LIM");
        progs = L.map parse_prog progs }

let cout_s (o : Conc.cout) =
  match o with
  | Conc.ROk k -> "K" ^ string_of_n k
  | Conc.RErr Base.MemoryLimitReached -> "E:mem"
  | Conc.RErr Base.KeySpaceExhaustion -> "E:key"
  | Conc.RErr Base.FailedAllocation -> "E:alloc"
  | Conc.RNone -> "N"
  | Conc.RStr s -> "S:" ^ hex_of_bytes s
  | Conc.RNum n -> "#" ^ string_of_n n
  | Conc.RUnit -> "U"

let replay (cs : case) (lines : (int * string) list) : int =
  let shards = Hashtbl.create 16 in
  let addr2bid = Hashtbl.create 16 in
  let shard_of (s : coq_N list) : coq_N =
    match Hashtbl.find_opt shards (hex_of_bytes s) with Some n -> n | None -> N0
  in
  let st = ref (Conc.init cs.cap cs.lim cs.progs) in
  let step_once tid =
    match Conc.step shard_of cs.keycap !st (nat_of_int tid) false with
    | Some c -> st := c
    | None -> bad "the model's thread %d cannot move here (blocked or finished)" tid
  in
  let thread tid =
    match L.nth_opt !st.Conc.c_threads tid with Some t -> t | None -> bad "no thread %d" tid
  in
  let pc tid = (thread tid).Conc.t_pc in
  let bid_of addr =
    match Hashtbl.find_opt addr2bid addr with Some b -> b | None -> bad "unknown block address %s" addr
  in
  let find_blk b =
    match Arena.find_block b !st.Conc.c_blocks with Some blk -> Some blk | None -> None
  in
  (* moves of the model that have no parking point of their own in the implementation *)
  let rec eager tid =
    match pc tid with
    | Conc.PFind _ | Conc.PUsage -> step_once tid; eager tid
    | Conc.PStore (_, Conc.SCopy _) -> step_once tid; eager tid
    | Conc.PStore (s, Conc.SCas (b, seen, tries, _)) -> (
        match find_blk b with
        | Some blk ->
            let fits = BinNat.N.leb (BinNat.N.add seen (Base.slen s)) blk.Arena.bcap in
            if (not fits) || int_of_nat tries >= 100 then (step_once tid; eager tid)
        | None -> ())
    | _ -> ()
  in
  (* A PRE event is logged when the worker ARRIVES at its park point; the operation itself runs when the
     controller releases the worker, i.e. immediately before that worker's next logged event (all other
     workers are parked in between).  So the model step of a PRE event is deferred to that moment. *)
  let pending : (int, unit -> unit) Hashtbl.t = Hashtbl.create 8 in
  let flush tid =
    match Hashtbl.find_opt pending tid with
    | Some f -> Hashtbl.remove pending tid; f ()
    | None -> ()
  in
  let defer tid f = flush tid; Hashtbl.replace pending tid f in
  let nev = ref 0 in
  let expect tid what ok = if not ok then bad "thread %d: the implementation does `%s` but the model is elsewhere" tid what in
  let neq a b = not (BinNat.N.eqb a b) in
  L.iter
    (fun (lineno, line) ->
      try
        let a = Array.of_list (L.filter (fun t -> t <> "") (split_on ' ' line)) in
        match a.(0) with
        | "SHARD" -> Hashtbl.replace shards a.(1) (n_of_string a.(2))
        | "BLOCK" ->
            if Hashtbl.length addr2bid = 0 then Hashtbl.replace addr2bid a.(1) N0
            else bad "more than one initial block"
        | "CALL" ->
            let tid = int_of_string a.(1) in
            flush tid;
            expect tid "start a call" (pc tid = Conc.PIdle);
            defer tid (fun () -> step_once tid; eager tid)
        | "RET" ->
            let tid = int_of_string a.(1) in
            flush tid;
            (match pc tid with Conc.PResolve _ -> step_once tid | _ -> ());
            expect tid "return from a call" (pc tid = Conc.PIdle);
            (match (thread tid).Conc.t_outs with
            | (_, o) :: _ ->
                if a.(2) = "P" then bad "thread %d: the call panicked; the model answers %s" tid (cout_s o)
                else if cout_s o <> a.(2) then bad "thread %d: the call returned %s, the model answers %s" tid a.(2) (cout_s o)
            | [] -> bad "thread %d returned but the model recorded no answer" tid)
        | "EV" -> (
            incr nev;
            let tid = int_of_string a.(1) and site = int_of_string a.(2) in
            flush tid;
            let x = a.(3) and y = a.(4) in
            let nx () = n_of_string x and ny () = n_of_string y in
            match site with
            | 1 -> expect tid "map.get" (match pc tid with Conc.PFast _ -> true | _ -> false); defer tid (fun () -> step_once tid; eager tid)
            | 2 ->
                if x = "1" then (
                  match (pc tid, (thread tid).Conc.t_outs) with
                  | Conc.PIdle, (_, Conc.ROk k) :: _ when BinNat.N.eqb k (ny ()) -> ()
                  | _ -> bad "thread %d: map.get found key %s; the model did not" tid y)
                else expect tid "map.get = None" (match pc tid with Conc.PLock _ | Conc.PEntry _ -> true | _ -> false)
            | 3 -> expect tid "shard.write()" (match pc tid with Conc.PLock _ -> true | _ -> false); defer tid (fun () -> step_once tid; eager tid)
            | 4 -> expect tid "vacant slot under the lock" (match pc tid with Conc.PStore _ | Conc.PKeyAdd _ -> true | _ -> false)
            | 5 -> expect tid "key.fetch_add" (match pc tid with Conc.PKeyAdd _ | Conc.PSKeyAdd _ -> true | _ -> false); defer tid (fun () -> step_once tid; eager tid)
            | 7 ->
                (match pc tid with
                | Conc.PStrs (_, _, k) -> if neq k (nx ()) then bad "thread %d inserts key %s, the model drew %s" tid x (string_of_n k)
                | _ -> bad "thread %d: strings.insert but the model is elsewhere" tid);
                defer tid (fun () -> step_once tid; eager tid)
            | 8 ->
                (match pc tid with
                | Conc.PMap (_, _, k) -> if neq k (nx ()) then bad "thread %d publishes key %s, the model has %s" tid x (string_of_n k)
                | _ -> bad "thread %d: map insert but the model is elsewhere" tid);
                defer tid (fun () -> step_once tid; eager tid)
            | 9 -> expect tid "map.entry" (match pc tid with Conc.PEntry _ -> true | _ -> false); defer tid (fun () -> step_once tid; eager tid)
            | 10 -> expect tid "vacant entry" (match pc tid with Conc.PSKeyAdd _ -> true | _ -> false)
            | 11 -> expect tid "strings.get" (match pc tid with Conc.PResolve _ -> true | _ -> false); defer tid (fun () -> step_once tid; eager tid)
            | 12 -> ()
            | 20 -> (match pc tid with Conc.PStore (_, Conc.SHead) -> defer tid (fun () -> step_once tid; eager tid) | _ -> ())
            | 21 -> ()
            | 22 ->
                (match pc tid with
                | Conc.PStore (_, Conc.SLen (b, _)) -> if neq b (bid_of x) then bad "thread %d loads the length of another block than the model" tid
                | _ -> bad "thread %d: len.load but the model is elsewhere" tid);
                defer tid (fun () -> step_once tid)
            | 23 ->
                (match pc tid with
                | Conc.PStore (_, Conc.SCas (_, seen, _, _)) -> if neq seen (ny ()) then bad "thread %d loaded len %s, the model has %s" tid y (string_of_n seen)
                | _ -> bad "thread %d: len loaded but the model is elsewhere" tid);
                eager tid
            | 24 ->
                (match pc tid with
                | Conc.PStore (_, Conc.SCas (_, seen, _, _)) -> if neq seen (nx ()) then bad "thread %d CAS expects %s, the model %s" tid x (string_of_n seen)
                | _ -> bad "thread %d: len CAS but the model is elsewhere (the model says the string does not fit or the retry budget is used up)" tid);
                defer tid (fun () -> step_once tid; eager tid)
            | 25 ->
                if x = "1" then
                  (match pc tid with
                  | Conc.PKeyAdd (_, Arena.RArena (_, off, _)) -> if neq off (ny ()) then bad "thread %d reserved offset %s, the model %s" tid y (string_of_n off)
                  | _ -> bad "thread %d: CAS succeeded in the implementation, not in the model" tid)
                else (match pc tid with
                  | Conc.PKeyAdd _ -> bad "thread %d: CAS failed in the implementation but succeeded in the model" tid
                  | _ -> ())
            | 26 -> expect tid "bucket_capacity.load" (match pc tid with Conc.PStore (_, Conc.SBcap) -> true | _ -> false);
                    defer tid (fun () -> step_once tid)
            | 27 -> ()
            | 28 ->
                if x = "1" then (expect tid "allocate_memory" (match pc tid with Conc.PStore (_, Conc.SAllocLoad _) -> true | _ -> false); defer tid (fun () -> step_once tid))
                else (expect tid "memory_usage.load" (match pc tid with Conc.PStore (_, Conc.SUsage2 _) -> true | _ -> false); defer tid (fun () -> step_once tid))
            | 29 ->
                (match pc tid with
                | Conc.PStore (_, Conc.SAllocCas (cur, _, _, _)) -> if y = "1" && neq cur (nx ()) then bad "thread %d saw usage %s, the model %s" tid x (string_of_n cur)
                | Conc.PStore (_, Conc.SLimit2 (_, u)) -> if neq u (nx ()) then bad "thread %d saw usage %s, the model %s" tid x (string_of_n u)
                | _ -> ())
            | 30 ->
                if x = "1" then (expect tid "limit check + usage CAS" (match pc tid with Conc.PStore (_, Conc.SAllocCas _) -> true | _ -> false); defer tid (fun () -> step_once tid; eager tid))
                else (expect tid "max_memory_usage.load" (match pc tid with Conc.PStore (_, Conc.SLimit2 _) -> true | _ -> false);
                      if false then (); defer tid (fun () -> step_once tid; eager tid))
            | 31 -> if neq !st.Conc.c_limit (nx ()) then bad "thread %d saw limit %s, the model %s" tid x (string_of_n !st.Conc.c_limit)
            | 33 -> ()
            | 34 ->
                (match pc tid with
                | Conc.PStore (_, Conc.SBcapStore next) -> if neq next (nx ()) then bad "thread %d stores capacity %s, the model %s" tid x (string_of_n next)
                | _ -> bad "thread %d: bucket_capacity.store but the model is elsewhere" tid);
                defer tid (fun () -> step_once tid)
            | 35 -> expect tid "head.load" (match pc tid with Conc.PStore (_, Conc.SPushLoad _) -> true | _ -> false); defer tid (fun () -> step_once tid)
            | 36 -> ()
            | 37 -> expect tid "head CAS" (match pc tid with Conc.PStore (_, Conc.SPushCas _) -> true | _ -> false); defer tid (fun () -> step_once tid; eager tid)
            | 38 ->
                if x = "1" then expect tid "head CAS succeeded" (match pc tid with Conc.PKeyAdd _ -> true | _ -> false)
                else expect tid "head CAS failed" (match pc tid with Conc.PStore (_, Conc.SPushCas _) -> true | _ -> false)
            | 39 ->
                (match pc tid with
                | Conc.PStore (_, Conc.SNewBlock cap) ->
                    if neq cap (ny ()) then bad "thread %d allocates a block of %s bytes, the model of %s" tid y (string_of_n cap);
                    Hashtbl.replace addr2bid x !st.Conc.c_next_bid;
                    step_once tid
                | _ -> bad "thread %d allocates a block but the model is elsewhere" tid)
            | 40 -> ()
            | 41 -> expect tid "limit.store" (match pc tid with Conc.PSetLimit _ -> true | _ -> false); defer tid (fun () -> step_once tid)
            | _ -> ())
        | "FINAL" ->
            let get k =
              let pre = k ^ "=" in
              let t = L.find (starts_with pre) (Array.to_list a) in
              String.sub t (String.length pre) (String.length t - String.length pre)
            in
            Hashtbl.iter (fun tid _ -> ()) pending;
            L.iter flush (L.init (L.length !st.Conc.c_threads) (fun i -> i));
            let c = !st in
            if get "key" <> string_of_n c.Conc.c_key then bad "final key counter %s, model %s" (get "key") (string_of_n c.Conc.c_key);
            if get "cur" <> string_of_n c.Conc.c_usage then bad "final usage %s, model %s" (get "cur") (string_of_n c.Conc.c_usage);
            if get "max" <> string_of_lim c.Conc.c_limit then bad "final limit %s, model %s" (get "max") (string_of_lim c.Conc.c_limit);
            if get "bc" <> string_of_n c.Conc.c_bcap then bad "final bucket capacity %s, model %s" (get "bc") (string_of_n c.Conc.c_bcap);
            let mblocks =
              String.concat ","
                (L.map (fun b -> string_of_n b.Arena.bid ^ ":" ^ string_of_n b.Arena.bcap ^ ":" ^ string_of_n b.Arena.bused) c.Conc.c_blocks)
            in
            let iblocks =
              if get "blocks" = "" then ""
              else
                String.concat ","
                  (L.map
                     (fun e ->
                       match split_on ':' e with
                       | [ ad; cp; us ] -> string_of_n (bid_of ad) ^ ":" ^ cp ^ ":" ^ us
                       | _ -> bad "bad block entry %s" e)
                     (split_on ',' (get "blocks")))
            in
            if mblocks <> iblocks then bad "final block list (id:cap:used) %s, model %s" iblocks mblocks;
            let arena = Conc.as_arena c in
            let mstrs =
              L.sort compare
                (L.map
                   (fun e ->
                     let r =
                       match e.Conc.e_ref with
                       | Arena.REmpty -> "E"
                       | Arena.RStatic (addr, s) -> "S" ^ string_of_n addr ^ "=" ^ hex_of_bytes s
                       | Arena.RArena (b, off, _) -> (
                           match Arena.read arena e.Conc.e_ref with
                           | Some s -> Printf.sprintf "A%s.%s=%s" (string_of_n b) (string_of_n off) (hex_of_bytes s)
                           | None -> "?")
                     in
                     (int_of_n e.Conc.e_key, r))
                   c.Conc.c_strs)
            in
            let istrs =
              if get "strs" = "" then []
              else
                L.sort compare
                  (L.map
                     (fun e ->
                       match split_on ':' e with
                       | [ k; r ] ->
                           let r' =
                             if String.length r > 0 && r.[0] = 'A' then (
                               match split_on '.' (String.sub r 1 (String.length r - 1)) with
                               | [ ad; rest ] -> "A" ^ string_of_n (bid_of ad) ^ "." ^ rest
                               | _ -> r)
                             else r
                           in
                           (int_of_string k, r')
                       | _ -> bad "bad strs entry %s" e)
                     (split_on ',' (get "strs")))
            in
            if mstrs <> istrs then
              bad "final key->string table differs: implementation [%s], model [%s]"
                (String.concat "," (L.map (fun (k, r) -> string_of_int k ^ ":" ^ r) istrs))
                (String.concat "," (L.map (fun (k, r) -> string_of_int k ^ ":" ^ r) mstrs));
            if get "map" <> "" then
              L.iter
                (fun e ->
                  match split_on '=' e with
                  | [ h; k ] -> (
                      match Conc.map_get c (bytes_of_hex h) with
                      | Some k' when string_of_n k' = k -> ()
                      | Some k' -> bad "final get(%s) = %s, model %s" h k (string_of_n k')
                      | None -> bad "final get(%s) = %s, model None" h k)
                  | _ -> ())
                (split_on ',' (get "map"));
            (* and conversely the model's map has no more entries than the implementation reported *)
            let n_impl = if get "map" = "" then 0 else L.length (split_on ',' (get "map")) in
            if L.length c.Conc.c_map <> n_impl then bad "final string->key map has %d entries, model %d" n_impl (L.length c.Conc.c_map);
            L.iteri (fun tid t -> if t.Conc.t_pc <> Conc.PIdle || t.Conc.t_prog <> [] then bad "model thread %d has not finished" tid) c.Conc.c_threads
        | "DEADLOCK" | "TIMEOUT" -> bad "the implementation run ended in %s" a.(0)
        | _ -> ()
      with
      | Bad m -> raise (Bad (Printf.sprintf "trace line %d (`%s`): %s" lineno line m))
      | Failure m | Invalid_argument m -> raise (Bad (Printf.sprintf "trace line %d (`%s`): malformed (%s)" lineno line m))
      | Not_found -> raise (Bad (Printf.sprintf "trace line %d (`%s`): malformed" lineno line)))
    lines;
  !nev

let () =
  let cases = Sys.argv.(1) and traces = Sys.argv.(2) and report = Sys.argv.(3) in
  let by_id = Hashtbl.create 64 in
  let ic = open_in traces in
  let cur = ref None and acc = ref [] and lineno = ref 0 in
  (try
     while true do
       let line = String.trim (input_line ic) in
       incr lineno;
       if starts_with "BEGIN " line then (cur := Some (String.sub line 6 (String.length line - 6)); acc := [])
       else if starts_with "END " line then (
         (match !cur with Some id -> Hashtbl.replace by_id id (L.rev !acc, true) | None -> ());
         cur := None)
       else if line <> "" then acc := (!lineno, line) :: !acc
     done
   with End_of_file -> ());
  (match !cur with Some id -> Hashtbl.replace by_id id (L.rev !acc, false) | None -> ());
  close_in ic;
  let oc = open_out report in
  let ic = open_in cases in
  (try
     while true do
       let line = String.trim (input_line ic) in
       if line <> "" && line.[0] <> '#' then begin
         let cs = parse_case line in
         match Hashtbl.find_opt by_id cs.id with
         | None -> Printf.fprintf oc "BAD %s no trace for this case\n" cs.id
         | Some (lines, complete) -> (
             try
               let n = replay cs lines in
               if complete then Printf.fprintf oc "OK %s events=%d\n" cs.id n
               else Printf.fprintf oc "BAD %s the trace is incomplete (no END)\n" cs.id
             with Bad m -> Printf.fprintf oc "BAD %s %s\n" cs.id m)
       end
     done
   with End_of_file -> ());
  close_in ic;
  close_out oc
