(* Model runner: reads a case file (FORMAT.md), runs the extracted Coq model Rodeo.step on every
   case and prints the canonical result file.  Parsing and printing only; every decision about
   lasso's behaviour is taken by extracted code.
   usage: runner <cases> <results> [variant]
     variant A: hash = constant 0, cand = always, grow = always   (degenerate table)
     variant B: hash = length,     cand = equal,  grow = never    (default)
   The results are proved (RodeoProofs.v) and checked (both variants are run) to be independent.
   usage: runner <cases> <results> <variant> --emit-coq <file.v> <N>
     same output, plus <file.v>: for the first N cases, the model calls made and the outputs obtained,
     as Examples that Coq re-evaluates with vm_compute (tools/crosscheck.sh). *)

module L = Stdlib.List
open BinNums
open Datatypes
open Util

(* ---------- model instance ---------- *)
let variant = ref 'B'
let hashf (s : coq_N list) : coq_N = if !variant = 'A' then N0 else n_of_int (L.length s)
let candf (a : coq_N) (b : coq_N) : bool = if !variant = 'A' then true else BinNat.N.eqb a b
let growf (_ : coq_N) : bool = !variant = 'A'

(* ---------- printing ---------- *)
let err_s (e : Base.err) =
  match e with
  | Base.MemoryLimitReached -> "E:mem"
  | Base.KeySpaceExhaustion -> "E:key"
  | Base.FailedAllocation -> "E:alloc"

let item_s keyed (it : Rodeo.item) =
  match it with
  | Rodeo.ItSome (i, s) -> if keyed then string_of_n i ^ "=" ^ hex_of_bytes s else hex_of_bytes s
  | Rodeo.ItNone -> "~"
  | Rodeo.ItLen n -> "L" ^ string_of_n n
  | Rodeo.ItPanic -> "P"

(* a plan stops at the first panicking call *)
let rec cut_at_panic (l : Rodeo.item list) =
  match l with
  | [] -> []
  | Rodeo.ItPanic :: _ -> [ Rodeo.ItPanic ]
  | x :: t -> x :: cut_at_panic t

let doc_s (d : Rodeo.doc) =
  match d with
  | Rodeo.DList l -> "DOC:L:" ^ String.concat "," (L.map hex_of_bytes l)
  | Rodeo.DMap l ->
      "DOC:M:"
      ^ String.concat ","
          (L.map (fun (s, k) -> hex_of_bytes s ^ "=" ^ string_of_n (BinNat.N.succ k)) l)

(* `s<n>` in a plan is Iterator::nth(n), which neither Iter nor Strings overrides: by std's default definition it is
   n+1 calls of next() of which only the last result is returned.  parse_plan expands it that way and records here
   which of the model's items are visible (None: all). *)
let plan_mask : bool list option ref = ref None

let rec apply_mask (m : bool list) (l : Rodeo.item list) =
  match m, l with
  | _, [] -> []
  | [], l -> l
  | _ :: _, [ Rodeo.ItPanic ] -> [ Rodeo.ItPanic ]
  | keep :: m', x :: l' -> if keep then x :: apply_mask m' l' else apply_mask m' l'

let out_s ?(keyed = true) ?(sort_hex = false) (o : Rodeo.out) : string =
  match o with
  | Rodeo.OKey k -> "K" ^ string_of_n k
  | Rodeo.OErr e -> err_s e
  | Rodeo.OPanic -> "P"
  | Rodeo.ONone -> "N"
  | Rodeo.OStr s -> "S:" ^ hex_of_bytes s
  | Rodeo.OBool b -> if b then "T" else "F"
  | Rodeo.ONum n -> "#" ^ string_of_n n
  | Rodeo.OUnit -> "U"
  | Rodeo.OItems l ->
      let l = cut_at_panic l in
      let l = match !plan_mask with Some m when not sort_hex -> apply_mask m l | _ -> l in
      plan_mask := None;
      let strs = L.map (item_s keyed) l in
      let strs = if sort_hex then L.sort compare strs else strs in
      "I:" ^ String.concat "," strs
  | Rodeo.ODoc d -> doc_s d
  | Rodeo.ONew n -> "NEW" ^ string_of_n n
  | Rodeo.ODeErr -> "DE:err"
  | Rodeo.OUnsupported -> "X"
  | Rodeo.OFault -> "FAULT"

let block_pos (a : Arena.arena) (b : coq_N) : int =
  let rec go i l =
    match l with
    | [] -> -1
    | x :: t -> if BinNat.N.eqb x.Arena.bid b then i else go (i + 1) t
  in
  go 0 a.Arena.blocks

let ref_s unordered (a : Arena.arena) (r : Arena.sref) : string =
  match r with
  | Arena.REmpty -> "E"
  | Arena.RStatic (addr, _) -> "S" ^ string_of_n addr
  | Arena.RArena (b, off, _) -> (
      match Arena.read a r with
      | None -> "?"
      | Some s ->
          if unordered then "U=" ^ hex_of_bytes s
          else Printf.sprintf "A%d.%s=%s" (block_pos a b) (string_of_n off) (hex_of_bytes s))

let blocks_s (a : Arena.arena) =
  String.concat ","
    (L.map (fun b -> string_of_n b.Arena.bcap ^ ":" ^ string_of_n b.Arena.bused) a.Arena.blocks)

let arena_s (a : Arena.arena) =
  Printf.sprintf "cur=%s max=%s bc=%s" (string_of_n a.Arena.usage) (string_of_lim a.Arena.limit)
    (string_of_n a.Arena.bucket_cap)

let digest oc id opno slot unordered (o : Rodeo.obj) =
  let pr kind len a key strs =
    Printf.fprintf oc "D %s %s %d %s len=%d %s %sblocks=%s strs=%s\n" id opno slot kind len (arena_s a) key
      (blocks_s a) strs
  in
  match o with
  | Rodeo.ODead -> Printf.fprintf oc "D %s %s %d dead\n" id opno slot
  | Rodeo.ORodeo r ->
      pr "rodeo" (L.length r.Rodeo.rstrs) r.Rodeo.rar ""
        (String.concat "," (L.map (ref_s unordered r.Rodeo.rar) r.Rodeo.rstrs))
  | Rodeo.OReader r ->
      pr "reader" (L.length r.Rodeo.rstrs) r.Rodeo.rar ""
        (String.concat "," (L.map (ref_s unordered r.Rodeo.rar) r.Rodeo.rstrs))
  | Rodeo.OResolver (strs, a) ->
      pr "resolver" (L.length strs) a "" (String.concat "," (L.map (ref_s unordered a) strs))
  | Rodeo.OThreaded t ->
      let sorted = Rodeo.insertion_sort_keys t.Rodeo.tstrs in
      pr "threaded" (L.length t.Rodeo.tstrs) t.Rodeo.tar
        (Printf.sprintf "key=%s " (string_of_n t.Rodeo.tkey))
        (String.concat ","
           (L.map (fun (k, r) -> string_of_n k ^ ":" ^ ref_s unordered t.Rodeo.tar r) sorted))

(* ---------- parsing ---------- *)
let keycap_of (k : string) : coq_N =
  match k with
  | "micro" -> n_of_int 255
  | "mini" -> n_of_int 65535
  | "spur" -> n_of_u64 4294967295L
  | "large" -> usize_max
  | _ ->
      if String.length k > 3 && String.sub k 0 3 = "cap" then
        n_of_string (String.sub k 3 (String.length k - 3))
      else failwith ("bad key type " ^ k)

let parse_plan (p : string) : Rodeo.iop list =
  plan_mask := None;
  if p = "-" then []
  else begin
    let n = String.length p in
    let mask = ref [] and masked = ref false in
    let rec go i acc =
      if i >= n then L.rev acc
      else
        match p.[i] with
        | 'n' -> mask := true :: !mask; go (i + 1) (Rodeo.INext :: acc)
        | 'b' -> mask := true :: !mask; go (i + 1) (Rodeo.INextBack :: acc)
        | 'l' -> mask := true :: !mask; go (i + 1) (Rodeo.ILen :: acc)
        | 't' ->
            let j = ref (i + 1) in
            while !j < n && p.[!j] >= '0' && p.[!j] <= '9' do incr j done;
            mask := true :: !mask;
            go !j (Rodeo.INthBack (n_of_string (String.sub p (i + 1) (!j - i - 1))) :: acc)
        | 's' ->
            let j = ref (i + 1) in
            while !j < n && p.[!j] >= '0' && p.[!j] <= '9' do incr j done;
            let k = int_of_string (String.sub p (i + 1) (!j - i - 1)) in
            if k > 4096 then failwith "bad plan";
            masked := true;
            let acc = ref acc in
            for _ = 1 to k do mask := false :: !mask; acc := Rodeo.INext :: !acc done;
            mask := true :: !mask;
            go !j (Rodeo.INext :: !acc)
        | _ -> failwith "bad plan"
    in
    let r = go 0 [] in
    if !masked then plan_mask := Some (L.rev !mask);
    r
  end

(* the static pool: (canonical index, content) per entry *)
let parse_pool (p : string) : coq_N list array =
  if p = "-" then [||]
  else begin
    let entries = Array.of_list (split_on ',' p) in
    let out = Array.make (Array.length entries) [] in
    Array.iteri
      (fun i e ->
        if e.[0] = '@' then begin
          match split_on '.' (String.sub e 1 (String.length e - 1)) with
          | [ j; off; len ] ->
              out.(i) <- take (int_of_string len) (drop (int_of_string off) out.(int_of_string j))
          | _ -> failwith "bad pool slice"
        end
        else out.(i) <- bytes_of_hex e)
      entries;
    out
  end

(* a key index that does not even fit a usize is "not representable": use usize_max, which
   no key type represents (every capacity is <= usize_max) *)
let key_arg (t : string) : coq_N =
  if t <> "" && String.for_all (fun c -> c >= '0' && c <= '9') t then (try n_of_string t with _ -> usize_max)
  else failwith "bad key"

(* ---------- cross-check (--emit-coq): the model calls of a case as Coq source ----------
   Every call of the extracted Rodeo.step goes through do_step, which logs (op, out).  For the first
   N cases the runner writes an Example stating that Coq's own evaluation (vm_compute) of Rodeo.run on
   exactly these ops yields exactly these outs: for those cases neither the extraction nor the OCaml
   compiler has to be trusted.  Printing only; tools/crosscheck.sh compiles the file. *)
let case_log : (Rodeo.op * Rodeo.out) list ref = ref []   (* reversed *)
let case_keycap : coq_N ref = ref N0
let case_id : string ref = ref ""

let rec int_of_nat (n : nat) : int = match n with O -> 0 | S m -> 1 + int_of_nat m
let rec pos_bits (p : positive) : int = match p with Coq_xH -> 1 | Coq_xO q | Coq_xI q -> 1 + pos_bits q

(* size caps that keep coqc fast: numbers < 2^62 (or usize_max), strings <= 64 bytes, slots < 1000 *)
let cq_ok_n (n : coq_N) = match n with N0 -> true | Npos p -> pos_bits p <= 62 || BinNat.N.eqb n usize_max
let cq_ok_nat (n : nat) = int_of_nat n < 1000
let cq_ok_str (s : coq_N list) = L.length s <= 64 && L.for_all cq_ok_n s
let cq_ok_strs l = L.for_all cq_ok_str l
let cq_ok_iop (i : Rodeo.iop) = match i with Rodeo.INthBack n -> cq_ok_n n | Rodeo.INext | Rodeo.INextBack | Rodeo.ILen -> true
let cq_ok_doc (d : Rodeo.doc) =
  match d with
  | Rodeo.DList l -> cq_ok_strs l
  | Rodeo.DMap l -> L.for_all (fun (s, k) -> cq_ok_str s && cq_ok_n k) l
let cq_ok_op (o : Rodeo.op) =
  match o with
  | Rodeo.Intern (i, s) | Rodeo.InternP (i, s) | Rodeo.Get (i, s) | Rodeo.Contains (i, s) -> cq_ok_nat i && cq_ok_str s
  | Rodeo.InternStatic (i, a, s) | Rodeo.InternStaticP (i, a, s) -> cq_ok_nat i && cq_ok_n a && cq_ok_str s
  | Rodeo.Resolve (i, k) | Rodeo.TryResolve (i, k) | Rodeo.ContainsKey (i, k) | Rodeo.SetLimit (i, k) -> cq_ok_nat i && cq_ok_n k
  | Rodeo.Len i | Rodeo.IsEmpty i | Rodeo.Clear i | Rodeo.CurMem i | Rodeo.MaxMem i | Rodeo.Clone i | Rodeo.Drop i
  | Rodeo.IntoReader i | Rodeo.IntoResolver i | Rodeo.Ser i -> cq_ok_nat i
  | Rodeo.IterOp (i, p) | Rodeo.StringsOp (i, p) -> cq_ok_nat i && L.for_all cq_ok_iop p
  | Rodeo.CloneFrom (i, j) | Rodeo.EqOp (i, j) -> cq_ok_nat i && cq_ok_nat j
  | Rodeo.De (_, d) -> cq_ok_doc d
  | Rodeo.FromIter (_, l) -> cq_ok_strs l
  | Rodeo.Extend (i, l) -> cq_ok_nat i && cq_ok_strs l
  | Rodeo.NewRodeo (c, m) | Rodeo.NewThreaded (c, m) -> cq_ok_n c && cq_ok_n m
let cq_ok_item (it : Rodeo.item) =
  match it with
  | Rodeo.ItSome (i, s) -> cq_ok_n i && cq_ok_str s
  | Rodeo.ItLen n -> cq_ok_n n
  | Rodeo.ItNone | Rodeo.ItPanic -> true
let cq_ok_out (o : Rodeo.out) =
  match o with
  | Rodeo.OKey n | Rodeo.ONum n | Rodeo.ONew n -> cq_ok_n n
  | Rodeo.OStr s -> cq_ok_str s
  | Rodeo.OItems l -> L.for_all cq_ok_item l
  | Rodeo.ODoc d -> cq_ok_doc d
  | Rodeo.OErr _ | Rodeo.OPanic | Rodeo.ONone | Rodeo.OBool _ | Rodeo.OUnit | Rodeo.ODeErr | Rodeo.OUnsupported
  | Rodeo.OFault -> true

(* printers to Coq source (read under Open Scope N_scope) *)
let cq_sep = ";\n     "
let cq_list ?(sep = "; ") f l = "[" ^ String.concat sep (L.map f l) ^ "]"
let cq_n (n : coq_N) = if BinNat.N.eqb n usize_max then "usize_max" else string_of_n n
let cq_nat (n : nat) = Printf.sprintf "%d%%nat" (int_of_nat n)
let cq_bool (b : bool) = if b then "true" else "false"
let cq_str (s : coq_N list) = cq_list cq_n s
let cq_strs (l : coq_N list list) = cq_list ~sep:cq_sep cq_str l
let cq_iop (i : Rodeo.iop) =
  match i with
  | Rodeo.INext -> "INext"
  | Rodeo.INextBack -> "INextBack"
  | Rodeo.INthBack n -> "INthBack " ^ cq_n n
  | Rodeo.ILen -> "ILen"
let cq_plan (p : Rodeo.iop list) = cq_list cq_iop p
let cq_dkind (k : Rodeo.dkind) =
  match k with
  | Rodeo.KRodeo -> "KRodeo"
  | Rodeo.KThreaded -> "KThreaded"
  | Rodeo.KReader -> "KReader"
  | Rodeo.KResolver -> "KResolver"
let cq_doc (d : Rodeo.doc) =
  match d with
  | Rodeo.DList l -> "(DList " ^ cq_strs l ^ ")"
  | Rodeo.DMap l -> "(DMap " ^ cq_list ~sep:cq_sep (fun (s, k) -> "(" ^ cq_str s ^ ", " ^ cq_n k ^ ")") l ^ ")"
let cq_err (e : Base.err) =
  match e with
  | Base.MemoryLimitReached -> "MemoryLimitReached"
  | Base.KeySpaceExhaustion -> "KeySpaceExhaustion"
  | Base.FailedAllocation -> "FailedAllocation"
let cq_op (o : Rodeo.op) =
  let sp = String.concat " " in
  match o with
  | Rodeo.Intern (i, s) -> sp [ "Intern"; cq_nat i; cq_str s ]
  | Rodeo.InternStatic (i, a, s) -> sp [ "InternStatic"; cq_nat i; cq_n a; cq_str s ]
  | Rodeo.InternP (i, s) -> sp [ "InternP"; cq_nat i; cq_str s ]
  | Rodeo.InternStaticP (i, a, s) -> sp [ "InternStaticP"; cq_nat i; cq_n a; cq_str s ]
  | Rodeo.Get (i, s) -> sp [ "Get"; cq_nat i; cq_str s ]
  | Rodeo.Contains (i, s) -> sp [ "Contains"; cq_nat i; cq_str s ]
  | Rodeo.Resolve (i, k) -> sp [ "Resolve"; cq_nat i; cq_n k ]
  | Rodeo.TryResolve (i, k) -> sp [ "TryResolve"; cq_nat i; cq_n k ]
  | Rodeo.ContainsKey (i, k) -> sp [ "ContainsKey"; cq_nat i; cq_n k ]
  | Rodeo.Len i -> sp [ "Len"; cq_nat i ]
  | Rodeo.IsEmpty i -> sp [ "IsEmpty"; cq_nat i ]
  | Rodeo.IterOp (i, p) -> sp [ "IterOp"; cq_nat i; cq_plan p ]
  | Rodeo.StringsOp (i, p) -> sp [ "StringsOp"; cq_nat i; cq_plan p ]
  | Rodeo.Clear i -> sp [ "Clear"; cq_nat i ]
  | Rodeo.SetLimit (i, m) -> sp [ "SetLimit"; cq_nat i; cq_n m ]
  | Rodeo.CurMem i -> sp [ "CurMem"; cq_nat i ]
  | Rodeo.MaxMem i -> sp [ "MaxMem"; cq_nat i ]
  | Rodeo.Clone i -> sp [ "Clone"; cq_nat i ]
  | Rodeo.CloneFrom (i, j) -> sp [ "CloneFrom"; cq_nat i; cq_nat j ]
  | Rodeo.Drop i -> sp [ "Drop"; cq_nat i ]
  | Rodeo.IntoReader i -> sp [ "IntoReader"; cq_nat i ]
  | Rodeo.IntoResolver i -> sp [ "IntoResolver"; cq_nat i ]
  | Rodeo.Ser i -> sp [ "Ser"; cq_nat i ]
  | Rodeo.De (k, d) -> sp [ "De"; cq_dkind k; cq_doc d ]
  | Rodeo.EqOp (i, j) -> sp [ "EqOp"; cq_nat i; cq_nat j ]
  | Rodeo.FromIter (t, l) -> sp [ "FromIter"; cq_bool t; cq_strs l ]
  | Rodeo.Extend (i, l) -> sp [ "Extend"; cq_nat i; cq_strs l ]
  | Rodeo.NewRodeo (c, m) -> sp [ "NewRodeo"; cq_n c; cq_n m ]
  | Rodeo.NewThreaded (c, m) -> sp [ "NewThreaded"; cq_n c; cq_n m ]
let cq_item (it : Rodeo.item) =
  match it with
  | Rodeo.ItSome (i, s) -> "ItSome " ^ cq_n i ^ " " ^ cq_str s
  | Rodeo.ItNone -> "ItNone"
  | Rodeo.ItLen n -> "ItLen " ^ cq_n n
  | Rodeo.ItPanic -> "ItPanic"
let cq_out (o : Rodeo.out) =
  match o with
  | Rodeo.OKey k -> "OKey " ^ cq_n k
  | Rodeo.OErr e -> "OErr " ^ cq_err e
  | Rodeo.OPanic -> "OPanic"
  | Rodeo.ONone -> "ONone"
  | Rodeo.OStr s -> "OStr " ^ cq_str s
  | Rodeo.OBool b -> "OBool " ^ cq_bool b
  | Rodeo.ONum n -> "ONum " ^ cq_n n
  | Rodeo.OUnit -> "OUnit"
  | Rodeo.OItems l -> "OItems " ^ cq_list ~sep:cq_sep cq_item l
  | Rodeo.ODoc d -> "ODoc " ^ cq_doc d
  | Rodeo.ONew n -> "ONew " ^ cq_n n
  | Rodeo.ODeErr -> "ODeErr"
  | Rodeo.OUnsupported -> "OUnsupported"
  | Rodeo.OFault -> "OFault"

let cq_header oc =
  Printf.fprintf oc "(* generated by runner --emit-coq (variant %c): Coq re-evaluates the model calls of the runner *)\n" !variant;
  output_string oc "From Lasso Require Import Base Arena Rodeo.\nOpen Scope N_scope.\n";
  if !variant = 'A' then
    output_string oc
      "Definition h (_ : str) : N := 0.\nDefinition cand (_ _ : N) : bool := true.\nDefinition growf (_ : N) : bool := true.\n"
  else
    output_string oc
      "Definition h (s : str) : N := N.of_nat (length s).\nDefinition cand : N -> N -> bool := N.eqb.\nDefinition growf (_ : N) : bool := false.\n";
  output_string oc "(* ---- cases ---- *)\n"

(* the logged case as an Example; false (nothing written) if it exceeds the size caps *)
let cq_case oc (idx : int) : bool =
  let log = L.rev !case_log in
  let safe = String.map (fun c -> match c with 'a' .. 'z' | 'A' .. 'Z' | '0' .. '9' | '_' | '-' | '.' -> c | _ -> '?') !case_id in
  if L.length log > 400 || not (cq_ok_n !case_keycap)
     || not (L.for_all (fun (o, x) -> cq_ok_op o && cq_ok_out x) log)
  then (Printf.fprintf oc "(* skipped case %s (#%d), %d model calls: over the size caps *)\n" safe idx (L.length log); false)
  else begin
    let blk f l = if l = [] then "[]" else "[\n  " ^ String.concat ";\n  " (L.map f l) ^ "\n  ]" in
    Printf.fprintf oc "(* case %s, %d model calls *)\n" safe (L.length log);
    Printf.fprintf oc "Example case_%d : snd (run h cand growf %s [] %s) =\n  %s.\n" idx (cq_n !case_keycap)
      (blk (fun (o, _) -> cq_op o) log) (blk (fun (_, x) -> cq_out x) log);
    output_string oc "Proof. vm_compute. reflexivity. Qed.\n";
    true
  end

let mutating = [ "NR"; "NT"; "I"; "IS"; "IA"; "IP"; "ISP"; "CLR"; "LIM"; "CL"; "CF"; "DROP"; "RD"; "RS"; "DE"; "FI"; "EX" ]

let starts_with p s = String.length s >= String.length p && String.sub s 0 (String.length p) = p

let run_case oc (line : string) =
  let parts =
    L.map String.trim
      (Str.split (Str.regexp_string " ; ") line)
  in
  match parts with
  | [] -> ()
  | head :: ops ->
      let toks = L.filter (fun t -> t <> "") (split_on ' ' head) in
      let id = L.nth toks 1 in
      let cfg k =
        let pre = k ^ "=" in
        let t = L.find (starts_with pre) toks in
        String.sub t (String.length pre) (String.length t - String.length pre)
      in
      let keycap = keycap_of (cfg "K") in
      let pool = parse_pool (cfg "P") in
      case_log := []; case_keycap := keycap; case_id := id;
      let step w o = Rodeo.step hashf candf growf keycap w o in
      let world = ref ([] : Rodeo.world) in
      let unordered = Hashtbl.create 8 in
      let is_unordered i = Hashtbl.mem unordered i in
      let digests opno =
        L.iteri (fun i o -> digest oc id opno i (is_unordered i) o) !world
      in
      let do_step o =
        let w', out = step !world o in
        world := w';
        case_log := (o, out) :: !case_log;
        out
      in
      L.iteri
        (fun opno optext ->
          let a = Array.of_list (L.filter (fun t -> t <> "") (split_on ' ' optext)) in
          let slot i = nat_of_int (int_of_string a.(i)) in
          let sloti i = int_of_string a.(i) in
          let kind_of i = if i < L.length !world then L.nth !world i else Rodeo.ODead in
          let is_threaded i = match kind_of i with Rodeo.OThreaded _ -> true | _ -> false in
          let pool_ok i = i >= 0 && i < Array.length pool in
          let text =
            try
            match a.(0) with
            | "NR" | "NT" ->
                ignore (n_of_string a.(3)); ignore (n_of_string a.(4));
                let cap = n_of_string a.(1) in
                if BinNat.N.eqb cap N0 then "X"
                else
                  (* a constructor panics only on a failed allocation of the first bucket: FORMAT.md prints that as P:alloc *)
                  let ctor_s o = match o with Rodeo.OPanic -> "P:alloc" | _ -> out_s o in
                  if a.(0) = "NR" then ctor_s (do_step (Rodeo.NewRodeo (cap, lim_of_string a.(2))))
                  else ctor_s (do_step (Rodeo.NewThreaded (cap, lim_of_string a.(2))))
            | "I" -> out_s (do_step (Rodeo.Intern (slot 1, bytes_of_hex a.(2))))
            | "IP" -> out_s (do_step (Rodeo.InternP (slot 1, bytes_of_hex a.(2))))
            | "IS" ->
                let s = sloti 2 in
                if pool_ok s then out_s (do_step (Rodeo.InternStatic (slot 1, n_of_int s, pool.(s)))) else "X"
            | "ISP" ->
                let s = sloti 2 in
                if pool_ok s then out_s (do_step (Rodeo.InternStaticP (slot 1, n_of_int s, pool.(s)))) else "X"
            | "IA" ->
                let s = sloti 2 in
                if pool_ok s then out_s (do_step (Rodeo.Intern (slot 1, pool.(s)))) else "X"
            | "G" -> out_s (do_step (Rodeo.Get (slot 1, bytes_of_hex a.(2))))
            | "C" -> out_s (do_step (Rodeo.Contains (slot 1, bytes_of_hex a.(2))))
            | "GS" ->
                let s = sloti 2 in
                if pool_ok s then out_s (do_step (Rodeo.Get (slot 1, pool.(s)))) else "X"
            | "CS" ->
                let s = sloti 2 in
                if pool_ok s then out_s (do_step (Rodeo.Contains (slot 1, pool.(s)))) else "X"
            | "GK" -> (
                match kind_of (sloti 1) with
                | Rodeo.OResolver _ | Rodeo.ODead -> "X"
                | _ -> (
                    match (try Some (n_of_string a.(2)) with _ -> None), int_of_string_opt a.(3) with
                    | Some k, Some n -> (
                        match do_step (Rodeo.TryResolve (slot 1, k)) with
                        | Rodeo.OStr s ->
                            let len = L.length s in
                            let cont b = int_of_n b land 0xC0 = 0x80 in
                            if n > len || n < 0 || (n < len && cont (L.nth s n)) then "X"
                            else out_s (do_step (Rodeo.Get (slot 1, take n s)))
                        | _ -> "X")
                    | _ -> "X"))
            (* an index the key type cannot represent (try_from_usize = None) cannot be turned into
               a key at all: fixed answers, the crate is not called (FORMAT.md) *)
            | "R" | "RU" | "IX" ->
                let k = key_arg a.(2) in
                if kind_of (sloti 1) = Rodeo.ODead then "X"
                else if not (BinNat.N.ltb k keycap) then "P" else out_s (do_step (Rodeo.Resolve (slot 1, k)))
            | "TR" ->
                let k = key_arg a.(2) in
                if kind_of (sloti 1) = Rodeo.ODead then "X"
                else if not (BinNat.N.ltb k keycap) then "N" else out_s (do_step (Rodeo.TryResolve (slot 1, k)))
            | "CK" ->
                let k = key_arg a.(2) in
                if kind_of (sloti 1) = Rodeo.ODead then "X"
                else if not (BinNat.N.ltb k keycap) then "F" else out_s (do_step (Rodeo.ContainsKey (slot 1, k)))
            | "LEN" -> out_s (do_step (Rodeo.Len (slot 1)))
            | "EMP" -> out_s (do_step (Rodeo.IsEmpty (slot 1)))
            | "IT" -> out_s ~keyed:true (do_step (Rodeo.IterOp (slot 1, parse_plan a.(2))))
            | "ST" ->
                out_s ~keyed:false ~sort_hex:(is_threaded (sloti 1))
                  (do_step (Rodeo.StringsOp (slot 1, parse_plan a.(2))))
            | "CLR" -> out_s (do_step (Rodeo.Clear (slot 1)))
            | "LIM" -> out_s (do_step (Rodeo.SetLimit (slot 1, lim_of_string a.(2))))
            | "CUR" -> out_s (do_step (Rodeo.CurMem (slot 1)))
            | "MAX" -> out_s (do_step (Rodeo.MaxMem (slot 1)))
            | "CL" -> out_s (do_step (Rodeo.Clone (slot 1)))
            | "CF" -> out_s (do_step (Rodeo.CloneFrom (slot 1, slot 2)))
            | "DROP" -> out_s (do_step (Rodeo.Drop (slot 1)))
            | "RD" -> out_s (do_step (Rodeo.IntoReader (slot 1)))
            | "RS" -> out_s (do_step (Rodeo.IntoResolver (slot 1)))
            | "SER" -> out_s (do_step (Rodeo.Ser (slot 1)))
            | "DE" -> (
                let kind =
                  match a.(1) with
                  | "rodeo" -> Some Rodeo.KRodeo
                  | "threaded" -> Some Rodeo.KThreaded
                  | "reader" -> Some Rodeo.KReader
                  | "resolver" -> Some Rodeo.KResolver
                  | _ -> None
                in
                let d = if Array.length a > 2 then a.(2) else "" in
                match kind with
                | None -> "X"
                | Some kind ->
                if not (starts_with "L:" d || starts_with "M:" d) then "X" else
                let body = String.sub d 2 (String.length d - 2) in
                if starts_with "L:" d then begin
                  let l = if body = "" then [] else L.map bytes_of_hex (split_on ',' body) in
                  out_s (do_step (Rodeo.De (kind, Rodeo.DList l)))
                end
                else begin
                  (* the parser's contract: repeated strings last-wins; the key's own
                     Deserialize rejects raw values outside [1, keycap] (Keys.v serde_wire) *)
                  let pairs =
                    if body = "" then []
                    else
                      L.map
                        (fun p ->
                          match split_on '=' p with
                          | [ h; raw ] -> (bytes_of_hex h, (try Some (n_of_string raw) with _ -> None))
                          | _ -> failwith "bad pair")
                        (split_on ',' body)
                  in
                  let bad_raw =
                    L.exists
                      (fun (_, raw) -> match raw with None -> true | Some raw -> BinNat.N.eqb raw N0 || BinNat.N.ltb keycap raw)
                      pairs
                  in
                  if kind <> Rodeo.KThreaded then out_s (do_step (Rodeo.De (kind, Rodeo.DMap [])))
                  else if bad_raw then "DE:err"
                  else begin
                    let pairs = L.map (fun (s, raw) -> match raw with Some r -> (s, r) | None -> (s, N0)) pairs in
                    let rec dedupe l =
                      match l with
                      | [] -> []
                      | (s, k) :: t -> if L.exists (fun (s', _) -> s' = s) t then dedupe t else (s, k) :: dedupe t
                    in
                    let pairs = L.map (fun (s, raw) -> (s, BinNat.N.sub raw (n_of_int 1))) (dedupe pairs) in
                    let out = do_step (Rodeo.De (kind, Rodeo.DMap pairs)) in
                    (match out with
                    | Rodeo.ONew n -> Hashtbl.replace unordered (int_of_n n) ()
                    | _ -> ());
                    out_s out
                  end
                end)
            | "CT" ->
                if not (L.mem a.(1) [ "r"; "t" ]) then "X"
                else begin
                  let c =
                    match a.(2) with
                    | "new" -> Some Ctors.CNew | "default" -> Some Ctors.CDefault
                    | "with_capacity" -> Some Ctors.CWithCapacity | "with_limits" -> Some Ctors.CWithLimits
                    | "with_capacity_and_limits" -> Some Ctors.CWithCapacityAndLimits
                    | "with_hasher" -> Some Ctors.CWithHasher | "with_capacity_and_hasher" -> Some Ctors.CWithCapacityAndHasher
                    | "full" -> Some Ctors.CFull | "cap_for_strings" -> Some Ctors.CCapForStrings
                    | "cap_for_bytes" -> Some Ctors.CCapForBytes | "cap_minimal" -> Some Ctors.CCapMinimal
                    | "lim_for_memory_usage" -> Some Ctors.CLimForMemoryUsage
                    | _ -> None
                  in
                  let cap = n_of_string a.(3) in
                  let lim = lim_of_string a.(4) in
                  match c with
                  | None -> "X"
                  | Some c ->
                      if BinNat.N.eqb cap N0 then "X"
                      else
                        let b, l = Ctors.ctor_args c cap lim in
                        Printf.sprintf "CT:%s,%s,%s,%s:0" (string_of_n b) (string_of_lim l) (string_of_n b) (string_of_n b)
                end
            | "PQ" ->
                (* concurrent queries of an immutable object: in the model every lookup is a pure function of the
                   (unchanged) object, so all threads agree by construction; the op exists to check that on the code *)
                let n = int_of_string a.(2) in
                if n < 1 || n > 64 then "X"
                else (match kind_of (sloti 1) with
                      | Rodeo.OReader _ | Rodeo.OResolver _ | Rodeo.OThreaded _ -> "T"
                      | _ -> "X")
            (* PEQ: the same comparison evaluated concurrently in both directions by the driver; one model step, same answer *)
            | "EQ" | "PEQ" -> out_s (do_step (Rodeo.EqOp (slot 1, slot 2)))
            | "FI" ->
                if not (L.mem a.(1) [ "r"; "t" ] && L.mem a.(2) [ "exact"; "none"; "low"; "high" ]) then "X"
                else out_s (do_step (Rodeo.FromIter (a.(1) = "t", hexlist a.(3))))
            | "EX" ->
                if Array.length a > 3 && not (L.mem a.(3) [ "exact"; "none"; "low"; "high" ]) then "X"
                else out_s (do_step (Rodeo.Extend (slot 1, hexlist a.(2))))
            | _ -> "X"
            with Failure _ | Invalid_argument _ | Not_found -> "X"
          in
          Printf.fprintf oc "%s %d %s\n" id opno text;
          if L.mem a.(0) mutating then digests (string_of_int opno))
        ops;
      digests "end";
      Printf.fprintf oc "END %s\n" id

let print_keys () =
  L.iter
    (fun (name, kt) ->
      L.iter
        (fun ((lo, hi), b) ->
          (* hi is exclusive and may be 2^64: print hi-1 inclusive *)
          Printf.printf "SUMMARY %s %s %s %s\n" name (string_of_n lo)
            (string_of_n (BinNat.N.sub hi (n_of_int 1)))
            (if b then "some" else "none"))
        (Keys.summary kt))
    [ ("micro", Keys.micro_spur); ("mini", Keys.mini_spur); ("spur", Keys.spur); ("large", Keys.large_spur) ]

let () =
  if Array.length Sys.argv > 1 && Sys.argv.(1) = "--keys" then (print_keys (); exit 0);
  let cases = Sys.argv.(1) and results = Sys.argv.(2) in
  if Array.length Sys.argv > 3 then variant := Sys.argv.(3).[0];
  (* runner <cases> <results> <variant> --emit-coq <file.v> <N> *)
  let emit =
    if Array.length Sys.argv > 4 && Sys.argv.(4) = "--emit-coq" then begin
      match (if Array.length Sys.argv = 7 then int_of_string_opt Sys.argv.(6) else None) with
      | Some n -> Some (open_out Sys.argv.(5), n)
      | None -> prerr_endline "usage: runner <cases> <results> <variant> --emit-coq <file.v> <N>"; exit 2
    end
    else None
  in
  (match emit with Some (vc, _) -> cq_header vc | None -> ());
  let seen = ref 0 and emitted = ref 0 and skipped = ref 0 in
  let ic = open_in cases and oc = open_out results in
  (try
     while true do
       let line = input_line ic in
       let line = String.trim line in
       if line <> "" && line.[0] <> '#' then begin
         run_case oc line;
         match emit with
         | Some (vc, n) when !seen < n ->
             if cq_case vc !seen then incr emitted else incr skipped;
             incr seen
         | _ -> ()
       end
     done
   with End_of_file -> ());
  close_in ic;
  close_out oc;
  match emit with
  | Some (vc, _) ->
      Printf.fprintf vc "(* crosscheck: emitted=%d skipped=%d *)\n" !emitted !skipped;
      close_out vc
  | None -> ()
