(* smap.ml — maps the events of one concdriver case to Sync.labels and feeds them to the extracted machine.
   Three ways out: Reject (the trace does not fit the mapping's bookkeeping),
   Step_none (the extracted Sync.step returned None: the skeleton does not allow the label), Raced. *)
(* THE MAPPING (t = thread, latest = index of the last message of the location at that moment; counters: Misc 0 =
   memory_usage, 1 = max_memory_usage, 2 = bucket_capacity, 3 = key counter; Lk s = shard s of the string->key map,
   Lk (1000+k) = the lock over entry k of the key->string map).  OBS events are mapped where they stand; the operation
   of a PRE-only event runs when the worker is released = right before that worker's next line (as in creplay.ml).
     OBS_BUCKET_ALLOC a        LAlloc t                      (a := nb; stored range := (b,0))
     OBS_HEAD_LOAD a           LPushLoad t i                 (i: the Head message whose value is S(bucket a))
     PRE_HEAD_CAS e n          LPushWrite t  iff next_first  (INFERRED: no hook on the write of next); e, n checked against pst
     OBS_HEAD_CAS ok f         LPushCas t ok i               (failure: i from f)
     OBS_ITER_LOAD a           LWalkStart t i | LWalkNext t; check cur = bucket a; if a <> 0 then LVisit t (INFERRED:
                               try_inc_length reads capacity before PRE_LEN_LOAD)
     OBS_LEN_LOAD a v          LLenLoad t i                  (i: index of v in the replayer's list of real len values)
     OBS_LEN_CAS 1 v           LLenCas t true 0              (v = expected = latest real value; list += new length)
     OBS_LEN_CAS 0 v           LLenCas t false i
     OBS_STORED a off          LCopy t                       (tw's bucket = a, off = the offset the CAS reserved)
     OBS_BUCKET_CAP_LOAD / PRE_BUCKET_CAP_STORE / OBS_USAGE_LOAD _ 0 / OBS_LIMIT_LOAD / PRE_LIMIT_STORE / PRE_KEY_FETCH_ADD
                               LMisc t m MLoad|MStore|MRmw (ord <site>) latest 0
     allocate_memory           OBS_USAGE_LOAD _ 1 = LMisc t 0 MLoad (ord AllocUpdFail); PRE_LIMIT_LOAD 1 = LMisc t 1 MLoad
                               (ord LimitLoad); the CAS of fetch_update has NO hook: INFERRED from the thread's next line
                               (OBS_USAGE_LOAD _ 1: failed; RET E:mem: refused; else LMisc t 0 MRmw (ord AllocUpdOk))
     PRE_MAP_GET s / PRE_SHARD_WRITE s / PRE_MAP_ENTRY s      LConsume t s latest (lock acquisition)
     OBS_MAP_GET 1 k, or RET K<k> of a `get` / of a call that took the write lock and saw no vacant slot
                               LReadData t (range of k)      (nothing for static / empty strings)
     PRE_STRINGS_INSERT k      LConsume t (1000+k) latest; LPublish t (1000+k) [stored range]
     PRE_MAP_INSERT k          k joins the table of the held shard
     PRE_STRINGS_GET k         LConsume t (1000+k) latest; RET S:.. => LReadData t (range of k)
     RET #n (U call, no hook)  LMisc t 0 MLoad (ord CurUsageLoad) latest
     RET with a shard held     LPublish t s (ranges of ALL keys in the shard's table)
     FINAL                     counters, block list (head first) against the skeleton's list, used bytes
   Any other site: Reject. *)
module L = Stdlib.List
open Datatypes
open Sync
open Snat

exception Reject of string
exception Step_none of label * string
exception Raced of label

let reject fmt = Printf.ksprintf (fun s -> raise (Reject s)) fmt

(* counters *)
let m_usage = 0
let m_limit = 1
let m_bcap = 2
let m_key = 3
let strings_lock_base = 1000

(* --locks=brief: the lock mapping exactly as worded in BRIEF_SREPLAY.md (LConsume only when a string is found, of the
   message of the unlock that published it; LPublish only of the ranges not yet published).  Default: every lock
   acquisition is an LConsume of the LATEST unlock message, every write unlock an LPublish of all ranges reachable
   through the shard's table (see REPORT.md). *)
let brief_locks = ref false

type th = {
  mutable pending : (int * (unit -> unit)) option;  (* operation of a PRE event, run when the thread is released *)
  mutable walking : bool;                           (* inside a bucket-list walk *)
  mutable seen_len : int option;
  mutable lencas : (int * int) option;              (* operands of the last PRE_LEN_CAS *)
  mutable reserved : (int * int) option;            (* bucket, offset reserved by the last successful len CAS *)
  mutable stored : range option;                    (* the range this call has written (LCopy / LAlloc) *)
  mutable held : int option;                        (* shard of the string->key map whose write lock is held *)
  mutable lockfind : bool;                          (* lock taken, outcome of the lookup not yet seen *)
  mutable probe : (int * bool) option;              (* map.get in flight: shard, is it the `get` call *)
  mutable resolving : int option;                   (* strings.get in flight: key *)
  mutable alloc_req : int;
  mutable alloc_cas : bool;                         (* fetch_update: outcome of the CAS to be inferred *)
  mutable drawn : int option;                       (* value returned by key.fetch_add *)
  mutable inserted : int option;                    (* key inserted into the string->key map by this call *)
}

type cx = {
  m : Snorm.m;
  addr2b : (string, int) Hashtbl.t;
  lens : (int, int option list ref) Hashtbl.t;      (* real values of len, parallel to hist (Len b) *)
  first_len : (string, int) Hashtbl.t;              (* from FINAL: length of the string at offset 0 of a block *)
  ths : (int, th) Hashtbl.t;
  keyrange : (int, range option) Hashtbl.t;         (* key -> data range (None: static or empty string) *)
  shardtab : (int, int list ref) Hashtbl.t;         (* shard -> keys inserted in the string->key map *)
  pubidx : (int * int, int) Hashtbl.t;              (* brief locks: (lock, key) -> index of the publishing unlock *)
  mutable usage : int option;
  mutable limit : string option;
  mutable bcap : int option;
  mutable keyctr : int;
  mutable nlabels : int;
  mutable line : int;                               (* trace line the current label is attributed to *)
  mutable inferred : int;                           (* labels without an event of their own *)
}

let th cx t =
  match Hashtbl.find_opt cx.ths t with
  | Some x -> x
  | None ->
      let x = { pending = None; walking = false; seen_len = None; lencas = None; reserved = None; stored = None; held = None;
                lockfind = false; probe = None; resolving = None; alloc_req = 0; alloc_cas = false; drawn = None; inserted = None } in
      Hashtbl.replace cx.ths t x; x

let st cx = cx.m.Snorm.st
let tstate cx t = (st cx).thr (nat_of_int t)
let hist_len cx l = L.length ((st cx).hist l)

(* why did step return None?  (diagnosis only: re-reads the conditions of Sync.step) *)
let explain cx (lb : label) : string =
  let s = st cx in
  let ts t = s.thr t in
  let load t l i =
    let h = s.hist l in
    if int_of_nat i >= L.length h then Printf.sprintf "%s has no message %d (history length %d)" (pp_aloc l) (int_of_nat i) (L.length h)
    else Printf.sprintf "coherence: thread %d has already observed message %d of %s, cannot read message %d" (int_of_nat t)
        (int_of_nat ((ts t).tv.co l)) (pp_aloc l) (int_of_nat i)
  in
  let nocur t = Printf.sprintf "thread %d is not at a bucket (cur=None)" (int_of_nat t) in
  match lb with
  | LAlloc t -> Printf.sprintf "thread %d is still inside a push_front (pst=%s)" (int_of_nat t) (pp_pst (ts t).pst)
  | LPushLoad (t, i) -> (
      match (ts t).pst with PLoad _ -> load t Head i | p -> Printf.sprintf "no freshly allocated bucket in hand (pst=%s)" (pp_pst p))
  | LPushWrite t -> Printf.sprintf "no head value loaded to write into next (pst=%s)" (pp_pst (ts t).pst)
  | LPushCas (t, ok, i) -> (
      match (ts t).pst with
      | PLoop (_, e, w) ->
          if not ok then load t Head i
          else if (not w) && cx.m.Snorm.cfg.next_first then "next was not written since the last load of head"
          else (
            match L.rev (s.hist Head) with
            | m :: _ when m.mval <> e -> Printf.sprintf "the CAS succeeded but the latest head value %d is not the expected %d" (int_of_nat m.mval) (int_of_nat e)
            | _ -> "?")
      | p -> Printf.sprintf "head CAS without a loaded expected value (pst=%s)" (pp_pst p))
  | LWalkStart (t, i) -> load t Head i
  | LVisit t | LWalkNext t -> nocur t
  | LLenLoad (t, i) -> ( match (ts t).cur with None -> nocur t | Some b -> load t (Len b) i)
  | LLenCas (t, ok, i) -> (
      match (ts t).cur with
      | None -> nocur t
      | Some b ->
          if ok then (match (ts t).tw with Some r -> Printf.sprintf "thread %d already holds the reservation %s" (int_of_nat t) (pp_range r)
                                       | None -> Printf.sprintf "%s has no message" (pp_aloc (Len b)))
          else load t (Len b) i)
  | LCopy t -> Printf.sprintf "thread %d has no reserved range (no successful len CAS before the copy)" (int_of_nat t)
  | LPublish (t, _, rs) ->
      let hv = (ts t).have in
      Printf.sprintf "thread %d publishes ranges it holds no reference to: %s" (int_of_nat t)
        (String.concat ";" (L.map pp_range (L.filter (fun r -> not (L.mem r hv)) rs)))
  | LConsume (t, l, i) -> load t (Lk l) i
  | LReadData (t, r) -> Printf.sprintf "thread %d holds no reference to range %s (it was never handed over to it)" (int_of_nat t) (pp_range r)
  | LMisc (t, mm, _, _, i, _) -> load t (Misc mm) i

let label_log : (int -> label -> unit) ref = ref (fun _ _ -> ())

let emit cx (lb : label) : unit =
  let was = (st cx).raced in
  !label_log cx.line lb;
  if not (Snorm.step cx.m lb) then raise (Step_none (lb, explain cx lb));
  cx.nlabels <- cx.nlabels + 1;
  if (st cx).raced && not was then raise (Raced lb)

let emit_inferred cx lb = cx.inferred <- cx.inferred + 1; emit cx lb
let ordof cx (s : site) = cx.m.Snorm.cfg.ord s

(* ---------- bookkeeping helpers ---------- *)
let bucket cx (addr : string) : int =
  match Hashtbl.find_opt cx.addr2b addr with Some b -> b | None -> reject "unknown bucket address %s" addr

let bucket_opt cx addr = if addr = "0" then None else Some (bucket cx addr)
let cur_of cx t = match (tstate cx t).cur with Some b -> Some (int_of_nat b) | None -> None
let pp_cur c = match c with Some b -> string_of_int b | None -> "none"

(* index of the head message whose value is the bucket at addr *)
let head_index cx (addr : string) : nat =
  let v = match bucket_opt cx addr with Some b -> b + 1 | None -> 0 in
  let rec go i h = match h with [] -> None | m :: r -> if int_of_nat m.mval = v then Some i else go (i + 1) r in
  match go 0 ((st cx).hist Head) with
  | Some i -> nat_of_int i
  | None -> reject "the head value read (address %s) was never written to the list head" addr

let lens_of cx b =
  match Hashtbl.find_opt cx.lens b with Some r -> r | None -> let r = ref [] in Hashtbl.replace cx.lens b r; r

(* index of the len message of bucket b whose real value is v; the value of the initial message of an allocated
   bucket (set non-atomically by set_len) is learnt from FINAL or from its first observation *)
let len_index cx b (v : int) : nat =
  let r = lens_of cx b in
  let rec go i l = match l with [] -> None | Some x :: _ when x = v -> Some i | _ :: t -> go (i + 1) t in
  match go 0 !r with
  | Some i -> nat_of_int i
  | None -> (
      match !r with
      | None :: rest when L.for_all (fun o -> match o with Some x -> x > v | None -> false) rest ->
          r := Some v :: rest; O
      | _ -> reject "length %d was never a value of len of bucket %d" v b)

let latest_len cx b = match L.rev !(lens_of cx b) with x :: _ -> x | [] -> None
let latest cx l = nat_of_int (hist_len cx l - 1)
let lock_acquire cx t l =
  if not !brief_locks then emit cx (LConsume (nat_of_int t, nat_of_int l, latest cx (Lk (nat_of_int l))))

let range_of_key cx key : range option =
  match Hashtbl.find_opt cx.keyrange key with
  | Some r -> r
  | None -> reject "key %d was found but never inserted into the key->string map" key

(* the thread compares / returns the bytes of the string with that key *)
let read_key cx t ~lock key =
  let r = range_of_key cx key in
  if !brief_locks then begin
    match Hashtbl.find_opt cx.pubidx (lock, key) with
    | Some i -> emit cx (LConsume (nat_of_int t, nat_of_int lock, nat_of_int i))
    | None -> reject "key %d found through lock %d before the unlock that publishes it" key lock
  end;
  match r with Some r -> emit cx (LReadData (nat_of_int t, r)) | None -> ()

let shard_keys cx l = match Hashtbl.find_opt cx.shardtab l with Some r -> r | None -> let r = ref [] in Hashtbl.replace cx.shardtab l r; r

(* everything reachable through the shard's table when its lock is released *)
let shard_ranges cx l : range list =
  L.sort_uniq compare (L.filter_map (fun k -> match Hashtbl.find_opt cx.keyrange k with Some (Some r) -> Some r | _ -> None) !(shard_keys cx l))

let misc cx t mm kind site =
  let l = Misc (nat_of_int mm) in
  emit cx (LMisc (nat_of_int t, nat_of_int mm, kind, ordof cx site, (match kind with MLoad -> latest cx l | _ -> O), O))

let check_latest what t (seen : int) (tracked : int option) =
  match tracked with
  | Some x when x <> seen -> reject "thread %d read %s = %d but the latest write is %d (reads are mapped to the latest message)" t what seen x
  | _ -> ()

(* run the operation of the PRE event the thread was parked at; then settle the inferred outcome of fetch_update *)
let flush cx t =
  let h = th cx t in
  match h.pending with
  | Some (ln, f) -> h.pending <- None; let save = cx.line in cx.line <- ln; f (); cx.line <- save
  | None -> ()

type next = NEv of int * string * string | NRet of string | NOther

let before cx t (nx : next) =
  flush cx t;
  let h = th cx t in
  if h.alloc_cas then begin
    h.alloc_cas <- false;
    match nx with
    | NEv (29, _, "1") | NEv (33, _, _) -> ()          (* the CAS failed: the closure runs again / explicit hook *)
    | NRet "E:mem" -> ()                               (* the closure refused: no CAS *)
    | _ ->
        cx.inferred <- cx.inferred + 1;
        misc cx t m_usage MRmw AllocUpdOk;
        cx.usage <- (match cx.usage with Some u -> Some (u + h.alloc_req) | None -> None)
  end

let defer cx t f = (th cx t).pending <- Some (cx.line, f)

let strings_insert cx t key =
  let h = th cx t in
  (match h.drawn with Some k when k <> key -> reject "thread %d inserts key %d but drew %d from the counter" t key k | _ -> ());
  Hashtbl.replace cx.keyrange key h.stored;
  let l = strings_lock_base + key in
  lock_acquire cx t l;
  Hashtbl.replace cx.pubidx (l, key) (hist_len cx (Lk (nat_of_int l)));
  emit cx (LPublish (nat_of_int t, nat_of_int l, (match h.stored with Some r -> [ r ] | None -> [])))

let unlock_shard cx t =
  let h = th cx t in
  match h.held with
  | Some l ->
      h.held <- None; h.lockfind <- false; cx.inferred <- cx.inferred + 1;
      if not !brief_locks then emit cx (LPublish (nat_of_int t, nat_of_int l, shard_ranges cx l))
      else (match h.inserted with
          | Some key ->
              Hashtbl.replace cx.pubidx (l, key) (hist_len cx (Lk (nat_of_int l)));
              emit cx (LPublish (nat_of_int t, nat_of_int l, (match Hashtbl.find_opt cx.keyrange key with Some (Some r) -> [ r ] | _ -> [])))
          | None -> ())
  | None -> ()

(* ---------- the events ---------- *)
let ev cx t (site : int) (x : string) (y : string) : unit =
  let h = th cx t in
  let nt = nat_of_int t in
  let xi () = int_of_string x and yi () = int_of_string y in
  before cx t (NEv (site, x, y));
  match site with
  (* string->key map: the shard lock is an acquire of the latest unlock message of the shard *)
  | 1 -> let l = xi () in defer cx t (fun () -> lock_acquire cx t l; h.probe <- Some (l, y = "1"))
  | 2 -> let l = (match h.probe with None -> reject "OBS_MAP_GET without PRE_MAP_GET" | Some (l, _) -> l) in
         h.probe <- None; if x = "1" then read_key cx t ~lock:l (yi ())
  | 3 | 9 -> let l = xi () in defer cx t (fun () -> lock_acquire cx t l; h.held <- Some l; h.lockfind <- true)
  | 4 | 10 -> let l = (match h.held with None -> reject "lookup under a lock that is not held" | Some l -> l) in
              h.lockfind <- false; h.walking <- false; if x = "1" then read_key cx t ~lock:l (yi ())
  | 5 -> defer cx t (fun () -> misc cx t m_key MRmw KeyFetchAdd; h.drawn <- Some cx.keyctr; cx.keyctr <- cx.keyctr + 1)
  | 6 -> (match h.drawn with Some k when k <> xi () -> reject "fetch_add returned %s, the counter was %d" x k | _ -> ())
  | 7 -> let key = xi () in defer cx t (fun () -> strings_insert cx t key)
  | 8 -> let key = xi () in
         defer cx t (fun () -> match h.held with
           | Some l -> let r = shard_keys cx l in r := key :: !r; h.inserted <- Some key
           | None -> reject "thread %d inserts into the string->key map without holding a shard" t)
  | 11 -> let key = xi () in
          defer cx t (fun () -> lock_acquire cx t (strings_lock_base + key); h.resolving <- Some key)
  | 12 -> (match h.resolving with Some key -> h.resolving <- None; if x = "1" then read_key cx t ~lock:(strings_lock_base + key) key
                                 | None -> reject "OBS_STRINGS_GET without PRE_STRINGS_GET")
  (* bucket-list walk *)
  | 20 -> ()
  | 21 ->
      if not h.walking then (h.walking <- true; emit cx (LWalkStart (nt, head_index cx x)))
      else emit cx (LWalkNext nt);
      let want = bucket_opt cx x and got = cur_of cx t in
      if want <> got then reject "the iterator of thread %d is at bucket %s in the trace, at %s in the skeleton" t (pp_cur want) (pp_cur got);
      if want = None then h.walking <- false
      else emit_inferred cx (LVisit nt)                  (* try_inc_length reads the capacity before PRE_LEN_LOAD *)
  | 22 -> if cur_of cx t <> Some (bucket cx x) then reject "thread %d loads len of bucket %d, the skeleton is at %s" t (bucket cx x) (pp_cur (cur_of cx t))
  | 23 ->
      let b = bucket cx x in
      if cur_of cx t <> Some b then reject "thread %d loaded len of bucket %d, the skeleton is at %s" t b (pp_cur (cur_of cx t));
      emit cx (LLenLoad (nt, len_index cx b (yi ()))); h.seen_len <- Some (yi ())
  | 24 ->
      (match h.seen_len with Some v when v <> xi () -> reject "len CAS expects %s, the thread last saw %d" x v | _ -> ());
      h.lencas <- Some (xi (), yi ())
  | 25 -> (
      let b = match cur_of cx t with Some b -> b | None -> reject "len CAS of thread %d outside a walk" t in
      match h.lencas with
      | None -> reject "OBS_LEN_CAS without PRE_LEN_CAS"
      | Some (e, n) ->
          h.lencas <- None;
          if x = "1" then begin
            if yi () <> e then reject "the len CAS succeeded on %s but expected %d" y e;
            (match latest_len cx b with Some v when v <> e -> reject "the len CAS succeeded on %d but the latest value is %d" e v | _ -> ());
            ignore (len_index cx b e);
            emit cx (LLenCas (nt, true, O));
            let r = lens_of cx b in r := !r @ [ Some n ];
            h.reserved <- Some (b, e)
          end else begin
            emit cx (LLenCas (nt, false, len_index cx b (yi ()))); h.seen_len <- Some (yi ())
          end)
  | 40 -> (
      match (tstate cx t).tw with
      | None -> emit cx (LCopy nt)              (* no reservation: let the skeleton say so *)
      | Some (rb, rk) ->
          let b = bucket cx x in
          if int_of_nat rb <> b then reject "the string was copied into bucket %d, the reservation is in bucket %d" b (int_of_nat rb);
          if h.reserved <> Some (b, yi ()) then reject "the string was copied to offset %s of bucket %d, not the offset reserved by the CAS" y b;
          emit cx (LCopy nt); h.reserved <- None; h.stored <- Some (rb, rk); h.walking <- false)
  (* counters *)
  | 26 | 30 when site = 26 || x = "0" -> ()
  | 27 -> check_latest "bucket_capacity" t (xi ()) cx.bcap; misc cx t m_bcap MLoad CapLoad
  | 28 -> if x = "1" then h.alloc_req <- yi ()
  | 29 -> check_latest "memory_usage" t (xi ()) cx.usage; misc cx t m_usage MLoad (if y = "1" then AllocUpdFail else CurUsageLoad)
  | 30 -> defer cx t (fun () -> misc cx t m_limit MLoad LimitLoad; h.alloc_cas <- true)
  | 31 -> (match cx.limit with Some l when l <> x -> reject "thread %d read limit %s, the latest write is %s" t x l | _ -> cx.limit <- Some x);
          misc cx t m_limit MLoad GetMaxLoad
  | 32 -> ()
  | 33 -> if x = "1" then (misc cx t m_usage MRmw AllocUpdOk; cx.usage <- (match cx.usage with Some u -> Some (u + h.alloc_req) | None -> None))
          else misc cx t m_usage MLoad AllocUpdFail
  | 34 -> let c = xi () in defer cx t (fun () -> misc cx t m_bcap MStore SetCapStore; cx.bcap <- Some c)
  | 41 -> defer cx t (fun () -> misc cx t m_limit MStore SetMaxStore; cx.limit <- Some x)
  (* allocation and push_front *)
  | 39 ->
      let b = int_of_nat (st cx).nb in
      if Hashtbl.mem cx.addr2b x then reject "bucket address %s allocated twice" x;
      emit cx (LAlloc nt);
      Hashtbl.replace cx.addr2b x b;
      (lens_of cx b) := [ Hashtbl.find_opt cx.first_len x ];
      h.stored <- Some (nat_of_int b, O)
  | 35 -> ()
  | 36 -> emit cx (LPushLoad (nt, head_index cx x))
  | 37 ->
      (match (tstate cx t).pst with
       | PLoop (b, e, _) ->
           if bucket_opt cx y <> Some (int_of_nat b) then reject "thread %d pushes bucket %s, the skeleton has bucket %d in hand" t (pp_cur (bucket_opt cx y)) (int_of_nat b);
           if (match bucket_opt cx x with Some v -> v + 1 | None -> 0) <> int_of_nat e then reject "the head CAS of thread %d expects another value than the skeleton" t
       | _ -> ());
      if cx.m.Snorm.cfg.next_first then emit_inferred cx (LPushWrite nt)
  | 38 -> if x = "1" then emit cx (LPushCas (nt, true, O)) else emit cx (LPushCas (nt, false, head_index cx y))
  | _ -> reject "event of site %d cannot be mapped" site

let key_of_result (res : string) : int option =
  if String.length res > 1 && res.[0] = 'K' then int_of_string_opt (String.sub res 1 (String.length res - 1)) else None

let call cx t =
  before cx t NOther;
  let h = th cx t in
  if h.held <> None then reject "thread %d starts a call while holding a shard" t;
  h.walking <- false; h.seen_len <- None; h.lencas <- None; h.reserved <- None; h.stored <- None; h.drawn <- None;
  h.probe <- None; h.resolving <- None; h.lockfind <- false; h.inserted <- None

(* RET: outcomes that have no event of their own are read off the result; the shard lock is released *)
let ret cx t (res : string) =
  before cx t (NRet res);
  let h = th cx t in
  let found what l = match key_of_result res with
    | Some k -> cx.inferred <- cx.inferred + 1; read_key cx t ~lock:l k
    | None -> if what then reject "thread %d took a shard lock, reported no vacant slot and returned %s" t res in
  (match h.probe with
   | Some (l, true) -> h.probe <- None; found false l
   | Some (_, false) -> reject "thread %d returned between PRE_MAP_GET and OBS_MAP_GET" t
   | None -> ());
  (match h.resolving with
   | Some key -> h.resolving <- None; if starts_with "S:" res then (cx.inferred <- cx.inferred + 1; read_key cx t ~lock:(strings_lock_base + key) key)
   | None -> ());
  if h.lockfind then (h.lockfind <- false; match h.held with Some l -> found true l | None -> ());
  if starts_with "#" res then begin
    (match int_of_string_opt (String.sub res 1 (String.length res - 1)) with Some n -> check_latest "memory_usage" t n cx.usage | None -> ());
    cx.inferred <- cx.inferred + 1;
    misc cx t m_usage MLoad CurUsageLoad
  end;
  unlock_shard cx t

(* FINAL: the end state of the implementation against the skeleton's and the replayer's bookkeeping *)
let final cx (toks : string list) =
  Hashtbl.iter (fun t h -> if h.pending <> None then reject "thread %d is still parked at the end" t;
                 if h.held <> None then reject "thread %d still holds a shard at the end" t) cx.ths;
  let get k =
    let pre = k ^ "=" in
    match L.find_opt (starts_with pre) toks with
    | Some t -> String.sub t (String.length pre) (String.length t - String.length pre)
    | None -> reject "FINAL has no %s" k
  in
  if int_of_string (get "key") <> cx.keyctr then reject "final key counter %s, replayed %d" (get "key") cx.keyctr;
  (match cx.usage with Some u when string_of_int u <> get "cur" -> reject "final usage %s, replayed %d" (get "cur") u | _ -> ());
  (match cx.bcap with Some u when string_of_int u <> get "bc" -> reject "final bucket capacity %s, replayed %d" (get "bc") u | _ -> ());
  (match cx.limit with
   | Some l -> let l = if l = "18446744073709551615" then "max" else l in
               if l <> get "max" then reject "final limit %s, replayed %s" (get "max") l
   | None -> ());
  (* the list as the skeleton has it: latest head message, then the next cells *)
  let s = st cx in
  let rec chain (p : nat) n = if n > 100000 then reject "the skeleton's list is cyclic" else
    match ptr_of p with None -> [] | Some b -> int_of_nat b :: chain (s.na (Next b)).nval (n + 1) in
  let model = match L.rev (s.hist Head) with m :: _ -> chain m.mval 0 | [] -> [] in
  let impl = if get "blocks" = "" then [] else L.map (fun e -> match split_on ':' e with
      | [ ad; _; used ] ->
          let b = bucket cx ad in
          (match latest_len cx b with Some v when string_of_int v <> used -> reject "bucket %d ends with %s bytes used, replayed %d" b used v | _ -> ());
          b
      | _ -> reject "bad block entry %s" e) (split_on ',' (get "blocks")) in
  if model <> impl then
    reject "final bucket list (head first) %s, the skeleton's %s" (String.concat "," (L.map string_of_int impl)) (String.concat "," (L.map string_of_int model))
