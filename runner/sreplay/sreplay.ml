(* sreplay — validates traces of the real ThreadedRodeo (harness/concdriver) against the release/acquire
   synchronisation skeleton of Sync.v: every event is mapped to Sync.labels (smap.ml), the labels are run through the
   EXTRACTED Sync.step under OrdDefs.extracted_cfg (snorm.ml); the skeleton must accept every label and must not
   flag a race.
   usage: sreplay [--weak] [--locks=brief] [--paranoid | --pure] [--labels] <tracefile> <outfile>
     --locks=brief  the lock mapping as literally worded in the brief (for comparison; rejects genuine traces)
     --weak      use ExtractSync.weak_cfg (PushCasOk := Relaxed): sensitivity experiment
     --paranoid  check after every step that the re-tabulation of the state (snorm.ml) is the identity
     --pure      no re-tabulation (exponential: short traces only)
     --labels    also write the label sequence to <outfile>.labels (lines: L <id> <trace line> <label>) *)
module L = Stdlib.List
open Snat

type case = { id : string; lines : (int * string) list; complete : bool }

let read_cases (file : string) : case list =
  let ic = open_in file in
  let out = ref [] and cur = ref None and acc = ref [] and lineno = ref 0 in
  (try
     while true do
       let line = String.trim (input_line ic) in
       incr lineno;
       if starts_with "BEGIN " line then (cur := Some (String.sub line 6 (String.length line - 6)); acc := [])
       else if starts_with "END " line then (
         (match !cur with Some id -> out := { id; lines = L.rev !acc; complete = true } :: !out | None -> ());
         cur := None)
       else if line <> "" && !cur <> None then acc := (!lineno, line) :: !acc
     done
   with End_of_file -> ());
  (match !cur with Some id -> out := { id; lines = L.rev !acc; complete = false } :: !out | None -> ());
  close_in ic;
  L.rev !out

let cur_id = ref ""
let toks line = L.filter (fun t -> t <> "") (split_on ' ' line)

(* reasons not to replay a case at all *)
let skip_reason (c : case) : string option =
  if not c.complete then Some "the trace is incomplete (no END)"
  else
    L.fold_left
      (fun acc (ln, line) ->
        match acc with
        | Some _ -> acc
        | None -> (
            match toks line with
            | ("DEADLOCK" | "TIMEOUT") :: _ -> Some (Printf.sprintf "the run ended in %s (line %d)" (L.hd (toks line)) ln)
            | [ "RET"; t; "P" ] -> Some (Printf.sprintf "a call of thread %s panicked (line %d)" t ln)
            | _ -> None))
      None c.lines

type outcome = SOk of int * int * int * int | SReject of int * string * string | SRace of int * string * int

let replay cfg mode (c : case) : outcome * int =
  let tids = L.sort_uniq compare (L.filter_map (fun (_, l) -> match toks l with "CALL" :: t :: _ -> int_of_string_opt t | _ -> None) c.lines) in
  let cx = { Smap.m = Snorm.create cfg mode tids; addr2b = Hashtbl.create 16; lens = Hashtbl.create 16; first_len = Hashtbl.create 16;
             ths = Hashtbl.create 8; keyrange = Hashtbl.create 64; shardtab = Hashtbl.create 16; pubidx = Hashtbl.create 16; usage = None; limit = None; bcap = None;
             keyctr = 0; nlabels = 0; line = 0; inferred = 0 } in
  (* FINAL tells the length of the string that a bucket was allocated for (offset 0) *)
  L.iter (fun (_, l) -> match toks l with
      | "FINAL" :: rest ->
          L.iter (fun tk -> if starts_with "strs=" tk then
                     L.iter (fun e -> match Str.bounded_split (Str.regexp ":A") e 2 with
                         | [ _; r ] -> (match Str.split (Str.regexp "[.=]") r with
                             | [ ad; "0"; hex ] -> Hashtbl.replace cx.Smap.first_len ad (String.length hex / 2)
                             | _ -> ())
                         | _ -> ())
                       (split_on ',' (String.sub tk 5 (String.length tk - 5)))) rest
      | _ -> ()) c.lines;
  let nev = ref 0 in
  let cur_line = ref 0 and saw_final = ref false in
  let outcome =
    try
      L.iter
        (fun (ln, line) ->
          cur_line := ln;
          cx.Smap.line <- ln;
          try
            match toks line with
            | [ "SHARD"; _; _ ] -> ()
            | [ "BLOCK"; addr; _; cap ] ->
                if Hashtbl.length cx.Smap.addr2b > 0 then Smap.reject "more than one initial block";
                Hashtbl.replace cx.Smap.addr2b addr 0;
                Hashtbl.replace cx.Smap.lens 0 (ref [ Some 0 ]);
                cx.Smap.usage <- Some (int_of_string cap); cx.Smap.bcap <- Some (int_of_string cap)
            | [ "CALL"; t; _ ] -> Smap.call cx (int_of_string t)
            | [ "RET"; t; res ] -> Smap.ret cx (int_of_string t) res
            | [ "EV"; t; site; x; y ] -> incr nev; Smap.ev cx (int_of_string t) (int_of_string site) x y
            | "FINAL" :: rest -> saw_final := true; Smap.final cx rest
            | _ -> Smap.reject "unknown trace line"
          with Failure m | Invalid_argument m -> Smap.reject "malformed line (%s)" m)
        c.lines;
      if not !saw_final then Smap.reject "the case has no FINAL line";
      if (Smap.st cx).Sync.raced then SRace (!cur_line, "-", cx.Smap.nlabels)
      else SOk (cx.Smap.nlabels, int_of_nat (Smap.st cx).Sync.nb, L.length tids, cx.Smap.inferred)
    with
    | Smap.Reject m -> SReject (cx.Smap.line, "-", "mapping: " ^ m)
    | Smap.Step_none (lb, why) -> SReject (cx.Smap.line, pp_label lb, "Sync.step=None: " ^ why)
    | Smap.Raced lb -> SRace (cx.Smap.line, pp_label lb, cx.Smap.nlabels)
    | Snorm.Norm_mismatch m -> SReject (cx.Smap.line, "-", "INTERNAL re-tabulation check failed: " ^ m)
  in
  (outcome, !nev)

let () =
  let args = L.tl (Array.to_list Sys.argv) in
  let flags, files = L.partition (fun a -> starts_with "--" a) args in
  let weak = L.mem "--weak" flags in
  Smap.brief_locks := L.mem "--locks=brief" flags;
  let mode = if L.mem "--pure" flags then Snorm.Pure else if L.mem "--paranoid" flags then Snorm.Paranoid else Snorm.Fast in
  let cfg = if weak then ExtractSync.weak_cfg else OrdDefs.extracted_cfg in
  match files with
  | [ trace; out ] ->
      let oc = open_out out in
      if L.mem "--labels" flags then begin
        let lc = open_out (out ^ ".labels") in
        at_exit (fun () -> close_out lc);
        Smap.label_log := (fun ln lb -> Printf.fprintf lc "L %s %d %s\n" !cur_id ln (pp_label lb))
      end;
      let t0 = Sys.time () in
      let nev = ref 0 and nlab = ref 0 in
      L.iter
        (fun c ->
          cur_id := c.id;
          match skip_reason c with
          | Some r -> Printf.fprintf oc "SSKIP %s %s\n" c.id r
          | None -> (
              let o, n = replay cfg mode c in
              nev := !nev + n;
              match o with
              | SOk (labels, blocks, threads, inf) ->
                  nlab := !nlab + labels;
                  Printf.fprintf oc "SOK %s labels=%d blocks=%d threads=%d inferred=%d\n" c.id labels blocks threads inf
              | SReject (ln, lb, why) -> Printf.fprintf oc "SREJECT %s event=%d label=%s reason=%s\n" c.id ln lb why
              | SRace (ln, lb, labels) ->
                  nlab := !nlab + labels;
                  Printf.fprintf oc "SRACE %s event=%d label=%s labels=%d cfg=%s adequate=%b%s\n" c.id ln lb labels
                    (if weak then "weak" else "extracted")
                    (if weak then ExtractSync.weak_adequate else ExtractSync.extracted_adequate)
                    (if weak then "" else if ExtractSync.extracted_adequate
                     then " THE THEOREM Sync.race_free EXCLUDES THIS: replayer or premises broken"
                     else " the orderings of the source are not adequate (Orderings.adequate_extracted fails): a data race on this execution")))
        (read_cases trace);
      let dt = Sys.time () -. t0 in
      Printf.fprintf oc "STIME events=%d labels=%d seconds=%.3f per1000events=%.4f\n" !nev !nlab dt
        (if !nev > 0 then dt *. 1000. /. float_of_int !nev else 0.);
      close_out oc
  | _ -> prerr_endline "usage: sreplay [--weak] [--paranoid|--pure] [--labels] <tracefile> <outfile>"; exit 2
