(* snat.ml — numbers and printers for sreplay (no model logic).  nat is the extracted unary type. *)
module L = Stdlib.List
open Datatypes
open Sync

let int_of_nat (n : nat) : int =
  let rec go n acc = match n with O -> acc | S m -> go m (acc + 1) in
  go n 0

(* small memo table: the same small numbers are converted all the time *)
let nat_memo : nat array ref = ref [| O |]

let nat_of_int (i : int) : nat =
  if i <= 0 then O
  else begin
    let a = !nat_memo in
    if i < Array.length a then a.(i)
    else begin
      let n = max (i + 1) (2 * Array.length a) in
      let b = Array.make n O in
      Array.blit a 0 b 0 (Array.length a);
      for k = Array.length a to n - 1 do b.(k) <- S b.(k - 1) done;
      nat_memo := b;
      b.(i)
    end
  end

let split_on c s = String.split_on_char c s
let starts_with p s = String.length s >= String.length p && String.sub s 0 (String.length p) = p

let pp_ord (o : ordering) =
  match o with Relaxed -> "Relaxed" | Acquire -> "Acquire" | Release -> "Release" | AcqRel -> "AcqRel" | SeqCst -> "SeqCst"

let pp_kind (k : mkind) = match k with MLoad -> "MLoad" | MStore -> "MStore" | MRmw -> "MRmw"
let pp_range ((b, k) : range) = Printf.sprintf "(%d,%d)" (int_of_nat b) (int_of_nat k)
let pp_bool b = if b then "true" else "false"

(* printed without blanks: the output lines are blank-separated *)
let pp_label (lb : label) : string =
  let n = int_of_nat in
  match lb with
  | LAlloc t -> Printf.sprintf "LAlloc(%d)" (n t)
  | LPushLoad (t, i) -> Printf.sprintf "LPushLoad(%d,%d)" (n t) (n i)
  | LPushWrite t -> Printf.sprintf "LPushWrite(%d)" (n t)
  | LPushCas (t, ok, i) -> Printf.sprintf "LPushCas(%d,%s,%d)" (n t) (pp_bool ok) (n i)
  | LWalkStart (t, i) -> Printf.sprintf "LWalkStart(%d,%d)" (n t) (n i)
  | LVisit t -> Printf.sprintf "LVisit(%d)" (n t)
  | LWalkNext t -> Printf.sprintf "LWalkNext(%d)" (n t)
  | LLenLoad (t, i) -> Printf.sprintf "LLenLoad(%d,%d)" (n t) (n i)
  | LLenCas (t, ok, i) -> Printf.sprintf "LLenCas(%d,%s,%d)" (n t) (pp_bool ok) (n i)
  | LCopy t -> Printf.sprintf "LCopy(%d)" (n t)
  | LPublish (t, l, rs) -> Printf.sprintf "LPublish(%d,%d,[%s])" (n t) (n l) (String.concat ";" (L.map pp_range rs))
  | LConsume (t, l, i) -> Printf.sprintf "LConsume(%d,%d,%d)" (n t) (n l) (n i)
  | LReadData (t, r) -> Printf.sprintf "LReadData(%d,%s)" (n t) (pp_range r)
  | LMisc (t, m, k, o, i, x) ->
      Printf.sprintf "LMisc(%d,%d,%s,%s,%d,%d)" (n t) (n m) (pp_kind k) (pp_ord o) (n i) (n x)

let pp_pst (p : pstate) =
  let n = int_of_nat in
  match p with
  | PNone -> "PNone"
  | PLoad b -> Printf.sprintf "PLoad(%d)" (n b)
  | PLoop (b, e, w) -> Printf.sprintf "PLoop(%d,%d,%s)" (n b) (n e) (pp_bool w)
  | PLate (b, e) -> Printf.sprintf "PLate(%d,%d)" (n b) (n e)

let pp_aloc (l : aloc) =
  let n = int_of_nat in
  match l with Head -> "Head" | Len b -> Printf.sprintf "Len(%d)" (n b) | Lk k -> Printf.sprintf "Lk(%d)" (n k)
               | Misc m -> Printf.sprintf "Misc(%d)" (n m)

let thread_of_label (lb : label) : nat =
  match lb with
  | LAlloc t | LPushLoad (t, _) | LPushWrite t | LPushCas (t, _, _) | LWalkStart (t, _) | LVisit t | LWalkNext t
  | LLenLoad (t, _) | LLenCas (t, _, _) | LCopy t | LPublish (t, _, _) | LConsume (t, _, _) | LReadData (t, _)
  | LMisc (t, _, _, _, _, _) -> t
