(* snorm.ml — runs the EXTRACTED Sync.step and keeps the state in a finite-table representation.

   Why: a Sync.state is made of functions (hist, na, thr, and the vc / co of every view).  Each step wraps them in
   another closure; joins of views are re-evaluated as TREES, so a lookup costs time exponential in the number of
   acquire steps.  After every step the replayer therefore re-tabulates the parts of the state the label can have
   changed: it EVALUATES the functions returned by the extracted step on a finite set of keys and replaces them by
   table lookups that are extensionally equal.  No transition, join or race check is re-implemented here: every
   value in a table was computed by the extracted code.
   Which keys are evaluated is decided by [footprint] (from the label and the state before the step);
   in --paranoid mode everything else is checked to be unchanged (all known locations, cells, threads, and the new
   views on ALL known keys), in --pure mode nothing is tabulated at all (usable on short traces only). *)
module L = Stdlib.List
open Datatypes
open Sync
open Snat

type akey = int * int
type ckey = int * int * int

let akey (l : aloc) : akey =
  match l with Head -> (0, 0) | Len b -> (1, int_of_nat b) | Lk k -> (2, int_of_nat k) | Misc m -> (3, int_of_nat m)

let ckey (c : cell) : ckey =
  match c with
  | Cap b -> (0, int_of_nat b, 0) | Next b -> (1, int_of_nat b, 0) | LenI b -> (2, int_of_nat b, 0)
  | Data (b, k) -> (3, int_of_nat b, int_of_nat k)

(* conversion cache: while a view is evaluated at a canonical key, inner table lookups receive the same object *)
let cache_l = ref Head
let cache_k = ref (0, 0)
let akey_c (l : aloc) : akey = if l == !cache_l then !cache_k else akey l

(* shadow of a tabulated view: its non-zero entries *)
type nview = { nvc : (int * nat) list; nco : (akey * nat) list }

let nview0 = { nvc = []; nco = [] }

let view_of_nview (nv : nview) : view =
  if nv.nvc = [] && nv.nco = [] then vbot
  else begin
    let t = Hashtbl.create (2 * L.length nv.nco + 1) in
    L.iter (fun (k, x) -> Hashtbl.replace t k x) nv.nco;
    let vcs = nv.nvc in
    { vc = (fun th -> match L.assoc_opt (int_of_nat th) vcs with Some x -> x | None -> O);
      co = (fun l -> match Hashtbl.find_opt t (akey_c l) with Some x -> x | None -> O) }
  end

type mode = Fast | Paranoid | Pure

type m = {
  cfg : cfg;
  mode : mode;
  tids : int list;
  mutable st : state;
  hist_t : (akey, msg list) Hashtbl.t;
  hist_s : (akey, nview list) Hashtbl.t;       (* shadows of the message views, parallel to hist_t *)
  na_t : (ckey, nacell) Hashtbl.t;
  thr_t : (int, tstate) Hashtbl.t;
  thr_s : (int, nview) Hashtbl.t;
  alocs : (akey, aloc) Hashtbl.t;              (* canonical objects of all locations touched so far *)
  cells : (ckey, cell) Hashtbl.t;
  mutable steps : int;
}

exception Norm_mismatch of string

let table_state (m : m) (nb : nat) (raced : bool) : state =
  { hist = (fun l -> match Hashtbl.find_opt m.hist_t (akey_c l) with Some h -> h | None -> init.hist l);
    na = (fun c -> match Hashtbl.find_opt m.na_t (ckey c) with Some x -> x | None -> init.na c);
    thr = (fun t -> match Hashtbl.find_opt m.thr_t (int_of_nat t) with Some x -> x | None -> init.thr t);
    nb; raced }

let create (cfg : cfg) (mode : mode) (tids : int list) : m =
  let m = { cfg; mode; tids; st = init; hist_t = Hashtbl.create 64; hist_s = Hashtbl.create 64; na_t = Hashtbl.create 64;
            thr_t = Hashtbl.create 8; thr_s = Hashtbl.create 8; alocs = Hashtbl.create 64; cells = Hashtbl.create 64;
            steps = 0 } in
  if mode <> Pure then m.st <- table_state m init.nb init.raced;
  m

let canon (m : m) (l : aloc) : akey * aloc =
  let k = akey l in
  match Hashtbl.find_opt m.alocs k with
  | Some l' -> (k, l')
  | None -> Hashtbl.replace m.alocs k l; (k, l)

let hist_len (m : m) (l : aloc) : int = L.length (m.st.hist l)

(* shadows of the views of the messages of l (initial messages carry vbot) *)
let shadows (m : m) (k : akey) (l : aloc) : nview list =
  match Hashtbl.find_opt m.hist_s k with Some s -> s | None -> L.map (fun _ -> nview0) (m.st.hist l)

type fp = { reads : (aloc * int) list; touched : aloc list; fcells : cell list }

let footprint (m : m) (lb : label) : fp =
  let s = m.st in
  let ts t = s.thr t in
  let latest l = hist_len m l - 1 in
  let at_cur t f = match (ts t).cur with Some b -> f b | None -> { reads = []; touched = []; fcells = [] } in
  let rd l i = { reads = [ (l, i) ]; touched = [ l ]; fcells = [] } in
  match lb with
  | LAlloc _ -> let b = s.nb in { reads = []; touched = [ Len b ]; fcells = [ Next b; LenI b; Cap b; Data (b, O) ] }
  | LPushLoad (_, i) | LWalkStart (_, i) -> rd Head (int_of_nat i)
  | LPushWrite t ->
      { reads = []; touched = [];
        fcells = (match (ts t).pst with PLoop (b, _, _) | PLate (b, _) -> [ Next b ] | _ -> []) }
  | LPushCas (_, ok, i) -> rd Head (if ok then latest Head else int_of_nat i)
  | LVisit t -> at_cur t (fun b -> { reads = []; touched = []; fcells = [ Cap b ] })
  | LWalkNext t -> at_cur t (fun b -> { reads = []; touched = []; fcells = [ Next b ] })
  | LLenLoad (t, i) -> at_cur t (fun b -> { (rd (Len b) (int_of_nat i)) with fcells = [ LenI b ] })
  | LLenCas (t, ok, i) ->
      at_cur t (fun b -> { (rd (Len b) (if ok then latest (Len b) else int_of_nat i)) with fcells = [ LenI b ] })
  | LCopy t -> { reads = []; touched = []; fcells = (match (ts t).tw with Some (b, k) -> [ Data (b, k) ] | None -> []) }
  | LPublish (_, l, _) -> { reads = []; touched = [ Lk l ]; fcells = [] }
  | LConsume (_, l, i) -> rd (Lk l) (int_of_nat i)
  | LReadData (_, (b, k)) -> { reads = []; touched = []; fcells = [ Data (b, k) ] }
  | LMisc (_, mm, k, _, i, _) -> (
      match k with
      | MLoad -> rd (Misc mm) (int_of_nat i)
      | MStore -> { reads = []; touched = [ Misc mm ]; fcells = [] }
      | MRmw -> rd (Misc mm) (latest (Misc mm)))

let is_o (n : nat) = match n with O -> true | S _ -> false

(* evaluate a view (as returned by the extracted step) on the given keys *)
let tabulate (m : m) (v : view) (keys : (akey * aloc) list) : nview =
  let nvc = L.filter_map (fun t -> let x = v.vc (nat_of_int t) in if is_o x then None else Some (t, x)) m.tids in
  let nco =
    L.filter_map (fun (k, l) -> cache_l := l; cache_k := k; let x = v.co l in if is_o x then None else Some (k, x)) keys
  in
  cache_l := Head; cache_k := (0, 0);
  { nvc; nco }

let rec last_of l = match l with [] -> None | [ x ] -> Some x | _ :: t -> last_of t
let rec replace_last l x = match l with [] -> [] | [ _ ] -> [ x ] | y :: t -> y :: replace_last t x

let same_nview (a : nview) (b : nview) : bool =
  L.sort compare a.nvc = L.sort compare b.nvc && L.sort compare a.nco = L.sort compare b.nco

(* one step of the extracted machine; None = the skeleton does not allow the label here *)
let step (m : m) (lb : label) : bool =
  let old = m.st in
  if m.mode = Pure then (
    match Sync.step m.cfg old lb with Some s' -> m.st <- s'; m.steps <- m.steps + 1; true | None -> false)
  else begin
    let fp = footprint m lb in
    let t = thread_of_label lb in
    let ti = int_of_nat t in
    match Sync.step m.cfg old lb with
    | None -> false
    | Some s' ->
        m.steps <- m.steps + 1;
        let touched = L.map (canon m) fp.touched in
        (* keys on which the new views can be non-zero: the thread's old support, the supports of the messages read,
           the locations accessed *)
        let old_tv = match Hashtbl.find_opt m.thr_s ti with Some nv -> nv | None -> nview0 in
        let keyset = Hashtbl.create 32 in
        let add (k, l) = if not (Hashtbl.mem keyset k) then Hashtbl.replace keyset k l in
        L.iter (fun (k, _) -> add (canon m (Hashtbl.find m.alocs k))) old_tv.nco;
        L.iter add touched;
        L.iter
          (fun (l, i) ->
            let k, l = canon m l in
            match L.nth_opt (shadows m k l) i with
            | Some nv -> L.iter (fun (k', _) -> add (k', Hashtbl.find m.alocs k')) nv.nco
            | None -> ())
          fp.reads;
        let keys = Hashtbl.fold (fun k l acc -> (k, l) :: acc) keyset [] in
        let all_keys () = Hashtbl.fold (fun k l acc -> (k, l) :: acc) m.alocs [] in
        let check_view what v nv =
          if m.mode = Paranoid && not (same_nview (tabulate m v (all_keys ())) nv) then
            raise (Norm_mismatch (Printf.sprintf "%s after %s is non-zero outside the evaluated keys" what (pp_label lb)))
        in
        (* the thread *)
        let ts' = s'.thr t in
        let nv = tabulate m ts'.tv keys in
        check_view "thread view" ts'.tv nv;
        let ts_n = { tv = view_of_nview nv; cur = ts'.cur; pst = ts'.pst; tw = ts'.tw; have = ts'.have } in
        (* the histories of the locations accessed *)
        let hists =
          L.map
            (fun (k, l) ->
              let h_old = old.hist l and h' = s'.hist l in
              let sh_old = shadows m k l in
              if h' == h_old then (k, h', sh_old)
              else if L.length h' = L.length h_old + 1 then (
                match last_of h' with
                | Some msg ->
                    let mv = tabulate m msg.mview keys in
                    check_view "message view" msg.mview mv;
                    (k, replace_last h' { mval = msg.mval; mpay = msg.mpay; mview = view_of_nview mv }, sh_old @ [ mv ])
                | None -> (k, h', sh_old))
              else begin
                (* a history that was replaced (LAlloc: the len of the fresh bucket): tabulate every message *)
                let pairs =
                  L.map (fun msg ->
                      let mv = tabulate m msg.mview keys in
                      check_view "message view" msg.mview mv;
                      ({ mval = msg.mval; mpay = msg.mpay; mview = view_of_nview mv }, mv)) h'
                in
                (k, L.map fst pairs, L.map snd pairs)
              end)
            touched
        in
        let cells = L.map (fun c -> (ckey c, c, s'.na c)) fp.fcells in
        (* paranoid: nothing outside the footprint has changed *)
        if m.mode = Paranoid then begin
          Hashtbl.iter
            (fun k l ->
              if not (L.exists (fun (k', _) -> k' = k) touched) && not (s'.hist l == old.hist l) then
                raise (Norm_mismatch (Printf.sprintf "history of %s changed by %s" (pp_aloc l) (pp_label lb))))
            m.alocs;
          Hashtbl.iter
            (fun k c ->
              if not (L.exists (fun (k', _, _) -> k' = k) cells) && not (s'.na c == old.na c) then
                raise (Norm_mismatch (Printf.sprintf "a cell outside the footprint changed by %s" (pp_label lb))))
            m.cells;
          L.iter
            (fun t' ->
              if t' <> ti && not (s'.thr (nat_of_int t') == old.thr (nat_of_int t')) then
                raise (Norm_mismatch (Printf.sprintf "thread %d changed by %s" t' (pp_label lb))))
            m.tids
        end;
        (* commit *)
        Hashtbl.replace m.thr_t ti ts_n;
        Hashtbl.replace m.thr_s ti nv;
        L.iter (fun (k, h, sh) -> Hashtbl.replace m.hist_t k h; Hashtbl.replace m.hist_s k sh) hists;
        L.iter (fun (k, c, x) -> Hashtbl.replace m.na_t k x; if not (Hashtbl.mem m.cells k) then Hashtbl.replace m.cells k c) cells;
        m.st <- table_state m s'.nb s'.raced;
        true
  end
