(* ExtractSync.v — extraction of the release/acquire view machine of Sync.v for the trace replayer sreplay.
   Directives in force: those of ExtrOcamlBasic only; nat stays the extracted inductive type.
   OrdDefs.v is the DEFINITIONS part of the generated coq/Orderings.v (cut off before its lemmas by build.sh): when the
   source's orderings are no longer adequate, Orderings.v itself does not compile (that is the broken proof obligation),
   but the replayer must still be built — it is then the search for the failing input (a real trace on which the view
   machine flags a race). *)
From Lasso Require Import Sync.
From SR Require Import OrdDefs.
Require Import ExtrOcamlBasic.
Extraction Language OCaml.

(* sensitivity experiment: the extracted configuration with the successful head CAS of push_front weakened to Relaxed
   (not adequate: Sync.race_free does not apply) *)
Definition weak_cfg : cfg :=
  {| ord := fun s => match s with PushCasOk => Relaxed | _ => ord extracted_cfg s end;
     next_first := next_first extracted_cfg |}.
Definition weak_adequate : bool := adequate (ord weak_cfg).
Definition extracted_adequate : bool := adequate (ord extracted_cfg).

Separate Extraction Sync.step Sync.init Sync.run Sync.raced Sync.thr Sync.pst Sync.cur Sync.tw Sync.have Sync.tv
  Sync.hist Sync.na Sync.nb Sync.mval Sync.mpay Sync.mview Sync.nval Sync.wrs Sync.rds Sync.vc Sync.co Sync.ptr_of
  Sync.ord Sync.next_first OrdDefs.ord_of OrdDefs.extracted_cfg weak_cfg weak_adequate extracted_adequate.
