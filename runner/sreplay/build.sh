#!/bin/bash
# build.sh <outdir> [<coqdir>]: extract Sync.step (ExtractSync.v) into <outdir> and build <outdir>/sreplay.
# Needs <coqdir>/Sync.vo (default /verif/coq) and the generated <coqdir>/Orderings.v; writes nothing outside <outdir>.
set -e
here=$(cd "$(dirname "$0")" && pwd)
out=${1:?usage: build.sh <outdir> [<coqdir>]}
coq=${2:-/verif/coq}
mkdir -p "$out"
cd "$out"
rm -f *.ml *.mli *.cm* *.o *.v *.vo *.vos *.vok *.glob .*.aux sreplay sreplay.new
# the definitions of the generated Orderings.v, without its lemmas
sed '/^(\* re-checked on every run/,$d' "$coq/Orderings.v" > OrdDefs.v
grep -q "Definition extracted_cfg" OrdDefs.v || { echo "build.sh: Orderings.v has no extracted_cfg" >&2; exit 1; }
coqc -Q "$coq" Lasso -Q . SR OrdDefs.v > /dev/null
cp "$here/ExtractSync.v" .
coqc -Q "$coq" Lasso -Q . SR ExtractSync.v > /dev/null
cp "$here"/snat.ml "$here"/snorm.ml "$here"/smap.ml "$here"/sreplay.ml .
ocamlfind ocamlopt -O3 -package str -linkpkg -w -a \
  Datatypes.mli Datatypes.ml Nat.mli Nat.ml PeanoNat.mli PeanoNat.ml Specif.mli Specif.ml List.mli List.ml \
  Sync.mli Sync.ml OrdDefs.mli OrdDefs.ml ExtractSync.mli ExtractSync.ml \
  snat.ml snorm.ml smap.ml sreplay.ml -o sreplay.new 2>&1 | grep -v "^$" | grep -v "options -O3 is only relevant" | head -30
[ -x sreplay.new ] && mv -f sreplay.new sreplay
[ -x sreplay ]
