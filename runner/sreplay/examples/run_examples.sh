#!/bin/bash
# run_examples.sh [<builddir>]: build sreplay, record fresh traces of /verif/harness/examples.conc, replay them
# (extracted and weakened configuration), derive the hand-edited negative traces and replay those, replay the
# order example with both lock mappings.  Everything is written into this directory.
set -e
here=$(cd "$(dirname "$0")" && pwd)
bd=${1:-/tmp/sreplay_build}
"$here/../build.sh" "$bd" > /dev/null
S="$bd/sreplay"
/verif/build/target/release/concdriver run /verif/harness/examples.conc "$here/examples.trace" > /dev/null
rm -f "$here/examples.trace.mon"
$S --labels "$here/examples.trace" "$here/examples.out"
$S --paranoid "$here/examples.trace" "$here/examples.paranoid.out"
$S --weak "$here/examples.trace" "$here/examples.weak.out"
python3 "$here/mk_negatives.py" "$here/examples.trace" "$here"
cat "$here"/neg[0-9]*.trace > "$here/negatives.trace"
$S "$here/negatives.trace" "$here/negatives.out"
/verif/build/target/release/concdriver run "$here/order.conc" "$here/order.trace" > /dev/null
rm -f "$here/order.trace.mon"
$S --labels "$here/order.trace" "$here/order.out"
$S --locks=brief --labels "$here/order.trace" "$here/order.brief.out"
grep -v "^SOK" "$here/examples.out" "$here/examples.weak.out" "$here/negatives.out" "$here/order.out" "$here/order.brief.out" | grep -v STIME || true
