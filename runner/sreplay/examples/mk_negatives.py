#!/usr/bin/env python3
"""mk_negatives.py <examples.trace> <outdir>: derive hand-edited (WRONG) traces from genuine ones; sreplay must reject them.
Each edit is a small permutation / change of lines of one case of the genuine trace (addresses differ between runs,
so the edits are scripted instead of stored as patches)."""
import sys, os

def cases(path):
    out, cur = {}, None
    for line in open(path):
        line = line.rstrip("\n")
        if line.startswith("BEGIN "):
            cur = line[6:]; out[cur] = []
        if cur is not None:
            out[cur].append(line)
        if line.startswith("END "):
            cur = None
    return out

def write(outdir, name, cid, lines):
    lines = [("BEGIN " + name) if l.startswith("BEGIN ") else ("END " + name) if l.startswith("END ") else l for l in lines]
    open(os.path.join(outdir, name + ".trace"), "w").write("\n".join(lines) + "\n")

def idx(lines, pred, start=0):
    for i in range(start, len(lines)):
        if pred(lines[i].split()):
            return i
    raise SystemExit("pattern not found")

def main():
    src, outdir = sys.argv[1], sys.argv[2]
    cs = cases(src)

    # neg1: a successful OBS_HEAD_CAS of thread 0 moved BEFORE its OBS_HEAD_LOAD (c03: both threads push a block)
    l = list(cs["c03-double-push"])
    i_load = idx(l, lambda t: t[:3] == ["EV", "0", "36"])
    i_cas = idx(l, lambda t: t[:4] == ["EV", "0", "38", "1"])
    cas = l.pop(i_cas); l.insert(i_load, cas)
    write(outdir, "neg1-cas-before-load", "c03", l)

    # neg2a: the len CAS of thread 0 reported as FAILED, the copy (OBS_STORED) still happens (c01)
    l = list(cs["c01-same-string"])
    i = idx(l, lambda t: t[:4] == ["EV", "0", "25", "1"])
    t = l[i].split(); t[3] = "0"; l[i] = " ".join(t)
    write(outdir, "neg2a-copy-after-failed-cas", "c01", l)

    # neg2b: PRE_LEN_CAS / OBS_LEN_CAS of thread 0 deleted altogether, the copy still happens (c01)
    l = [x for x in cs["c01-same-string"] if x.split()[:3] not in (["EV", "0", "24"], ["EV", "0", "25"])]
    write(outdir, "neg2b-copy-without-cas", "c01", l)

    # neg3: a reader obtains a string whose range was never published to it (c08): thread 2's `get` is redirected to the
    # shard of thread 0's string and returns its key BEFORE thread 0 has released the shard lock (its RET)
    l = list(cs["c08-resolve-window"])
    i_pre = idx(l, lambda t: t[:3] == ["EV", "2", "1"])
    i_ret = idx(l, lambda t: t[:2] == ["RET", "2"], i_pre)
    shard0 = l[idx(l, lambda t: t[:3] == ["EV", "0", "3"])].split()[3]
    l[i_pre] = "EV 2 1 %s 1" % shard0
    l[i_ret] = "RET 2 K0"
    write(outdir, "neg3-read-unpublished", "c08", l)

    # neg4: the walker reads a bucket address that is not the next of the bucket it is at (c10: second OBS_ITER_LOAD of a
    # walk replaced by the address of the initial block)
    l = list(cs["c11-oversized"])
    block0 = l[idx(l, lambda t: t[0] == "BLOCK")].split()[1]
    # find a walk step of some thread that arrives at a non-null bucket other than block0, preceded by another step
    seen = {}
    for i, x in enumerate(l):
        t = x.split()
        if t[:1] == ["EV"] and t[2] == "21":
            if t[1] in seen and t[3] not in ("0", block0) and seen[t[1]] not in ("0",):
                t[3] = block0 if seen[t[1]] != block0 else "0"; l[i] = " ".join(t); break
            seen[t[1]] = t[3]
        if t[:1] == ["EV"] and t[2] in ("4", "40"):
            seen.pop(t[1], None)
    else:
        raise SystemExit("no walk step found")
    write(outdir, "neg4-wrong-next", "c11", l)

main()
