"""mutlib.py -- text edits used by mutation_tables.py"""


def sub(old, new, nth=None, count=None):
    """edit: replace `old` by `new`; nth = which occurrence (0-based) if several; count = required number of occurrences"""
    def f(text):
        n = text.count(old)
        if n == 0: raise SystemExit("mutation text not found: %r" % old)
        if count is not None and n != count: raise SystemExit("expected %d occurrences of %r, found %d" % (count, old, n))
        if nth is None:
            if n != 1 and count is None: raise SystemExit("ambiguous mutation text (%d occurrences): %r" % (n, old))
            return text.replace(old, new)
        parts = text.split(old)
        return old.join(parts[:nth + 1]) + new + old.join(parts[nth + 1:])
    return f


def move_block(start_marker, end_marker, before_marker):
    """cut the text from start_marker to just after end_marker (first occurrence after start) and paste it before before_marker"""
    def f(text):
        s = text.index(start_marker); e = text.index(end_marker, s) + len(end_marker)
        blk = text[s:e]; rest = text[:s] + text[e:]
        b = rest.index(before_marker)
        return rest[:b] + blk + "\n" + rest[b:]
    return f
