#!/usr/bin/env python3
"""lower_keys.py -- meaning of the `unsafe impl Key for T` blocks of src/keys.rs, written out as Gallina over N.

Trusted reading of each recognised form (everything else is LOST):
  integer types u8/u16/u32/u64/usize(= usize_bits, emitted as 64)        value = a number in N
  literal                       the number (must fit its type)
  uN::MAX                       umax N                 (= 2^N - 1)
  e as uN                       cast N e               (= e mod 2^N), emitted for widening casts too
  a + b, a * b  (type uN)       the mathematical a+b, a*b   + side condition  in_range N (a+b)
  a - b                         N's truncated a-b           + side condition  no_underflow a b
  comparisons, !, &&, ||        N.ltb/N.leb/N.eqb, negb, andb, orb (operands must have the same type)
  if c {a} else {b}             if c then a else b          side conditions of a/b only under c / negb c
  unsafe { e }, ( e ), { e }    e
  let x = e; ...                x is replaced by e's translation (e is pure)
  self.key.get()                the raw value `raw` (type: the NonZeroUN field's uN)
  NonZeroUN::new_unchecked(e)   e                           + side condition  nonzero_arg N e   (e <> 0 /\ e <= uN::MAX)
  Self { key: nz } / T { key: nz }   the raw value of nz
  Some(k) / None                Some raw / None
  the unsafe-free forms (Option-valued, each with its exact machine meaning; GenPrelude.v):
  uN::try_from(e).ok()          try_from_int N e       (None iff e > uN::MAX; no truncation)
  a.checked_add(b)   (type uN)  checked_add N a b      (None iff a + b > uN::MAX; no side condition)
  NonZeroUN::new(e)             nz_new e               (None iff e = 0; e must have type uN)
  O? (as a receiver) / O.and_then(NonZeroUN::new) / O.and_then(|x| ..)      obind
  let x = O?; REST              match O with Some x => REST | None => None end      (in a function returning Option)
  O.map(|key| Self { key })  for an Option<NonZeroUN> O      O   (the raw value)
  NonZeroUN::MIN                1
"""
from rsparse import Lost

INT_BITS = {"u8": 8, "u16": 16, "u32": 32, "u64": 64, "usize": 64}
NONZERO = {"NonZeroU8": "u8", "NonZeroU16": "u16", "NonZeroU32": "u32", "NonZeroU64": "u64", "NonZeroUsize": "usize"}
RESERVED = {"try_from_int", "checked_add", "nz_new", "obind", "v_", "cast", "umax", "in_range", "no_underflow", "nonzero_arg", "sat_sub", "usize_bits", "key_types", "if", "then",
            "else", "let", "in", "fun", "forall", "exists", "match", "with", "end", "Some", "None", "N", "Prop", "Type",
            "Set", "as", "at", "fix", "cofix", "return", "where", "using", "mod", "true", "false", "raw"}


def bits_coq(ty):
    return "usize_bits" if ty == "usize" else str(INT_BITS[ty])


def conj(props):
    props = [p for p in props if p != "True"]
    if not props:
        return "True"
    return " /\\ ".join("(%s)" % p for p in props)


def path_names(p):
    return [s if isinstance(s, str) else s[0] for s in p[2]]


class KeyLowering:
    def __init__(self, parser, items, fname):
        self.p, self.items, self.fname = parser, items, fname
        self.structs = {}

    def lost(self, line, what):
        raise Lost(line, what)

    # ---- collecting ----
    def walk(self, items, out):
        for it in items:
            kind = it[0]
            if kind == "struct":
                if it[3] in self.structs: self.lost(it[1], "struct %s declared twice" % it[3])
                self.structs[it[3]] = it
            elif kind == "mod":
                if any(a.replace(" ", "") == "cfg(test)" for a in it[2]):
                    continue
                if it[4] is None: continue
                self.walk(it[4], out)
            elif kind == "impl":
                tr = it[3]["trait"]
                if tr is not None and tr.split("::")[-1] == "Key":
                    out.append(it)
            elif kind == "skipped" and it[3] == "macro":
                ts = it[4]
                for k in range(len(ts) - 1):
                    if ts[k].text == "Key" and ts[k + 1].text == "for":
                        self.lost(ts[k].line, "`impl Key for` inside a macro: cannot be translated")

    def run(self):
        impls = []
        self.walk(self.items, impls)
        if not impls:
            self.lost(1, "no `impl Key for` block found")
        res = []
        seen = set()
        for im in impls:
            res.append(self.lower_impl(im))
            if res[-1]["name"] in seen: self.lost(im[1], "two `impl Key for %s`" % res[-1]["name"])
            seen.add(res[-1]["name"])
        return res

    def lower_impl(self, im):
        _, ln, attrs, hdr, inner, endln = im
        if hdr["generics"] or hdr["where"] or hdr["neg"]:
            self.lost(ln, "generic / conditional `impl Key`")
        for a in attrs:
            if a.startswith("cfg"): self.lost(ln, "conditionally compiled `impl Key` (#[%s])" % a)
        name = hdr["self"]
        if name not in self.structs:
            self.lost(ln, "`impl Key for %s`: no struct of that name in this file" % name)
        st = self.structs[name]
        fields = st[4]
        if fields is None or len(fields) != 1 or fields[0][1] not in NONZERO:
            self.lost(st[1], "struct %s is not a single NonZero integer field" % name)
        for a in st[2]:
            if a.startswith("cfg"): self.lost(st[1], "conditionally compiled struct %s" % name)
        fld, nzty = fields[0]
        self.cur = {"name": name, "field": fld, "nz": nzty, "ity": NONZERO[nzty]}
        fns = {}
        for it in inner:
            if it[0] != "fn": self.lost(it[1], "non-function item in `impl Key for %s`" % name)
            if it[3] in fns: self.lost(it[1], "function %s defined twice" % it[3])
            for a in it[2]:
                if a.startswith("cfg(") or a.startswith("cfg_attr") and "inline" not in a:
                    self.lost(it[1], "conditionally compiled function (#[%s])" % a)
            if it[8]: self.lost(it[1], "qualified fn (%s) in `impl Key`" % " ".join(it[8]))
            fns[it[3]] = it
        if set(fns) != {"into_usize", "try_from_usize"}:
            self.lost(ln, "`impl Key for %s` must define exactly into_usize and try_from_usize, found %s" % (name, sorted(fns)))
        out = dict(self.cur); out["lines"] = (ln, endln)
        # into_usize(self) -> usize
        f = fns["into_usize"]
        if f[4] != [("self", "self")] or f[5] != "usize":
            self.lost(f[1], "into_usize signature is not `fn into_usize(self) -> usize`")
        v = self.lower(self.p.fn_body(f), {"self": ("selfval",)}, "usize")
        if v[0] != "int" or v[1] != "usize": self.lost(f[1], "into_usize body is not a usize expression")
        out["into"] = (v[2], conj(v[3]), (f[1], f[7]))
        # try_from_usize(int: usize) -> Option<Self>
        f = fns["try_from_usize"]
        if len(f[4]) != 1 or f[4][0][1] != "usize" or f[4][0][0] == "self" or f[5] not in ("Option<Self>", "Option<%s>" % name):
            self.lost(f[1], "try_from_usize signature is not `fn try_from_usize(<x>: usize) -> Option<Self>`")
        par = f[4][0][0]
        if par in RESERVED: self.lost(f[1], "parameter name `%s` clashes with the generated vocabulary" % par)
        v = self.lower(self.p.fn_body(f), {par: ("int", "usize", par)}, None)
        if v[0] != "opt": self.lost(f[1], "try_from_usize body is not an Option<Self> expression")
        out["tryfrom"] = (par, v[1], conj(v[2]), (f[1], f[7]))
        return out

    # ---- shallow type inference for integer expressions (None = untyped literal) ----
    def infer(self, e, env):
        k = e[0]
        if k == "lit": return e[3]
        if k == "paren": return self.infer(e[2], env)
        if k == "cast": return e[3] if e[3] in INT_BITS else None
        if k == "block" and not e[2] and e[3] is not None: return self.infer(e[3], env)
        if k == "path":
            names = path_names(e)
            if len(names) == 1 and names[0] in env and env[names[0]][0] == "int": return env[names[0]][1]
            if len(names) == 2 and names[0] in INT_BITS and names[1] == "MAX": return names[0]
            return None
        if k == "mcall" and e[3] == "get" and not e[4]: return self.cur["ity"]
        if k == "bin" and e[2] in ("+", "-", "*"): return self.infer(e[3], env) or self.infer(e[4], env)
        return None

    # ---- lowering: returns ('int', ty, coq, oks) | ('bool', coq, oks) | ('nz', ty, coq, oks) | ('self', coq, oks)
    #                        | ('opt', coq, oks)
    def lower(self, e, env, expect):
        k, ln = e[0], e[1]
        if k == "paren":
            return self.lower(e[2], env, expect)
        if k == "block":
            env = dict(env); wraps = []
            for s in e[2]:
                if s[0] != "let" or s[2][0] != "pbind":
                    self.lost(s[1], "statement form outside the subset (only `let x = <pure expr>;` and `let x = <option>?;`)")
                x = s[2][2]
                cx = "l_" + x                              # the Coq binder of a `?`-bound local
                init = s[4]
                while init[0] == "paren": init = init[2]
                casts = []
                while init[0] == "cast" and init[3] in INT_BITS:          # let x = O? as uN;
                    casts.append(init[3]); init = init[2]
                    while init[0] == "paren": init = init[2]
                if casts and init[0] != "try":
                    init = s[4]; casts = []
                if init[0] == "try" and casts:
                    o = self.lower_opt(init[2], env)
                    if o[0] != "oint": self.lost(s[1], "cast of a non-integer")
                    wraps.append((o[2], cx, list(o[3])))
                    val = cx
                    for t in reversed(casts): val = "cast %s (%s)" % (bits_coq(t), val)
                    if s[3] is not None and s[3] != casts[0]: self.lost(s[1], "let type annotation does not match")
                    env[x] = ("int", casts[0], val)
                    continue
                if init[0] == "try":                      # let x = O?;
                    o = self.lower_opt(init[2], env)
                    if s[3] is not None and s[3] != o[1]: self.lost(s[1], "let type annotation does not match")
                    wraps.append((o[2], cx, list(o[3])))
                    env[x] = ("int" if o[0] == "oint" else "nzvar", o[1], cx)
                    continue
                if s[3] is not None and s[3] not in INT_BITS: self.lost(s[1], "let type annotation `%s`" % s[3])
                v = self.lower(s[4], env, s[3])
                if v[0] != "int": self.lost(s[1], "`let` of a non-integer value")
                if s[3] is not None and v[1] != s[3]: self.lost(s[1], "let type annotation does not match")
                if v[3]: self.lost(s[1], "`let` of an expression with side conditions is outside the subset")
                env[x] = ("int", v[1], v[2])
            if e[3] is None: self.lost(ln, "block without a value")
            r = self.lower(e[3], env, expect)
            if not wraps: return r
            if r[0] != "opt": self.lost(ln, "`?` in a function that does not return Option<Self>")
            val, ok = r[1], conj(r[2])
            for o, x, ooks in reversed(wraps):
                val = "match %s with Some %s => %s | None => None end" % (o, x, val)
                inner = [] if ok == "True" else ["match %s with Some %s => %s | None => True end" % (o, x, ok)]
                ok = conj(ooks + inner)
            return ("opt", val, [] if ok == "True" else [ok])
        if k == "lit":
            ty = e[3] or expect
            if ty not in INT_BITS: self.lost(ln, "cannot type integer literal %d" % e[2])
            if e[2] >= 2 ** INT_BITS[ty]: self.lost(ln, "literal %d does not fit %s" % (e[2], ty))
            return ("int", ty, str(e[2]), [])
        if k == "path":
            names = path_names(e)
            if len(names) == 1:
                n = names[0]
                if n == "None": return ("opt", "None", [])
                if n in ("true", "false"): return ("bool", n, [])
                if n in env and env[n][0] == "int": return ("int", env[n][1], env[n][2], [])
                if n in env and env[n][0] == "nzvar": return ("nz", env[n][1], env[n][2], [])
                self.lost(ln, "unknown name `%s`" % n)
            if len(names) == 2 and names[0] in INT_BITS and names[1] == "MAX":
                return ("int", names[0], "umax %s" % bits_coq(names[0]), [])
            if len(names) == 2 and names[0] in NONZERO and names[1] == "MIN":
                return ("nz", NONZERO[names[0]], "1", [])
            self.lost(ln, "unknown path `%s`" % "::".join(names))
        if k == "cast":
            if e[3] not in INT_BITS: self.lost(ln, "cast to `%s`" % e[3])
            v = self.lower(e[2], env, None)
            if v[0] != "int": self.lost(ln, "cast of a non-integer")
            return ("int", e[3], "cast %s (%s)" % (bits_coq(e[3]), v[2]), v[3])
        if k == "field":
            if e[2] == ("path", e[2][1], ["self"]) and e[3] == self.cur["field"] and "self" in env:
                return ("nz", self.cur["ity"], "raw", [])
            self.lost(ln, "field access `.%s`" % e[3])
        if k == "mcall" and e[3] == "map" and len(e[4]) == 1 and e[4][0][0] == "closure" and len(e[4][0][2]) == 1 \
                and isinstance(e[4][0][2][0], str):
            o = self.lower_opt(e[2], env)
            if o[0] != "onz": self.lost(ln, "`.map(..)` on something that is not an Option<NonZero>")
            p = e[4][0][2][0]
            b = self.lower(e[4][0][3], dict(env, **{p: ("nzvar", o[1], "l_" + p)}), None)
            if b[0] != "self" or b[1] != "l_" + p or b[2]: self.lost(ln, "`.map(..)` closure is not `|key| Self { key }`")
            return ("opt", o[2], o[3])
        if k == "mcall":
            if e[3] == "get" and not e[4]:
                r = self.lower(e[2], env, None)
                if r[0] == "nz": return ("int", r[1], r[2], r[3])
            self.lost(ln, "unknown method `.%s(..)`" % e[3])
        if k == "bin":
            return self.lower_bin(e, env, expect)
        if k == "un":
            if e[2] == "!":
                v = self.lower(e[3], env, None)
                if v[0] != "bool": self.lost(ln, "`!` on a non-boolean (bitwise not is outside the subset)")
                return ("bool", "negb (%s)" % v[1], v[2])
            self.lost(ln, "unary operator `%s`" % e[2])
        if k == "if":
            if e[4] is None: self.lost(ln, "`if` without `else` in value position")
            c = self.lower(e[2], env, None)
            if c[0] != "bool": self.lost(ln, "`if` condition is not a comparison")
            a = self.lower(e[3], env, expect); b = self.lower(e[4], env, expect)
            if a[0] != b[0] or (a[0] in ("int", "nz") and a[1] != b[1]): self.lost(ln, "`if` branches of different types")
            val = "if %s then %s else %s" % (c[1], a[-2], b[-2])
            oks = c[2] + ["if %s then %s else %s" % (c[1], conj(a[-1]), conj(b[-1]))] if (conj(a[-1]) != "True" or conj(b[-1]) != "True") else c[2]
            return a[:-2] + (val, oks)
        if k == "call":
            return self.lower_call(e, env, expect)
        if k == "struct":
            names = path_names(e[2])
            if names not in (["Self"], [self.cur["name"]]): self.lost(ln, "struct literal of `%s`" % "::".join(names))
            if len(e[3]) != 1 or e[3][0][0] != self.cur["field"]: self.lost(ln, "struct literal fields")
            v = self.lower(e[3][0][1], env, None)
            if v[0] != "nz" or v[1] != self.cur["ity"]: self.lost(ln, "field `%s` initialised with a non-%s value" % (self.cur["field"], self.cur["nz"]))
            return ("self", v[2], v[3])
        self.lost(ln, "expression form `%s` is outside the subset" % k)

    def lower_bin(self, e, env, expect):
        _, ln, op, ea, eb = e
        if op in ("&&", "||"):
            a = self.lower(ea, env, None); b = self.lower(eb, env, None)
            if a[0] != "bool" or b[0] != "bool": self.lost(ln, "`%s` on non-booleans" % op)
            f = "andb" if op == "&&" else "orb"
            oks = list(a[2])
            if conj(b[2]) != "True":       # short circuit: b's side conditions only when b is evaluated
                guard = a[1] if op == "&&" else "negb (%s)" % a[1]
                oks.append("if %s then %s else True" % (guard, conj(b[2])))
            return ("bool", "%s (%s) (%s)" % (f, a[1], b[1]), oks)
        arith = op in ("+", "-", "*")
        cmp_ = op in ("<", "<=", ">", ">=", "==", "!=")
        if not (arith or cmp_): self.lost(ln, "operator `%s` is outside the subset" % op)
        ta, tb = self.infer(ea, env), self.infer(eb, env)
        if ta and tb and ta != tb: self.lost(ln, "operands of `%s` have different types (%s, %s)" % (op, ta, tb))
        ty = ta or tb or (expect if arith else None)
        if ty not in INT_BITS: self.lost(ln, "cannot determine the integer type of the operands of `%s`" % op)
        a = self.lower(ea, env, ty); b = self.lower(eb, env, ty)
        if a[0] != "int" or b[0] != "int" or a[1] != ty or b[1] != ty:
            self.lost(ln, "operands of `%s` are not both %s" % (op, ty))
        oks = a[3] + b[3]
        A, B = "(%s)" % a[2], "(%s)" % b[2]
        if arith:
            if op == "-":
                return ("int", ty, "%s - %s" % (A, B), oks + ["no_underflow %s %s" % (A, B)])
            return ("int", ty, "%s %s %s" % (A, op, B), oks + ["in_range %s (%s %s %s)" % (bits_coq(ty), A, op, B)])
        form = {"<": "N.ltb %s %s" % (A, B), ">": "N.ltb %s %s" % (B, A), "<=": "N.leb %s %s" % (A, B),
                ">=": "N.leb %s %s" % (B, A), "==": "N.eqb %s %s" % (A, B), "!=": "negb (N.eqb %s %s)" % (A, B)}[op]
        return ("bool", form, oks)

    def lower_call(self, e, env, expect):
        _, ln, f, args = e
        if f[0] != "path": self.lost(ln, "call of a computed function")
        names = path_names(f)
        if names == ["Some"] and len(args) == 1:
            v = self.lower(args[0], env, None)
            if v[0] != "self": self.lost(ln, "`Some(..)` of something that is not the key struct")
            return ("opt", "Some (%s)" % v[1], v[2])
        if len(names) == 2 and names[0] in NONZERO and names[1] == "new_unchecked" and len(args) == 1:
            ity = NONZERO[names[0]]
            v = self.lower(args[0], env, ity)
            if v[0] != "int" or v[1] != ity: self.lost(ln, "%s::new_unchecked of a non-%s value" % (names[0], ity))
            return ("nz", ity, v[2], v[3] + ["nonzero_arg %s (%s)" % (bits_coq(ity), v[2])])
        self.lost(ln, "unknown function `%s`" % "::".join(names))


def emit_keys(res, fname, relname):
    """res: list of lowered impls; returns the text of KeysGen.v"""
    L = []
    w = L.append
    w("(* KeysGen.v -- GENERATED by rust2coq.py from %s.  DO NOT EDIT: regenerated on every run." % fname)
    w("   One pair of definitions per `unsafe impl Key for T` (value + side conditions), written over N with")
    w("   the machine semantics spelled out (see lower_keys.py for the meaning given to each form). *)")
    w("From LassoGen Require Import GenPrelude.")
    w("Open Scope N_scope.")
    w("")
    w("(* TRANSLATOR ASSUMPTION: the target's usize has 64 bits. *)")
    w("Definition usize_bits : N := 64.")
    w("")
    names = []
    for r in res:
        T = r["name"]
        w("(* ---- unsafe impl Key for %s   %s:%d-%d   (field `%s: %s`) ---- *)" % (T, relname, r["lines"][0], r["lines"][1], r["field"], r["nz"]))
        val, ok, (l0, l1) = r["into"]
        w("(* %s:%d-%d  fn into_usize(self) -> usize;  raw = self.%s.get() *)" % (relname, l0, l1, r["field"]))
        w("Definition gen_%s_into_usize (raw : N) : N :=\n  %s." % (T, val))
        w("Definition gen_%s_into_usize_ok (raw : N) : Prop :=\n  %s." % (T, ok))
        par, val, ok, (l0, l1) = r["tryfrom"]
        w("(* %s:%d-%d  fn try_from_usize(%s: usize) -> Option<Self>;  result = raw value of the key *)" % (relname, l0, l1, par))
        w("Definition gen_%s_try_from_usize (%s : N) : option N :=\n  %s." % (T, par, val))
        w("Definition gen_%s_try_from_usize_ok (%s : N) : Prop :=\n  %s." % (T, par, ok))
        w("")
        names += ["gen_%s_into_usize" % T, "gen_%s_into_usize_ok" % T, "gen_%s_try_from_usize" % T, "gen_%s_try_from_usize_ok" % T]
    # deterministic order: by decreasing width, then name (so that reordering the impl blocks changes nothing)
    kt = sorted(((r["name"], INT_BITS[r["ity"]]) for r in res), key=lambda p: (-p[1], p[0]))
    w("(* the key types found, with the width of their NonZero field (sorted by decreasing width, then name) *)")
    w("Definition key_types : list (string * N) :=\n  [%s]%%string." % "; ".join('("%s", %d)' % p for p in kt))
    w("")
    w("Create HintDb keysgen discriminated.")
    w("#[global] Hint Unfold usize_bits %s : keysgen." % " ".join(names))
    return "\n".join(L) + "\n"


def _lower_opt(self, e, env):
    """Option-valued expressions: ('oint', ty, coq, oks) | ('onz', ty, coq, oks)"""
    while e[0] == "paren": e = e[2]
    k, ln = e[0], e[1]
    if k == "mcall" and e[3] == "ok" and not e[4]:
        c = e[2]
        while c[0] == "paren": c = c[2]
        if c[0] == "call" and c[2][0] == "path" and len(c[3]) == 1:
            n = path_names(c[2])
            if len(n) == 2 and n[0] in INT_BITS and n[1] == "try_from":
                v = self.lower(c[3][0], env, None)
                if v[0] != "int": self.lost(ln, "try_from of a non-integer")
                return ("oint", n[0], "try_from_int %s (%s)" % (bits_coq(n[0]), v[2]), v[3])
        self.lost(ln, "`.ok()` on something that is not uN::try_from(e)")
    if k == "mcall" and e[3] == "checked_add" and len(e[4]) == 1:
        r = e[2]
        while r[0] == "paren": r = r[2]
        if r[0] == "try":
            o = _lower_opt(self, r[2], env)
            if o[0] != "oint": self.lost(ln, "checked_add on a non-integer")
            b = self.lower(e[4][0], env, o[1])
            if b[0] != "int" or b[1] != o[1] or b[3]: self.lost(ln, "checked_add argument is not a pure %s" % o[1])
            return ("oint", o[1], "obind (%s) (fun v_ => checked_add %s v_ (%s))" % (o[2], bits_coq(o[1]), b[2]), o[3])
        a = self.lower(r, env, None)
        if a[0] != "int": self.lost(ln, "checked_add on a non-integer")
        b = self.lower(e[4][0], env, a[1])
        if b[0] != "int" or b[1] != a[1] or b[3]: self.lost(ln, "checked_add argument is not a pure %s" % a[1])
        return ("oint", a[1], "checked_add %s (%s) (%s)" % (bits_coq(a[1]), a[2], b[2]), a[3])
    if k == "mcall" and e[3] == "and_then" and len(e[4]) == 1:
        o = _lower_opt(self, e[2], env)
        if o[0] != "oint": self.lost(ln, "and_then on something that is not an Option of an integer")
        f = e[4][0]
        while f[0] == "paren": f = f[2]
        nzname = None
        if f[0] == "path" and len(path_names(f)) == 2 and path_names(f)[1] == "new": nzname = path_names(f)[0]
        if f[0] == "closure" and len(f[2]) == 1 and isinstance(f[2][0], str):
            c = f[3]
            if c[0] == "call" and c[2][0] == "path" and len(path_names(c[2])) == 2 and path_names(c[2])[1] == "new" and len(c[3]) == 1 \
                    and c[3][0] == ("path", c[3][0][1], [f[2][0]]):
                nzname = path_names(c[2])[0]
        if nzname not in NONZERO or NONZERO[nzname] != o[1]: self.lost(ln, "and_then argument is not NonZero%s::new" % o[1].upper())
        return ("onz", o[1], "obind (%s) nz_new" % o[2], o[3])
    if k == "call" and e[2][0] == "path" and len(e[3]) == 1:
        n = path_names(e[2])
        if len(n) == 2 and n[0] in NONZERO and n[1] == "new":
            v = self.lower(e[3][0], env, NONZERO[n[0]])
            if v[0] != "int" or v[1] != NONZERO[n[0]]: self.lost(ln, "%s::new of a non-%s value" % (n[0], NONZERO[n[0]]))
            return ("onz", v[1], "nz_new (%s)" % v[2], v[3])
    self.lost(ln, "Option-valued expression form `%s` is outside the subset" % k)


KeyLowering.lower_opt = _lower_opt
