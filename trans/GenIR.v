(* GenIR.v -- HAND-WRITTEN, fixed.  A small deep embedding of the statement forms that occur in lasso's
   arena code (src/arenas/bucket.rs, single_threaded.rs), with an interpreter over the model's state
   (Lasso.Arena) and a collector of side conditions.  rust2coq.py emits TERMS of this language
   (ArenaGen.v); nothing in this file depends on the source text.

   Reading of the machine:
     * every number is a usize; `+`, `*` yield the mathematical result and contribute the obligation
       "<= usize_max" (debug builds panic, release builds wrap otherwise); `-` contributes "no underflow";
       `saturating_sub` is N's truncated subtraction and contributes nothing;
     * NonZeroUsize::new_unchecked(e) contributes e <> 0 (otherwise undefined behaviour);
     * debug_assert!(c) contributes c = true;
     * memory is abstract: a bucket is a Lasso.Arena.block, the raw copy is Base.bwrite, and the copy
       contributes "destination range inside the allocation" -- the memory-safety obligation;
     * the global allocator never fails; Bucket::with_capacity(cap)? continues iff cap <= isize::MAX (wc_spec);
     * a callee is replaced by its SPECIFICATION (alloc_spec, free_spec, Arena.push_slice,
       wc_spec, Arena.block_clear) and contributes the specification's PRECONDITION as an
       obligation of the call site; that each callee's generated body meets its specification under
       that precondition is a separate theorem of ArenaGenProofs.v.
   The interpreter returns [None]/[OStuck] for an ill-formed program (unbound name, wrong kind). *)
From Lasso Require Import Base Arena.
From LassoGen Require Import GenPrelude.
Open Scope N_scope.

Arguments slen : simpl never.
Arguments insert_at : simpl never.
Arguments set_last : simpl never.
Arguments last_opt : simpl never.
Arguments fresh_block : simpl never.
Arguments bwrite : simpl never.

(* the generated files register their definitions here, for [autounfold] *)
Create HintDb arenagen discriminated.

(* ---------------- syntax ---------------- *)

Inductive field :=
| FUsage | FMaxMem | FBucketCap | FBucketsLen      (* Arena: memory_usage, max_memory_usage, bucket_capacity.get(), buckets.len() *)
| FIndex | FCapacity                               (* Bucket: index, capacity.get() *)
| FStringsLen.                                     (* Rodeo: strings.len() *)

Inductive expr :=
| EConst (n : N)
| EVar (x : string)
| EField (f : field)
| EStrLen                                          (* string.len() / slice.len() of the string argument *)
| EAdd (a b : expr) | ESub (a b : expr) | EMul (a b : expr) | ESatSub (a b : expr)
| EFreeOf (x : string).                            (* x.free_elements() of a bucket variable *)

Inductive bexpr :=
| BTrue | BFalse
| BLt (a b : expr) | BLe (a b : expr) | BEq (a b : expr)
| BNot (c : bexpr) | BAnd (c d : bexpr) | BOr (c d : bexpr)
| BStrEmpty                                        (* string.is_empty() *)
| BSelfIsFull.                                     (* self.is_full() inside Bucket *)

(* a NonZeroUsize-valued expression *)
Inductive nzexpr :=
| NZUnchecked (e : expr)                           (* NonZeroUsize::new_unchecked(e) *)
| NZNewOrErr (e : expr) (k : err)                  (* NonZeroUsize::new(e).ok_or_else(|| LassoError::new(k))? *)
| NZField (f : field)                              (* self.bucket_capacity / self.capacity *)
| NZVar (x : string).                              (* a NonZeroUsize parameter *)

Inductive rexpr :=
| RUnit                                            (* () and Ok(()) *)
| ROkEmptyStr                                      (* Ok("") *)
| ROkRef (x : string)                              (* Ok(x), x bound by a push_slice *)
| RErr (k : err)                                   (* Err(LassoError::new(LassoErrorKind::k)) *)
| RNum (e : expr)
| RBool (c : bexpr)
| RUtf8 (t : string)                               (* core::str::from_utf8_unchecked(t), t a raw slice *)
| RNone | RSome (e : expr)                         (* the Option<usize> of a fetch_update closure *)
| ROkNum (e : expr) | RErrUnit.                    (* Ok(e) / Err(()) of try_inc_length: Result<usize, ()> *)

Inductive stmt :=
| SSkip
| SSeq (p q : stmt)
| SLet (x : string) (e : expr)
| SAssert (c : bexpr)                              (* debug_assert!(c) *)
| SIf (c : bexpr) (t e : stmt)
| SReturn (r : rexpr)
| SSetField (f : field) (e : expr)                 (* self.f = e   (also  self.f += e  as  self.f = self.f + e) *)
| SSetFieldNZ (f : field) (z : nzexpr)             (* self.bucket_capacity = z *)
(* Arena level *)
| SAllocQ (e : expr)                               (* self.allocate_memory(e)?; *)
| SLetNZ (x : string) (z : nzexpr)                 (* let x = <NonZeroUsize value>; *)
| SNewBucketQ (x : string) (z : nzexpr)            (* let mut x = Bucket::with_capacity(z)?; *)
| SPushSlice (r x : string)                        (* let r = unsafe { x.push_slice(slice) }; *)
| SVecPush (x : string)                            (* self.buckets.push(x); *)
| SVecInsert (i : expr) (x : string)               (* self.buckets.insert(i, x); *)
| SIfLastFilter (p : string) (c : bexpr) (b : string) (t e : stmt)
     (* if let Some(b) = self.buckets.last_mut().filter(|p| c) { t } else { e } *)
| SForEachBucketClear                              (* for b in &mut self.buckets { b.clear(); } *)
(* Bucket level *)
| SLetPtrAdd (p : string) (e : expr)               (* let p = self.items.as_ptr().add(e); *)
| SLetRawSlice (t p : string) (e : expr)           (* let t = slice::from_raw_parts_mut(p, e); *)
| SCopyFromSlice (t : string).                     (* t.copy_from_slice(slice); *)

Record fundef := mkFun { fd_params : list string; fd_body : stmt }.

(* Arena::new:  Ok(Self { buckets: vec![Bucket::with_capacity(z)?, ..], bucket_capacity, memory_usage, max_memory_usage }) *)
Record newdef := mkNew { nd_params : list string; nd_buckets : list nzexpr; nd_cap : nzexpr; nd_usage : expr; nd_limit : expr }.

(* Bucket::with_capacity: the allocation size expression and  Ok(Self { index, capacity, items }) *)
(*   LayoutChecked k:    Layout::from_size_align(size, 1).map_err(|_| LassoError::new(k))?     (Err k iff size > isize::MAX)
     LayoutUnchecked a:  Layout::from_size_align_unchecked(size, 1), optionally preceded by the debug_assert on
                         from_size_align(a, 1).is_ok()   (the form before commit 784e567; obligation size <= isize::MAX) *)
Inductive layout_kind := LayoutChecked (k : err) | LayoutUnchecked (asserted : option expr).
Record wcdef := mkWc { wc_param : string; wc_layout : layout_kind; wc_size : expr; wc_index : expr; wc_capacity : nzexpr }.

(* ---------------- values with collected obligations ---------------- *)

Definition M (A : Type) : Type := option (A * Prop).
Definition ret {A} (a : A) : M A := Some (a, True).
Definition bind {A B} (m : M A) (f : A -> M B) : M B :=
  match m with
  | None => None
  | Some (a, p) => match f a with None => None | Some (b, q) => Some (b, p /\ q) end
  end.
Definition need (P : Prop) : M unit := Some (tt, P).
Definition lift {A} (o : option A) : M A := match o with Some a => ret a | None => None end.

Fixpoint lookup {A} (x : string) (l : list (string * A)) : option A :=
  match l with
  | [] => None
  | (y, v) :: t => if String.eqb x y then Some v else lookup x t
  end.

Fixpoint update {A} (x : string) (v : A) (l : list (string * A)) : list (string * A) :=
  match l with
  | [] => []
  | (y, w) :: t => if String.eqb x y then (y, v) :: t else (y, w) :: update x v t
  end.

(* leave a scope: keep the [n] oldest entries *)
Fixpoint keep_last {A} (n : nat) (l : list A) : list A :=
  if Nat.leb (List.length l) n then l else match l with [] => [] | _ :: t => keep_last n t end.

(* evaluation context: how `self`, the locals and the string argument are read *)
Record ectx := mkEctx {
  cx_field : field -> option N;
  cx_var : string -> option N;
  cx_strlen : N;
  cx_strempty : bool;
  cx_free : string -> M N;
  cx_isfull : option bool }.

Fixpoint eval (cx : ectx) (e : expr) : M N :=
  match e with
  | EConst n => ret n
  | EVar x => lift (cx_var cx x)
  | EField f => lift (cx_field cx f)
  | EStrLen => ret (cx_strlen cx)
  | EAdd a b => bind (eval cx a) (fun x => bind (eval cx b) (fun y =>
                  bind (need (x + y <= usize_max)) (fun _ => ret (x + y))))
  | EMul a b => bind (eval cx a) (fun x => bind (eval cx b) (fun y =>
                  bind (need (x * y <= usize_max)) (fun _ => ret (x * y))))
  | ESub a b => bind (eval cx a) (fun x => bind (eval cx b) (fun y =>
                  bind (need (y <= x)) (fun _ => ret (x - y))))
  | ESatSub a b => bind (eval cx a) (fun x => bind (eval cx b) (fun y => ret (x - y)))
  | EFreeOf x => cx_free cx x
  end.

Fixpoint evalb (cx : ectx) (c : bexpr) : M bool :=
  match c with
  | BTrue => ret true
  | BFalse => ret false
  | BLt a b => bind (eval cx a) (fun x => bind (eval cx b) (fun y => ret (x <? y)))
  | BLe a b => bind (eval cx a) (fun x => bind (eval cx b) (fun y => ret (x <=? y)))
  | BEq a b => bind (eval cx a) (fun x => bind (eval cx b) (fun y => ret (x =? y)))
  | BNot c => bind (evalb cx c) (fun v => ret (negb v))
  | BAnd c d => bind (evalb cx c) (fun v => if v then evalb cx d else ret false)     (* short circuit *)
  | BOr c d => bind (evalb cx c) (fun v => if v then ret true else evalb cx d)
  | BStrEmpty => ret (cx_strempty cx)
  | BSelfIsFull => lift (cx_isfull cx)
  end.

(* the value of a NonZeroUsize expression, or the error its `?` returns *)
Definition eval_nz (cx : ectx) (z : nzexpr) : M (N + err) :=
  match z with
  | NZUnchecked e => bind (eval cx e) (fun n => bind (need (n <> 0)) (fun _ => ret (inl n)))
  | NZNewOrErr e k => bind (eval cx e) (fun n => ret (if n =? 0 then inr k else inl n))
  | NZField f => bind (lift (cx_field cx f)) (fun n => ret (inl n))
  | NZVar x => bind (lift (cx_var cx x)) (fun n => ret (inl n))
  end.

(* ---------------- specifications of the callees ---------------- *)

(* Arena::allocate_memory(n): the budget check and the bookkeeping *)
Definition alloc_spec (a : arena) (n : N) : arena * res unit :=
  if limit a <? usage a + n then (a, Err MemoryLimitReached)
  else (mkArena (blocks a) (bucket_cap a) (usage a + n) (limit a) (next_bid a), Ok tt).
Definition alloc_pre (a : arena) (n : N) : Prop := usage a + n <= usize_max.

(* Bucket::free_elements *)
Definition free_spec (b : block) : N := bcap b - bused b.
Definition free_pre (b : block) : Prop := bused b <= bcap b.

(* Bucket::push_slice = Arena.push_slice; its precondition: the bytes fit behind the bump index, the
   block's memory is what its capacity says, and the capacity is a usize *)
Definition push_pre (b : block) (s : str) : Prop :=
  0 < slen s /\ bused b + slen s <= bcap b /\ N.of_nat (List.length (bdata b)) = bcap b /\ bcap b <= usize_max.

(* Bucket::is_full *)
Definition is_full_spec (b : block) : bool := bused b =? bcap b.

(* Bucket::with_capacity(cap): a Layout of cap bytes (align 1) exists iff cap <= isize::MAX (Base.isize_max);
   otherwise Err(FailedAllocation).  The global allocator itself is assumed not to fail.  [id] is the model's
   fresh block identity.  Precondition: cap is a NonZeroUsize. *)
Definition wc_spec (id cap : N) : res block :=
  if cap <=? isize_max then Ok (fresh_block id cap) else Err FailedAllocation.
Definition wc_pre (cap : N) : Prop := 0 < cap /\ cap <= usize_max.

(* ---------------- Arena-level interpreter ---------------- *)

Inductive bkval := BkOwned (b : block) | BkLast | BkMoved.

(* NB: the interpreters take the state apart by pattern matching and rebuild it from the parts (never from
   projections of the whole): symbolic evaluation by [cbn] then stays linear in the length of the program. *)
Record state := mkState {
  st_arena : arena;
  st_nums : list (string * N);
  st_bks : list (string * bkval);
  st_refs : list (string * sref);
  st_ok : Prop }.

Inductive retval :=
| RVUnit | RVNum (n : N) | RVBool (b : bool) | RVRef (r : sref) | RVErr (k : err) | RVOpt (o : option N)
| RVErrUnit.
Inductive outcome := ONormal (st : state) | OReturn (a : arena) (v : retval) (ok : Prop) | OStuck.

Definition block_of (a : arena) (bks : list (string * bkval)) (x : string) : option block :=
  match lookup x bks with
  | Some (BkOwned b) => Some b
  | Some BkLast => last_opt (blocks a)
  | _ => None
  end.

Definition str_empty (s : str) : bool := match s with [] => true | _ => false end.

Definition arena_cx (s : str) (a : arena) (nums : list (string * N)) (bks : list (string * bkval)) : ectx :=
  mkEctx (fun f => match f with
                   | FUsage => Some (usage a) | FMaxMem => Some (limit a)
                   | FBucketCap => Some (bucket_cap a)
                   | FBucketsLen => Some (N.of_nat (List.length (blocks a)))
                   | _ => None end)
         (fun x => lookup x nums)
         (slen s) (str_empty s)
         (fun x => match block_of a bks x with
                   | Some b => Some (free_spec b, free_pre b)
                   | None => None end)
         None.

(* leaving the scope of a branch: the names it introduced are dropped *)
Definition leave_scope (n1 n2 n3 : nat) (o : outcome) : outcome :=
  match o with
  | ONormal (mkState a nums bks refs ok) =>
      ONormal (mkState a (keep_last n1 nums) (keep_last n2 bks) (keep_last n3 refs) ok)
  | o => o
  end.

Definition set_field (a : arena) (f : field) (n : N) : option arena :=
  match f with
  | FUsage => Some (mkArena (blocks a) (bucket_cap a) n (limit a) (next_bid a))
  | FMaxMem => Some (mkArena (blocks a) (bucket_cap a) (usage a) n (next_bid a))
  | _ => None
  end.

Definition with_blocks (a : arena) (bs : list block) : arena :=
  mkArena bs (bucket_cap a) (usage a) (limit a) (next_bid a).

Definition eval_ret (cx : ectx) (refs : list (string * sref)) (r : rexpr) : M retval :=
  match r with
  | RUnit => ret RVUnit
  | ROkEmptyStr => ret (RVRef REmpty)
  | ROkRef x => bind (lift (lookup x refs)) (fun v => ret (RVRef v))
  | RErr k => ret (RVErr k)
  | RNum e => bind (eval cx e) (fun n => ret (RVNum n))
  | RBool c => bind (evalb cx c) (fun b => ret (RVBool b))
  | RUtf8 _ => None
  | RNone => ret (RVOpt None)
  | RSome e => bind (eval cx e) (fun n => ret (RVOpt (Some n)))
  | ROkNum e => bind (eval cx e) (fun n => ret (RVNum n))
  | RErrUnit => ret RVErrUnit
  end.

Fixpoint exec (s : str) (p : stmt) (st : state) : outcome :=
  let '(mkState a nums bks refs ok) := st in
  let cx := arena_cx s a nums bks in
  match p with
  | SSkip => ONormal (mkState a nums bks refs ok)
  | SSeq p q => match exec s p (mkState a nums bks refs ok) with ONormal st' => exec s q st' | o => o end
  | SLet x e =>
      match eval cx e with
      | Some (n, q) => ONormal (mkState a ((x, n) :: nums) bks refs (ok /\ q))
      | None => OStuck end
  | SAssert c =>
      match evalb cx c with
      | Some (v, q) => ONormal (mkState a nums bks refs (ok /\ q /\ v = true))
      | None => OStuck end
  | SIf c t e =>
      match evalb cx c with
      | Some (v, q) =>
          leave_scope (List.length nums) (List.length bks) (List.length refs)
            (if v then exec s t (mkState a nums bks refs (ok /\ q)) else exec s e (mkState a nums bks refs (ok /\ q)))
      | None => OStuck end
  | SReturn r =>
      match eval_ret cx refs r with
      | Some (v, q) => OReturn a v (ok /\ q)
      | None => OStuck end
  | SSetField f e =>
      match eval cx e with
      | Some (n, q) => match set_field a f n with
                       | Some a' => ONormal (mkState a' nums bks refs (ok /\ q))
                       | None => OStuck end
      | None => OStuck end
  | SSetFieldNZ f z =>
      match f, eval_nz cx z with
      | FBucketCap, Some (inl n, q) =>
          ONormal (mkState (mkArena (blocks a) n (usage a) (limit a) (next_bid a)) nums bks refs (ok /\ q))
      | FBucketCap, Some (inr k, q) => OReturn a (RVErr k) (ok /\ q)
      | _, _ => OStuck end
  | SAllocQ e =>
      match eval cx e with
      | Some (n, q) =>
          match alloc_spec a n with
          | (a', Ok _) => ONormal (mkState a' nums bks refs (ok /\ q /\ alloc_pre a n))
          | (a', Err k) => OReturn a' (RVErr k) (ok /\ q /\ alloc_pre a n)
          end
      | None => OStuck end
  | SLetNZ x z =>
      match eval_nz cx z with
      | Some (inl n, q) => ONormal (mkState a ((x, n) :: nums) bks refs (ok /\ q))
      | Some (inr k, q) => OReturn a (RVErr k) (ok /\ q)
      | None => OStuck end
  | SNewBucketQ x z =>
      match eval_nz cx z with
      | Some (inl cap, q) =>
          match wc_spec (next_bid a) cap with
          | Ok b => ONormal (mkState (mkArena (blocks a) (bucket_cap a) (usage a) (limit a) (next_bid a + 1))
                                     nums ((x, BkOwned b) :: bks) refs (ok /\ q /\ wc_pre cap))
          | Err k => OReturn a (RVErr k) (ok /\ q /\ wc_pre cap)     (* `?`: nothing was allocated *)
          end
      | Some (inr k, q) => OReturn a (RVErr k) (ok /\ q)
      | None => OStuck end
  | SPushSlice r x =>
      match lookup x bks with
      | Some (BkOwned b) =>
          let (b', rf) := push_slice b s in
          ONormal (mkState a nums (update x (BkOwned b') bks) ((r, rf) :: refs) (ok /\ push_pre b s))
      | Some BkLast =>
          match last_opt (blocks a) with
          | Some b =>
              let (b', rf) := push_slice b s in
              ONormal (mkState (with_blocks a (set_last b' (blocks a))) nums bks ((r, rf) :: refs)
                               (ok /\ push_pre b s))
          | None => OStuck end
      | _ => OStuck end
  | SVecPush x =>
      match lookup x bks with
      | Some (BkOwned b) =>
          ONormal (mkState (with_blocks a (blocks a ++ [b])) nums (update x BkMoved bks) refs ok)
      | _ => OStuck end
  | SVecInsert i x =>
      match eval cx i, lookup x bks with
      | Some (n, q), Some (BkOwned b) =>     (* Vec::insert panics if n > len *)
          ONormal (mkState (with_blocks a (insert_at (N.to_nat n) b (blocks a))) nums (update x BkMoved bks) refs
                           (ok /\ q /\ n <= N.of_nat (List.length (blocks a))))
      | _, _ => OStuck end
  | SIfLastFilter pn c bn t e =>
      match last_opt (blocks a) with
      | None => leave_scope (List.length nums) (List.length bks) (List.length refs)
                  (exec s e (mkState a nums bks refs ok))
      | Some _ =>
          match evalb (arena_cx s a nums ((pn, BkLast) :: bks)) c with
          | Some (v, q) =>
              leave_scope (List.length nums) (List.length bks) (List.length refs)
                (if v then exec s t (mkState a nums ((bn, BkLast) :: bks) refs (ok /\ q))
                 else exec s e (mkState a nums bks refs (ok /\ q)))
          | None => OStuck end
      end
  | SForEachBucketClear => ONormal (mkState (with_blocks a (map block_clear (blocks a))) nums bks refs ok)
  | SLetPtrAdd _ _ | SLetRawSlice _ _ _ | SCopyFromSlice _ => OStuck
  end.

Definition init_state (a : arena) (nums : list (string * N)) : state := mkState a nums [] [] True.

Fixpoint zip_args (ps : list string) (vs : list N) : option (list (string * N)) :=
  match ps, vs with
  | [], [] => Some []
  | p :: ps, v :: vs => match zip_args ps vs with Some l => Some ((p, v) :: l) | None => None end
  | _, _ => None
  end.

(* run a function of Arena on arguments; [s] is the string argument where there is one *)
Definition run_fun (fd : fundef) (a : arena) (s : str) (args : list N) : option (arena * retval) * Prop :=
  match zip_args (fd_params fd) args with
  | Some nums =>
      match exec s (fd_body fd) (init_state a nums) with
      | OReturn a' v ok => (Some (a', v), ok)
      | _ => (None, False)
      end
  | None => (None, False)
  end.

(* store_str: LassoResult<&'static str> *)
Definition as_str_result (o : option (arena * retval)) : option (arena * res sref) :=
  match o with
  | Some (a, RVRef r) => Some (a, Ok r)
  | Some (a, RVErr k) => Some (a, Err k)
  | _ => None
  end.
(* allocate_memory: LassoResult<()> *)
Definition as_unit_result (o : option (arena * retval)) : option (arena * res unit) :=
  match o with
  | Some (a, RVUnit) => Some (a, Ok tt)
  | Some (a, RVErr k) => Some (a, Err k)
  | _ => None
  end.
Definition as_unit (o : option (arena * retval)) : option arena :=
  match o with Some (a, RVUnit) => Some a | _ => None end.
Definition as_num (o : option (arena * retval)) : option (arena * N) :=
  match o with Some (a, RVNum n) => Some (a, n) | _ => None end.

(* ---------------- Bucket-level interpreter ---------------- *)

Record bstate := mkB {
  b_blk : block;
  b_nums : list (string * N);
  b_ptrs : list (string * N);            (* raw pointers into the bucket's memory: offsets from `items` *)
  b_slices : list (string * (N * N));    (* raw slices: offset, length *)
  b_ok : Prop }.

Inductive boutcome := BNormal (st : bstate) | BReturn (b : block) (v : retval) (ok : Prop) | BStuck.

Definition block_cx (s : str) (b : block) (nums : list (string * N)) : ectx :=
  mkEctx (fun f => match f with FIndex => Some (bused b) | FCapacity => Some (bcap b) | _ => None end)
         (fun x => lookup x nums) (slen s) (str_empty s) (fun _ => None) (Some (is_full_spec b)).

Definition bleave_scope (n1 n2 n3 : nat) (o : boutcome) : boutcome :=
  match o with
  | BNormal (mkB b nums ptrs slices ok) =>
      BNormal (mkB b (keep_last n1 nums) (keep_last n2 ptrs) (keep_last n3 slices) ok)
  | o => o
  end.

(* the size of the allocation behind `items` *)
Definition alloc_size (b : block) : N := N.of_nat (List.length (bdata b)).

Fixpoint execb (s : str) (p : stmt) (st : bstate) : boutcome :=
  let '(mkB b nums ptrs slices ok) := st in
  let cx := block_cx s b nums in
  match p with
  | SSkip => BNormal (mkB b nums ptrs slices ok)
  | SSeq p q => match execb s p (mkB b nums ptrs slices ok) with BNormal st' => execb s q st' | o => o end
  | SLet x e =>
      match eval cx e with
      | Some (n, q) => BNormal (mkB b ((x, n) :: nums) ptrs slices (ok /\ q))
      | None => BStuck end
  | SAssert c =>
      match evalb cx c with
      | Some (v, q) => BNormal (mkB b nums ptrs slices (ok /\ q /\ v = true))
      | None => BStuck end
  | SIf c t e =>
      match evalb cx c with
      | Some (v, q) =>
          bleave_scope (List.length nums) (List.length ptrs) (List.length slices)
            (if v then execb s t (mkB b nums ptrs slices (ok /\ q)) else execb s e (mkB b nums ptrs slices (ok /\ q)))
      | None => BStuck end
  | SReturn (RUtf8 t) =>
      match lookup t slices with
      | Some (off, len) => BReturn b (RVRef (RArena (bid b) off len)) ok
      | None => BStuck end
  | SReturn r =>
      match eval_ret cx [] r with
      | Some (v, q) => BReturn b v (ok /\ q)
      | None => BStuck end
  | SSetField FIndex e =>
      match eval cx e with
      | Some (n, q) => BNormal (mkB (mkBlock (bid b) (bcap b) n (bdata b)) nums ptrs slices (ok /\ q))
      | None => BStuck end
  | SLetPtrAdd pn e =>      (* ptr.add(e) must stay inside the allocation (one past the end allowed) *)
      match eval cx e with
      | Some (n, q) => BNormal (mkB b nums ((pn, n) :: ptrs) slices (ok /\ q /\ n <= alloc_size b))
      | None => BStuck end
  | SLetRawSlice t pn e =>  (* from_raw_parts_mut(p, e): the e bytes at p must lie inside the allocation *)
      match lookup pn ptrs, eval cx e with
      | Some off, Some (len, q) =>
          BNormal (mkB b nums ptrs ((t, (off, len)) :: slices) (ok /\ q /\ off + len <= alloc_size b))
      | _, _ => BStuck end
  | SCopyFromSlice t =>     (* copy_from_slice panics unless the lengths agree *)
      match lookup t slices with
      | Some (off, len) =>
          BNormal (mkB (mkBlock (bid b) (bcap b) (bused b) (bwrite (bdata b) (N.to_nat off) s))
                       nums ptrs slices (ok /\ len = slen s /\ off + len <= alloc_size b))
      | None => BStuck end
  | _ => BStuck
  end.

Definition run_bfun (fd : fundef) (b : block) (s : str) (args : list N) : option (block * retval) * Prop :=
  match zip_args (fd_params fd) args with
  | Some nums =>
      match execb s (fd_body fd) (mkB b nums [] [] True) with
      | BReturn b' v ok => (Some (b', v), ok)
      | _ => (None, False)
      end
  | None => (None, False)
  end.

Definition as_bnum (o : option (block * retval)) : option (block * N) :=
  match o with Some (b, RVNum n) => Some (b, n) | _ => None end.
Definition as_bbool (o : option (block * retval)) : option (block * bool) :=
  match o with Some (b, RVBool v) => Some (b, v) | _ => None end.
Definition as_bunit (o : option (block * retval)) : option block :=
  match o with Some (b, RVUnit) => Some b | _ => None end.
Definition as_bref (o : option (block * retval)) : option (block * sref) :=
  match o with Some (b, RVRef r) => Some (b, r) | _ => None end.

(* ---------------- constructors ---------------- *)

Definition plain_cx (nums : list (string * N)) : ectx :=
  mkEctx (fun _ => None) (fun x => lookup x nums) 0 true (fun _ => None) None.

(* Bucket::with_capacity(cap): a Layout of wc_size bytes (align 1), then the fields index/capacity as written *)
Definition run_wc (w : wcdef) (id cap : N) : option (res block) * Prop :=
  let cx := plain_cx [(wc_param w, cap)] in
  match eval cx (wc_size w), eval cx (wc_index w), eval_nz cx (wc_capacity w) with
  | Some (size, q1), Some (idx, q2), Some (inl c, q3) =>
      let blk := mkBlock id c idx (repeat 0 (N.to_nat size)) in
      match wc_layout w with
      | LayoutChecked k =>
          if size <=? isize_max then (Some (Ok blk), q1 /\ q2 /\ q3) else (Some (Err k), q1)
      | LayoutUnchecked asserted =>
          let dbg := match asserted with
                     | Some e => match eval cx e with Some (n, q) => q /\ n <= isize_max | None => False end
                     | None => True end in
          (Some (Ok blk), q1 /\ q2 /\ q3 /\ size <= isize_max /\ dbg)
      end
  | _, _, _ => (None, False)
  end.

(* Arena::new: the buckets of the vec![..] in order (each by wc_spec; the first refusal is returned by `?`) *)
Fixpoint new_buckets (cx : ectx) (id : N) (zs : list nzexpr) : option (res (list block) * Prop) :=
  match zs with
  | [] => Some (Ok [], True)
  | z :: t =>
      match eval_nz cx z with
      | Some (inl cap, q) =>
          match wc_spec id cap with
          | Err k => Some (Err k, q /\ wc_pre cap)
          | Ok b => match new_buckets cx (id + 1) t with
                    | Some (Ok bs, q') => Some (Ok (b :: bs), q /\ wc_pre cap /\ q')
                    | Some (Err k, q') => Some (Err k, q /\ wc_pre cap /\ q')
                    | None => None end
          end
      | _ => None
      end
  end.

Definition run_new (nd : newdef) (args : list N) : option (res arena) * Prop :=
  match zip_args (nd_params nd) args with
  | Some nums =>
      let cx := plain_cx nums in
      match new_buckets cx 0 (nd_buckets nd), eval_nz cx (nd_cap nd), eval cx (nd_usage nd), eval cx (nd_limit nd) with
      | Some (Err k, q0), _, _, _ => (Some (Err k), q0)
      | Some (Ok bs, q0), Some (inl c, q1), Some (u, q2), Some (l, q3) =>
          (Some (Ok (mkArena bs c u l (N.of_nat (List.length bs)))), q0 /\ q1 /\ q2 /\ q3)
      | _, _, _, _ => (None, False)
      end
  | None => (None, False)
  end.

(* a block of statements *)
Definition block_of_list (l : list stmt) : stmt := fold_right SSeq SSkip l.

(* ---------------- the domain on which obligations are discharged ---------------- *)

(* every usize-typed field holds a usize *)
Definition arena_typed (a : arena) : Prop :=
  usage a <= usize_max /\ limit a <= usize_max /\ bucket_cap a <= usize_max /\
  Forall (fun b => bcap b <= usize_max) (blocks a).

(* the domain of store_str's obligations: usage + 2*cap and usage + len are computed in usize *)
Definition store_dom (a : arena) (s : str) : Prop :=
  usage a + 2 * bucket_cap a <= usize_max /\ usage a + slen s <= usize_max.

Lemma last_opt_In {A} (l : list A) b : last_opt l = Some b -> In b l.
Proof.
  induction l as [|x l IH]; [discriminate|]. destruct l as [|y l].
  - cbn. intros H; inversion H; auto.
  - intros H. right. apply IH. exact H.
Qed.
