(* GenIRThreaded.v -- HAND-WRITTEN, fixed.  IR and interpreter for src/threaded_rodeo.rs (ThreadedRodeo<K, S>) in the
   ONE-THREAD view, over the model state Lasso.Rodeo.trodeo.  rust2coq.py emits terms of this language (ThreadedGen.v).

   PRIMITIVES (DashMap / hashbrown by contract, as in Rodeo.v; one thread, so every lock is free and nothing changes
   between two operations; memory orderings ignored; verif_point!(..) is nothing):
     * `self.map.get(s)`, `shard.find_or_find_insert_slot(h, |(k, _)| *k == s, |(k, _)| <map hasher>.hash_one(k))` on
       the write-locked shard of h, and `self.map.entry(s)`: all three are the lookup by string CONTENT, Rodeo.t_get;
     * `shard.insert_in_slot(h, slot, (string, SharedValue::new(key)))` with the slot of the failed find on the same
       locked shard, and `vacant.insert(key)`: append (string, key) to tmap;
     * `self.strings.insert(key, string)` = Rodeo.strs_insert; `self.strings.get(key)` = Rodeo.t_ref;
       `self.strings.len()` = t_len;
     * `self.key.fetch_add(1, _)` returns tkey and increments it; `K::try_from_usize(i)` = try_key keycap i.
   CALLEES BY SPECIFICATION: `self.arena.store_str(s)?` = Arena.lf_store (LockfreeGenProofs.gen_lf_store_str_eq_exact, on
   its domain); set_max_memory_usage / current_memory_usage / get_max_memory_usage = set_limit / usage / limit
   (gen_lf_set_max_memory_usage_eq, gen_lf_current_memory_usage_eq, gen_lf_get_max_memory_usage_eq). *)
From Lasso Require Import Base Arena Rodeo.
From LassoGen Require Import GenPrelude GenIR GenIRRodeo.
Open Scope N_scope.

Arguments lf_store : simpl never.

Inductive trexpr :=
| TRUnit
| TROkKey (e : expr) | TRErr (k : err)
| TRMapGet                                          (* self.map.get(s).map(|k| *k) *)
| TRSelfGet | TRSelfGetIsSome                       (* self.get(val) [.is_some()]  -- by specification *)
| TRBool (c : bexpr) | TRNum (e : expr)
| TRStrsIsSome (e : expr)                           (* self.strings.get(key).is_some() *)
| TRStrsMap (e : expr)                              (* self.strings.get(key).map(|s| *s) *)
| TRStrsExpect (e : expr)                           (* *self.strings.get(key).expect(..) *)
| TRExpectIntern | TRExpectInternStatic.

Inductive tstmt :=
| TSkip
| TSeq (p q : tstmt)
| TLet (x : string) (e : expr)
| TIf (c : bexpr) (t e : tstmt)
| TReturn (r : trexpr)
| TIfLetMapGet (k : string) (smb nnb : tstmt)      (* if let Some(k) = self.map.get(s) { smb } else { nnb } *)
| TLetHash (x : string)                             (* let x = self.map.hasher().hash_one(s) *)
| TLockShardOf (h : expr) (sh : string)
     (* let i = self.map.determine_shard(h as usize); let mut sh = self.map.shards().get(i).unwrap().write(); *)
| TLetMatchFind (x sh : string) (h : expr) (ob : string) (occ : tstmt) (occv : expr)
                (slot : string) (vac : tstmt) (vacv : expr)
     (* let x = match sh.find_or_find_insert_slot(h, eq, rehash) { Ok(ob) => { occ; occv }, Err(slot) => { vac; vacv } } *)
| TLetMatchEntry (x : string) (eo : string) (occ : tstmt) (occv : expr) (ev : string) (vac : tstmt) (vacv : expr)
     (* let x = match self.map.entry(s) { Entry::Occupied(eo) => { occ; occv }, Entry::Vacant(ev) => { vac; vacv } } *)
| TStoreStrQ (x : string)                           (* let x = unsafe { self.arena.store_str(s)? }; *)
| TLetKeyFetchAddQ (x : string) (k : err)
     (* let x = K::try_from_usize(self.key.fetch_add(1, _)).ok_or_else(|| LassoError::new(k))?; *)
| TStringsInsertRef (k : expr) (x : string)         (* self.strings.insert(k, x) *)
| TStringsInsertStatic (k : expr)                   (* self.strings.insert(k, <the &'static str argument>) *)
| TInsertInSlot (sh : string) (h : expr) (slot x : string) (k : expr)
     (* sh.insert_in_slot(h, slot, (x, SharedValue::new(k))) *)
| TVacantInsert (ev : string) (k : expr)            (* ev.insert(k) *)
| TSetLimit (e : expr).                             (* self.arena.set_max_memory_usage(e) *)

Record tfundef := mkTFun { tf_params : list string; tf_body : tstmt }.
Definition tblock (l : list tstmt) : tstmt := fold_right TSeq TSkip l.

Section Interp.
  Variable keycap : N.

  Record tstate := mkTs {
    ts_t : trodeo;
    ts_nums : list (string * N);
    ts_refs : list (string * sref);
    ts_shard : option (string * N);    (* the write-locked shard: its variable and the hash it was chosen for *)
    ts_slot : option string;           (* the live insert slot / vacant entry *)
    ts_ok : Prop }.

  Inductive toutcome :=
  | TNormal (st : tstate) | TRet (t : trodeo) (v : rretval) (ok : Prop) | TPanicked (t : trodeo) (ok : Prop) | TStuck.

  Definition threaded_cx (s : str) (t : trodeo) (nums : list (string * N)) : ectx :=
    mkEctx (fun f => match f with
                     | FStringsLen => Some (t_len t)
                     | FUsage => Some (usage (tar t)) | FMaxMem => Some (limit (tar t))
                     | _ => None end)
           (fun x => lookup x nums) (slen s) (str_empty s) (fun _ => None) None.

  Definition tleave (n1 n2 : nat) (o : toutcome) : toutcome :=
    match o with
    | TNormal (mkTs t nums refs sh sl ok) => TNormal (mkTs t (keep_last n1 nums) (keep_last n2 refs) sh sl ok)
    | o => o
    end.

  Definition eval_tr (cx : ectx) (t : trodeo) (addr : N) (s : str) (ok : Prop) (x : trexpr) : toutcome :=
    match x with
    | TRUnit => TRet t RvUnit ok
    | TROkKey e => match eval cx e with Some (k, q) => TRet t (RvRes (Ok k)) (ok /\ q) | None => TStuck end
    | TRErr k => TRet t (RvRes (Err k)) ok
    | TRMapGet | TRSelfGet => TRet t (RvOptKey (t_get t s)) ok
    | TRSelfGetIsSome => TRet t (RvBool (match t_get t s with Some _ => true | None => false end)) ok
    | TRBool c => match evalb cx c with Some (b, q) => TRet t (RvBool b) (ok /\ q) | None => TStuck end
    | TRNum e => match eval cx e with Some (n, q) => TRet t (RvNum n) (ok /\ q) | None => TStuck end
    | TRStrsIsSome e =>
        match eval cx e with
        | Some (k, q) => TRet t (RvBool (match t_ref t k with Some _ => true | None => false end)) (ok /\ q)
        | None => TStuck end
    | TRStrsMap e => match eval cx e with Some (k, q) => TRet t (RvOptRef (t_ref t k)) (ok /\ q) | None => TStuck end
    | TRStrsExpect e =>
        match eval cx e with
        | Some (k, q) => match t_ref t k with Some rf => TRet t (RvRef rf) (ok /\ q) | None => TPanicked t (ok /\ q) end
        | None => TStuck end
    | TRExpectIntern =>
        match t_intern keycap t s with
        | (t', Ok k) => TRet t' (RvKey k) ok
        | (t', Err _) => TPanicked t' ok
        end
    | TRExpectInternStatic =>
        match t_intern_static keycap t addr s with
        | (t', Ok k) => TRet t' (RvKey k) ok
        | (t', Err _) => TPanicked t' ok
        end
    end.

  (* after a two-armed match whose arm ran to [o]: bind the arm's value to x in the outer scope *)
  Definition tbind_arm (s : str) (x : string) (n1 n2 : nat) (o : toutcome) (v : expr) : toutcome :=
    match o with
    | TNormal (mkTs t' nums' refs' sh' sl' ok') =>
        match eval (threaded_cx s t' nums') v, sl' with
        | Some (n, q), None => TNormal (mkTs t' ((x, n) :: keep_last n1 nums') (keep_last n2 refs') sh' None (ok' /\ q))
        | _, _ => TStuck      (* an insert slot / vacant entry must have been consumed *)
        end
    | o => o
    end.

  Fixpoint texec (addr : N) (s : str) (p : tstmt) (st : tstate) : toutcome :=
    let '(mkTs t nums refs shard slot ok) := st in
    let cx := threaded_cx s t nums in
    match p with
    | TSkip => TNormal (mkTs t nums refs shard slot ok)
    | TSeq p q => match texec addr s p (mkTs t nums refs shard slot ok) with TNormal st' => texec addr s q st' | o => o end
    | TLet x e =>
        match eval cx e with
        | Some (n, q) => TNormal (mkTs t ((x, n) :: nums) refs shard slot (ok /\ q))
        | None => TStuck end
    | TIf c a b =>
        match evalb cx c with
        | Some (v, q) =>
            tleave (List.length nums) (List.length refs)
              (if v then texec addr s a (mkTs t nums refs shard slot (ok /\ q))
               else texec addr s b (mkTs t nums refs shard slot (ok /\ q)))
        | None => TStuck end
    | TReturn x => eval_tr cx t addr s ok x
    | TIfLetMapGet k smb nnb =>
        tleave (List.length nums) (List.length refs)
          (match t_get t s with
           | Some kv => texec addr s smb (mkTs t ((k, kv) :: nums) refs shard slot ok)
           | None => texec addr s nnb (mkTs t nums refs shard slot ok)
           end)
    | TLetHash x => TNormal (mkTs t ((x, 0) :: nums) refs shard slot ok)     (* the value is immaterial here *)
    | TLockShardOf e sh =>
        match eval cx e, shard with
        | Some (h, q), None => TNormal (mkTs t nums refs (Some (sh, h)) slot (ok /\ q))
        | _, _ => TStuck end
    | TLetMatchFind x sh e ob occ occv sl vb vacv =>
        match eval cx e, shard, slot with
        | Some (h, q), Some (sh', h'), None =>
            if String.eqb sh sh' && (h =? h')
            then match t_get t s with
                 | Some kv => tbind_arm s x (List.length nums) (List.length refs)
                                (texec addr s occ (mkTs t ((ob, kv) :: nums) refs shard None (ok /\ q))) occv
                 | None => tbind_arm s x (List.length nums) (List.length refs)
                             (texec addr s vb (mkTs t nums refs shard (Some sl) (ok /\ q))) vacv
                 end
            else TStuck
        | _, _, _ => TStuck end
    | TLetMatchEntry x eo occ occv ev vb vacv =>
        match slot with
        | None =>
            match t_get t s with
            | Some kv => tbind_arm s x (List.length nums) (List.length refs)
                           (texec addr s occ (mkTs t ((eo, kv) :: nums) refs shard None ok)) occv
            | None => tbind_arm s x (List.length nums) (List.length refs)
                        (texec addr s vb (mkTs t nums refs shard (Some ev) ok)) vacv
            end
        | Some _ => TStuck end
    | TStoreStrQ x =>
        match lf_store (tar t) s with
        | (a', Ok rf) => TNormal (mkTs (mkT (tmap t) (tstrs t) (tkey t) a') nums ((x, rf) :: refs) shard slot ok)
        | (a', Err e) => TRet (mkT (tmap t) (tstrs t) (tkey t) a') (RvRes (Err e)) ok
        end
    | TLetKeyFetchAddQ x kerr =>
        let t1 := mkT (tmap t) (tstrs t) (tkey t + 1) (tar t) in
        match try_key keycap (tkey t) with
        | Some k => TNormal (mkTs t1 ((x, k) :: nums) refs shard slot ok)
        | None => TRet t1 (RvRes (Err kerr)) ok
        end
    | TStringsInsertRef e x =>
        match eval cx e, lookup x refs with
        | Some (k, q), Some rf =>
            TNormal (mkTs (mkT (tmap t) (strs_insert k rf (tstrs t)) (tkey t) (tar t)) nums refs shard slot (ok /\ q))
        | _, _ => TStuck end
    | TStringsInsertStatic e =>
        match eval cx e with
        | Some (k, q) =>
            TNormal (mkTs (mkT (tmap t) (strs_insert k (RStatic addr s) (tstrs t)) (tkey t) (tar t)) nums refs shard slot (ok /\ q))
        | None => TStuck end
    | TInsertInSlot sh eh sl x ek =>
        match eval cx eh, eval cx ek, lookup x refs, shard, slot with
        | Some (h, q1), Some (k, q2), Some rf, Some (sh', h'), Some sl' =>
            if String.eqb sh sh' && (h =? h') && String.eqb sl sl'
            then TNormal (mkTs (mkT (tmap t ++ [(rf, k)]) (tstrs t) (tkey t) (tar t)) nums refs shard None (ok /\ q1 /\ q2))
            else TStuck
        | _, _, _, _, _ => TStuck end
    | TVacantInsert ev ek =>
        match eval cx ek, slot with
        | Some (k, q), Some sl' =>
            if String.eqb ev sl'
            then TNormal (mkTs (mkT (tmap t ++ [(RStatic addr s, k)]) (tstrs t) (tkey t) (tar t)) nums refs shard None (ok /\ q))
            else TStuck
        | _, _ => TStuck end
    | TSetLimit e =>
        match eval cx e with
        | Some (m, q) => TNormal (mkTs (mkT (tmap t) (tstrs t) (tkey t) (set_limit (tar t) m)) nums refs shard slot (ok /\ q))
        | None => TStuck end
    end.

  Inductive tresult := TDone (t : trodeo) (v : rretval) | TPanic (t : trodeo).

  Definition run_tfun (fd : tfundef) (t : trodeo) (addr : N) (s : str) (args : list N) : option tresult * Prop :=
    match zip_args (tf_params fd) args with
    | Some nums =>
        match texec addr s (tf_body fd) (mkTs t nums [] None None True) with
        | TRet t' v ok => (Some (TDone t' v), ok)
        | TPanicked t' ok => (Some (TPanic t'), ok)
        | _ => (None, False)
        end
    | None => (None, False)
    end.
End Interp.
