#!/bin/sh
# run_rodeo.sh <repo> <workdir> -- `prop.sh rodeo <repo> <workdir>` (exit 0 iff everything is proved)
exec "$(dirname "$0")/prop.sh" rodeo "$@"
