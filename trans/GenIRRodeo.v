(* GenIRRodeo.v -- HAND-WRITTEN, fixed.  IR and interpreter for the interner layer src/rodeo.rs (Rodeo<K, S>), over the
   model state Lasso.Rodeo.rodeo.  rust2coq.py emits terms of this language (RodeoGen.v).

   PRIMITIVES (the hashbrown raw-entry API and the key type are modelled by contract, as in Rodeo.v):
     * `map.raw_entry[_mut]().from_hash(h, |key| target == index_unchecked!(strings, key.into_usize()))`
         = Rodeo.tlookup cand (rmap) (rstrs) (rar) h s                       (s = the string argument)
       obligation: every key in the table indexes the strings vector (the closure's index_unchecked!);
     * `entry.insert_with_hasher(h, k, (), |key| hasher.hash_one(index_unchecked!(strings, key.into_usize())))`
         = Rodeo.tinsert hash growf (rmap) (rstrs) (rar) h k, only with the vacant entry of the immediately
       preceding failed lookup; obligation as above, for the table including the new entry;
     * `hasher.hash_one(string)` = hash s;   keys are their indices: `key.into_usize()` = k,
       `K::try_from_usize(i)` = Rodeo.try_key keycap i   (Keys.v / KeysGenProofs.v: for the built-in key types
       try_from_usize i succeeds iff i < capacity and into_usize inverts it);
     * `strings.get_unchecked(e)`: obligation e < strings.len().
   CALLEES BY SPECIFICATION: `arena.store_str(s)?` = Arena.vec_store (ArenaGenProofs.gen_store_str_eq_exact, on its
   domain), `arena.clear()` = Arena.arena_clear (gen_clear_eq), `arena.memory_usage()` = usage (gen_memory_usage_eq);
   `self.get(..)`, `self.try_get_or_intern[_static](..)` inside the wrappers = Rodeo.r_get / intern / intern_static
   (the theorems of RodeoGenProofs.v about those very functions). *)
From Lasso Require Import Base Arena Rodeo.
From LassoGen Require Import GenPrelude GenIR.
Open Scope N_scope.

Arguments vec_store : simpl never.
Arguments arena_clear : simpl never.

Inductive rrexpr :=
| RRUnit
| RROkKey (e : expr) | RRErr (k : err)              (* Ok(key) / Err(LassoError::new(..)) *)
| RRLookup (h : expr)                               (* <map>.raw_entry().from_hash(h, eq).map(|(&key, _)| key) *)
| RRSomeKey (e : expr) | RRNoneKey
| RRGet | RRGetIsSome                               (* self.get(val) [.is_some()]  -- by specification *)
| RRBool (c : bexpr) | RRNum (e : expr)
| RRSomeStr (e : expr) | RRNoneStr                  (* Some(<strings>.get_unchecked(e)) / None *)
| RRStr (e : expr)                                  (* <strings>.get_unchecked(e) *)
| RRExpectIntern | RRExpectInternStatic.            (* self.try_get_or_intern[_static](..).expect(..) -- by specification *)

Inductive rstmt :=
| RSkip
| RSeq (p q : rstmt)
| RLet (x : string) (e : expr)
| RLetHash (x : string)                             (* let x = <hasher>.hash_one(<the string>) *)
| RIf (c : bexpr) (t e : rstmt)
| RAssertP (c : bexpr)                              (* assert!(c) *)
| RUnreachable                                      (* unreachable!(..) / panic!(..) *)
| RReturn (r : rrexpr)
| RLetMatchEntry (x : string) (h : expr) (eo : string) (occ : rstmt) (occv : expr)
                 (ev : string) (vac : rstmt) (vacv : expr)
     (* let x = match get_string_entry_mut(map, strings, h, <the string>) {
                  RawEntryMut::Occupied(eo) => { occ; occv }   (eo.into_key() is the number eo)
                  RawEntryMut::Vacant(ev) => { vac; vacv } }     (ev = "_": the vacant entry is not bound, e.g. the
                  missing `else` of an `if let RawEntryMut::Occupied(..)`)  *)
| RMatchLookup (h : expr) (k : string) (smb nnb : rstmt)
     (* match <map>.raw_entry().from_hash(h, eq) { Some((&k, _)) => smb, None => nnb } *)
| RLetKeyQ (x : string) (e : expr) (k : err)        (* let x = K::try_from_usize(e).ok_or_else(|| LassoError::new(k))?; *)
| RStoreStrQ (x : string)                           (* let x = unsafe { <arena>.store_str(<the string>)? }; *)
| RPushRef (x : string)                             (* <strings>.push(x) *)
| RPushStatic                                       (* <strings>.push(<the &'static str argument>) *)
| RInsert (ev : string) (h k : expr)                (* insert_string(ev, strings, hasher, h, k) *)
| RMapClear | RStringsClear | RArenaClear           (* <map>.clear() / <strings>.clear() / <arena>.clear() *)
| RSetLimit (e : expr).                             (* <arena>.max_memory_usage = e *)

Record rfundef := mkRFun { rf_params : list string; rf_body : rstmt }.
Definition rblock (l : list rstmt) : rstmt := fold_right RSeq RSkip l.

Inductive rretval :=
| RvUnit | RvRes (x : res N) | RvKey (k : N) | RvOptKey (o : option N) | RvBool (b : bool) | RvNum (n : N)
| RvOptRef (o : option sref) | RvRef (r : sref).

Section Interp.
  Variable hash : str -> N.
  Variable cand : N -> N -> bool.
  Variable growf : N -> bool.
  Variable keycap : N.

  (* the obligation of every index_unchecked!(strings, key.into_usize()) inside a table closure *)
  Definition table_keys_ok (t : table) (strs : list sref) : Prop :=
    Forall (fun e => snd e < N.of_nat (List.length strs)) t.

  Record rstate := mkRs {
    rs_r : rodeo;
    rs_nums : list (string * N);
    rs_refs : list (string * sref);
    rs_vac : option string;            (* the live vacant entry, between a failed lookup and its insert *)
    rs_ok : Prop }.

  Inductive routcome :=
  | RNormal (st : rstate) | RRet (r : rodeo) (v : rretval) (ok : Prop) | RPanicked (r : rodeo) (ok : Prop) | RStuck.

  Definition rodeo_cx (s : str) (r : rodeo) (nums : list (string * N)) : ectx :=
    mkEctx (fun f => match f with
                     | FStringsLen => Some (N.of_nat (List.length (rstrs r)))
                     | FUsage => Some (usage (rar r)) | FMaxMem => Some (limit (rar r))
                     | _ => None end)
           (fun x => lookup x nums) (slen s) (str_empty s) (fun _ => None) None.

  Definition rleave (n1 n2 : nat) (vac0 : option string) (o : routcome) : routcome :=
    match o with
    | RNormal (mkRs r nums refs _ ok) => RNormal (mkRs r (keep_last n1 nums) (keep_last n2 refs) vac0 ok)
    | o => o
    end.

  Definition lookup_here (r : rodeo) (h : N) (s : str) : option N := tlookup cand (rmap r) (rstrs r) (rar r) h s.

  Definition eval_rr (cx : ectx) (r : rodeo) (addr : N) (s : str) (ok : Prop) (x : rrexpr) : routcome :=
    let len := N.of_nat (List.length (rstrs r)) in
    match x with
    | RRUnit => RRet r RvUnit ok
    | RROkKey e => match eval cx e with Some (k, q) => RRet r (RvRes (Ok k)) (ok /\ q) | None => RStuck end
    | RRErr k => RRet r (RvRes (Err k)) ok
    | RRLookup e =>
        match eval cx e with
        | Some (h, q) => RRet r (RvOptKey (lookup_here r h s)) (ok /\ q /\ table_keys_ok (rmap r) (rstrs r))
        | None => RStuck end
    | RRSomeKey e => match eval cx e with Some (k, q) => RRet r (RvOptKey (Some k)) (ok /\ q) | None => RStuck end
    | RRNoneKey => RRet r (RvOptKey None) ok
    | RRGet => RRet r (RvOptKey (r_get hash cand r s)) ok
    | RRGetIsSome => RRet r (RvBool (match r_get hash cand r s with Some _ => true | None => false end)) ok
    | RRBool c => match evalb cx c with Some (b, q) => RRet r (RvBool b) (ok /\ q) | None => RStuck end
    | RRNum e => match eval cx e with Some (n, q) => RRet r (RvNum n) (ok /\ q) | None => RStuck end
    | RRSomeStr e =>
        match eval cx e with
        | Some (k, q) => RRet r (RvOptRef (nth_error (rstrs r) (N.to_nat k))) (ok /\ q /\ k < len)
        | None => RStuck end
    | RRNoneStr => RRet r (RvOptRef None) ok
    | RRStr e =>
        match eval cx e with
        | Some (k, q) => match nth_error (rstrs r) (N.to_nat k) with
                         | Some rf => RRet r (RvRef rf) (ok /\ q /\ k < len)
                         | None => RRet r (RvOptRef None) (ok /\ q /\ k < len)   (* out of bounds: k < len is false *)
                         end
        | None => RStuck end
    | RRExpectIntern =>
        match intern hash cand growf keycap r s with
        | (r', Ok k) => RRet r' (RvKey k) ok
        | (r', Err _) => RPanicked r' ok
        end
    | RRExpectInternStatic =>
        match intern_static hash cand growf keycap r addr s with
        | (r', Ok k) => RRet r' (RvKey k) ok
        | (r', Err _) => RPanicked r' ok
        end
    end.

  Fixpoint rexec (addr : N) (s : str) (p : rstmt) (st : rstate) : routcome :=
    let '(mkRs r nums refs vac ok) := st in
    let cx := rodeo_cx s r nums in
    match p with
    | RSkip => RNormal (mkRs r nums refs vac ok)
    | RSeq p q => match rexec addr s p (mkRs r nums refs vac ok) with RNormal st' => rexec addr s q st' | o => o end
    | RLet x e =>
        match eval cx e with
        | Some (n, q) => RNormal (mkRs r ((x, n) :: nums) refs vac (ok /\ q))
        | None => RStuck end
    | RLetHash x => RNormal (mkRs r ((x, hash s) :: nums) refs vac ok)
    | RIf c t e =>
        match evalb cx c with
        | Some (v, q) =>
            rleave (List.length nums) (List.length refs) vac
              (if v then rexec addr s t (mkRs r nums refs vac (ok /\ q)) else rexec addr s e (mkRs r nums refs vac (ok /\ q)))
        | None => RStuck end
    | RAssertP c =>
        match evalb cx c with
        | Some (true, q) => RNormal (mkRs r nums refs vac (ok /\ q))
        | Some (false, q) => RPanicked r (ok /\ q)
        | None => RStuck end
    | RUnreachable => RPanicked r ok
    | RReturn x => eval_rr cx r addr s ok x
    | RLetMatchEntry x e eo occ occv ev vb vacv =>
        match eval cx e, vac with
        | Some (h, q), None =>
            let ok1 := ok /\ q /\ table_keys_ok (rmap r) (rstrs r) in
            let arm := match lookup_here r h s with
                       | Some k => (rexec addr s occ (mkRs r ((eo, k) :: nums) refs None ok1), occv)
                       | None => (rexec addr s vb (mkRs r nums refs (if String.eqb ev "_" then None else Some ev) ok1), vacv)
                       end in
            match fst arm with
            | RNormal (mkRs r' nums' refs' vac' ok') =>
                match eval (rodeo_cx s r' nums') (snd arm), vac' with
                | Some (v, q'), None =>     (* a vacant entry must have been consumed by its insert *)
                    RNormal (mkRs r' ((x, v) :: keep_last (List.length nums) nums')
                                  (keep_last (List.length refs) refs') None (ok' /\ q'))
                | _, _ => RStuck end
            | o => o
            end
        | _, _ => RStuck end
    | RMatchLookup e k smb nnb =>
        match eval cx e with
        | Some (h, q) =>
            let ok1 := ok /\ q /\ table_keys_ok (rmap r) (rstrs r) in
            rleave (List.length nums) (List.length refs) vac
              (match lookup_here r h s with
               | Some kv => rexec addr s smb (mkRs r ((k, kv) :: nums) refs vac ok1)
               | None => rexec addr s nnb (mkRs r nums refs vac ok1)
               end)
        | None => RStuck end
    | RLetKeyQ x e kerr =>
        match eval cx e with
        | Some (i, q) =>
            match try_key keycap i with
            | Some k => RNormal (mkRs r ((x, k) :: nums) refs vac (ok /\ q))
            | None => RRet r (RvRes (Err kerr)) (ok /\ q)
            end
        | None => RStuck end
    | RStoreStrQ x =>
        match vec_store (rar r) s with
        | (a', Ok rf) => RNormal (mkRs (mkRodeo (rmap r) (rstrs r) a') nums ((x, rf) :: refs) vac ok)
        | (a', Err e) => RRet (mkRodeo (rmap r) (rstrs r) a') (RvRes (Err e)) ok
        end
    | RPushRef x =>
        match lookup x refs with
        | Some rf => RNormal (mkRs (mkRodeo (rmap r) (rstrs r ++ [rf]) (rar r)) nums refs vac ok)
        | None => RStuck end
    | RPushStatic => RNormal (mkRs (mkRodeo (rmap r) (rstrs r ++ [RStatic addr s]) (rar r)) nums refs vac ok)
    | RInsert ev eh ek =>
        match vac, eval cx eh, eval cx ek with
        | Some v, Some (h, q1), Some (k, q2) =>
            if String.eqb v ev
            then RNormal (mkRs (mkRodeo (tinsert hash growf (rmap r) (rstrs r) (rar r) h k) (rstrs r) (rar r))
                               nums refs None (ok /\ q1 /\ q2 /\ table_keys_ok ((h, k) :: rmap r) (rstrs r)))
            else RStuck
        | _, _, _ => RStuck end
    | RMapClear => RNormal (mkRs (mkRodeo [] (rstrs r) (rar r)) nums refs vac ok)
    | RStringsClear => RNormal (mkRs (mkRodeo (rmap r) [] (rar r)) nums refs vac ok)
    | RArenaClear => RNormal (mkRs (mkRodeo (rmap r) (rstrs r) (arena_clear (rar r))) nums refs vac ok)
    | RSetLimit e =>
        match eval cx e with
        | Some (m, q) => RNormal (mkRs (mkRodeo (rmap r) (rstrs r) (set_limit (rar r) m)) nums refs vac (ok /\ q))
        | None => RStuck end
    end.

  (* the outcome of a method call: final interner and value, or a panic *)
  Inductive rresult := RDone (r : rodeo) (v : rretval) | RPanic (r : rodeo).

  Definition run_rfun (fd : rfundef) (r : rodeo) (addr : N) (s : str) (args : list N) : option rresult * Prop :=
    match zip_args (rf_params fd) args with
    | Some nums =>
        match rexec addr s (rf_body fd) (mkRs r nums [] None True) with
        | RRet r' v ok => (Some (RDone r' v), ok)
        | RPanicked r' ok => (Some (RPanic r'), ok)
        | _ => (None, False)
        end
    | None => (None, False)
    end.
End Interp.

(* try_resolve returns the stored reference; the model's strs_resolve reads it *)
Lemma strs_resolve_via_ref strs a k :
  strs_resolve strs a k = match strs_resolve_ref strs k with Some r => read a r | None => None end.
Proof.
  unfold strs_resolve, strs_resolve_ref, key_str. destruct (strs_contains_key strs k); [|reflexivity].
  destruct (nth_error strs (N.to_nat k)); reflexivity.
Qed.
