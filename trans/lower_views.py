#!/usr/bin/env python3
"""lower_views.py -- src/reader.rs, src/resolver.rs (+ the three conversions) -> ViewsGen.v.

The read-only views hold the interner's components: RodeoReader { map, hasher, strings, __arena }, RodeoResolver
{ strings, __arena, __key: PhantomData<K> }.  Their methods are lowered with the Rodeo lowering (lower_rodeo.RFn, IR of
GenIRRodeo.v): `map`/`hasher`/`strings` mean the same things, `__arena` is never touched by a translated method.
Translated: RodeoReader::{get, contains, contains_key, resolve, try_resolve, len, is_empty},
RodeoResolver::{contains_key, resolve, try_resolve, len, is_empty}  (the Deserialize / Serialize / PartialEq / Index impls
and the iterators are not part of this chain).
CONSTRUCTORS AND CONVERSIONS are pure moves, recognised in exactly these shapes (anything else -- shrinking, reallocating,
re-hashing, a statement of any kind in front -- is LOST):
  RodeoReader::new(map, hasher, strings, arena)  = Self { map, hasher, strings, __arena: arena }           (any field order)
  RodeoResolver::new(strings, arena)             = Self { strings, __arena: arena, __key: PhantomData }
  Rodeo::into_reader(self)       = let Self { map, hasher, strings, arena } = self;  [unsafe {] RodeoReader::new(map, hasher, strings, AnyArena::Arena(arena)) [}]
  Rodeo::into_resolver(self)     = let Rodeo/Self { strings, arena, .. } = self;    RodeoResolver::new(strings, AnyArena::Arena(arena))
  RodeoReader::into_resolver(self) = let RodeoReader/Self { strings, __arena, .. } = self;   RodeoResolver::new(strings, __arena)
They are emitted as association lists (field of the view <- parameter of `new`;  parameter of `new` <- component of the
source object, "Arena(f)" for AnyArena::Arena(f)); ViewsGenProofs.v composes them.
"""
import os
import rsparse, astx
from rsparse import Lost
from lower_arena import Known, strip, names_of, is_path, is_self_field, q
from lower_rodeo import RFn, rpp

READER_FIELDS = {"map": "HashMap<K,(),()>", "hasher": "S", "strings": "Vec<&'static str>", "__arena": "AnyArena"}
READER_FIELDS_ALT = dict(READER_FIELDS, map="StringMap<K>")          # after the benign refactoring b2-1
RESOLVER_FIELDS = {"strings": "Vec<&'static str>", "__arena": "AnyArena", "__key": "PhantomData<K>"}

READER_METHODS = [
    ("get", "gen_reader_get", ["&self", "T"], "Option<K>", "opt_key", ["strlike"]),
    ("contains", "gen_reader_contains", ["&self", "T"], "bool", "bool", ["strlike"]),
    ("contains_key", "gen_reader_contains_key", ["&self", "&K"], "bool", "bool", ["key"]),
    ("resolve", "gen_reader_resolve", ["&'a self", "&K"], "&'a str", "strref", ["key"]),
    ("try_resolve", "gen_reader_try_resolve", ["&'a self", "&K"], "Option<&'a str>", "opt_str", ["key"]),
    ("len", "gen_reader_len", ["&self"], "usize", "usize", []),
    ("is_empty", "gen_reader_is_empty", ["&self"], "bool", "bool", []),
]
RESOLVER_METHODS = [
    ("contains_key", "gen_resolver_contains_key", ["&self", "&K"], "bool", "bool", ["key"]),
    ("resolve", "gen_resolver_resolve", ["&'a self", "&K"], "&'a str", "strref", ["key"]),
    ("try_resolve", "gen_resolver_try_resolve", ["&'a self", "&K"], "Option<&'a str>", "opt_str", ["key"]),
    ("len", "gen_resolver_len", ["&self"], "usize", "usize", []),
    ("is_empty", "gen_resolver_is_empty", ["&self"], "bool", "bool", []),
]


class View:
    def __init__(self, repo, rel, ty, field_sets):
        self.rel, self.path, self.ty = rel, os.path.join(repo, rel), ty
        try:
            self.parser, self.items = rsparse.parse_file(self.path)
        except Lost as e:
            e.file = self.path; raise
        st = [i for i in self.items if i[0] == "struct" and i[3] == ty]
        if len(st) != 1 or not any(dict(st[0][4] or []) == fs and len(st[0][4]) == len(fs) for fs in field_sets) \
                or any(a.startswith("cfg") for a in st[0][2]):
            self.lost(st[0][1] if st else 1, "struct %s does not have exactly the fields %s" % (ty, field_sets[0]))
        self.fns = {}
        self.extra = ()         # free functions of src/rodeo.rs (pub(crate) helpers shared with the views) may be inlined too
        for i in self.items:
            if i[0] == "impl" and i[3]["trait"] is None and i[3]["self"].split("<")[0] == ty:
                if any(a.startswith("cfg") for a in i[2]): self.lost(i[1], "conditionally compiled `impl %s`" % ty)
                for f in i[4]:
                    if f[0] == "fn": self.fns.setdefault(f[3], []).append(f)

    def lost(self, line, what):
        e = Lost(line, what); e.file = self.path; raise e

    def unique(self, name, params, ret, quals=()):
        c = self.fns.get(name, [])
        if len(c) != 1: self.lost(1, "expected exactly one `fn %s` in `impl %s`, found %d" % (name, self.ty, len(c)))
        f = c[0]
        if any(a.startswith("cfg(") for a in f[2]): self.lost(f[1], "conditionally compiled `fn %s`" % name)
        if [t for _, t in f[4]] != params or f[5] != ret or [x for x in f[8] if x != "const"] != list(quals):
            self.lost(f[1], "signature of `%s::%s` is not (%s) -> %s" % (self.ty, name, ", ".join(params), ret))
        return f

    def body(self, f, keep, adjacent=()):
        try:
            b, inl = astx.prepare(self.parser, self.items, f, self.ty, keep, adjacent_methods=adjacent, extra=self.extra)
        except Lost as e:
            e.file = self.path; raise
        return b

    def methods(self, table, fieldmap, known, parts):
        env = {"entry_helper": False, "insert_helper": False, "accessors": set(), "fieldmap": fieldmap}
        f = self.unique("len", ["&self"], "usize")
        b = strip(self.body(f, lambda *a: True))
        if b[0] == "mcall" and b[3] == "len" and not b[4] and is_self_field(strip(b[2]), "strings"): env["accessors"].add("len")
        keep = lambda ty, name, node: (ty, name) in {(self.ty, "len"), (self.ty, "get")}
        for name, gen, params, ret, rk, kinds in table:
            f = self.unique(name, params, ret)
            env["as_ref_nodes"] = {}
            fnl = RFn(rk, known, env)
            ps = []
            try:
                for (p, _t), kd in zip([x for x in f[4] if x[0] != "self"], kinds):
                    fnl.sc.bind(p, kd, f[1])
                    if kd in ("key", "limits"): ps.append(p)
                stl = fnl.stmts(self.body(f, keep, ("from_hash",)), True)
            except Lost as e:
                if not getattr(e, "file", None): e.file = self.path
                raise
            parts.append("(* %s:%d-%d  fn %s::%s *)\nDefinition %s : rfundef := mkRFun [%s]\n  (%s).\n" % (
                self.rel, f[1], f[7], self.ty, name, gen, "; ".join(q(p) for p in ps), rpp(stl, 2, self.rel)))

    def constructor(self, params, ret_ok):
        """`new`: Self { field: param, .. } and nothing else -> [(field, param)]"""
        f = self.unique("new", params, "Self", ("unsafe",))
        b = self.body(f, lambda *a: False)
        pn = [p for p, _ in f[4]]
        s = strip(b)
        if b[2] or s[0] != "struct" or names_of(s[2]) not in (["Self"], [self.ty]):
            self.lost(f[1], "%s::new is not a bare `Self { .. }` of its parameters (anything else is outside the subset)" % self.ty)
        out = []
        for fld, v in s[3]:
            v = strip(v)
            if v[0] == "path" and len(names_of(v)) == 1 and names_of(v)[0] in pn: out.append((fld, names_of(v)[0]))
            elif is_path(v, "PhantomData") and fld == "__key": continue
            else: self.lost(v[1], "field `%s` of %s::new is not initialised with a parameter" % (fld, self.ty))
        if sorted(p for _, p in out) != sorted(pn) or len(set(fl for fl, _ in out)) != len(out):
            self.lost(f[1], "%s::new does not move each parameter into exactly one field" % self.ty)
        return f, out


def conversion(parser, items, f, srcty, fields, target, rel, path):
    """let Self { a, b, .. } = self;  [unsafe {] Target::new(x, .., AnyArena::Arena(y)) [}]   ->  [component per argument]"""
    try:
        if [t for _, t in f[4]] != ["self"]: raise Lost(f[1], "conversion does not take `self`")
        b, _ = astx.prepare(parser, items, f, srcty, lambda *a: False)
        if len(b[2]) != 1 or b[2][0][0] != "let" or b[2][0][2][0] != "pstruct" or b[3] is None or not is_path(strip(b[2][0][4]), "self"):
            raise Lost(f[1], "conversion is not `let %s { .. } = self; %s::new(..)`" % (srcty, target))
        pat = b[2][0][2]
        if names_of(pat[2]) not in (["Self"], [srcty]): raise Lost(f[1], "destructuring of another type")
        loc = {}
        for fld, sub in pat[3]:
            if fld not in fields or sub[0] != "pbind": raise Lost(f[1], "field pattern outside the subset")
            loc[sub[2]] = fld
        c = strip(b[3])
        if not (c[0] == "call" and is_path(c[2], target, "new")): raise Lost(c[1], "conversion does not end in %s::new(..)" % target)
        out = []
        for a in c[3]:
            a = strip(a)
            if a[0] == "path" and len(names_of(a)) == 1 and names_of(a)[0] in loc: out.append(loc[names_of(a)[0]])
            elif a[0] == "call" and is_path(a[2], "AnyArena", "Arena") and len(a[3]) == 1 and strip(a[3][0])[0] == "path" \
                    and names_of(strip(a[3][0]))[0] in loc: out.append("Arena(%s)" % loc[names_of(strip(a[3][0]))[0]])
            else: raise Lost(a[1], "argument of %s::new is not a moved component" % target)
        if len(set(out)) != len(out): raise Lost(c[1], "a component is moved twice")
        return out
    except Lost as e:
        if not getattr(e, "file", None): e.file = path
        raise


def assoc(l):
    return "[%s]" % "; ".join("(%s, %s)" % (q(a), q(b)) for a, b in l)


def run(repo, out):
    known = Known()
    RD = View(repo, "src/reader.rs", "RodeoReader", [READER_FIELDS, READER_FIELDS_ALT])
    RS = View(repo, "src/resolver.rs", "RodeoResolver", [RESOLVER_FIELDS])
    rpath = os.path.join(repo, "src/rodeo.rs")
    try:
        rp, ritems = rsparse.parse_file(rpath)
    except Lost as e:
        e.file = rpath; raise
    RD.extra = RS.extra = ((rp, ritems),)
    parts = []
    RD.methods(READER_METHODS, {"map": "map", "hasher": "hasher", "strings": "strings"}, known, parts)
    RS.methods(RESOLVER_METHODS, {"strings": "strings"}, known, parts)
    # constructors
    fr, rnew = RD.constructor(["HashMap<K,(),()>", "S", "Vec<&'static str>", "AnyArena"], None) \
        if RD.fns.get("new") and [t for _, t in RD.fns["new"][0][4]][0] == "HashMap<K,(),()>" \
        else RD.constructor(["StringMap<K>", "S", "Vec<&'static str>", "AnyArena"], None)
    fs, snew = RS.constructor(["Vec<&'static str>", "AnyArena"], None)
    # conversions
    rfns = {}
    for i in ritems:
        if i[0] == "impl" and i[3]["trait"] is None and i[3]["self"].startswith("Rodeo<"):
            for f in i[4]:
                if f[0] == "fn": rfns.setdefault(f[3], []).append(f)

    def one(tab, name, path):
        c = tab.get(name, [])
        if len(c) != 1 or any(a.startswith("cfg(") for a in c[0][2]):
            e = Lost(1, "expected exactly one unconditional `fn %s`" % name); e.file = path; raise e
        return c[0]
    rodeo_fields = ("map", "hasher", "strings", "arena")
    c1 = conversion(rp, ritems, one(rfns, "into_reader", rpath), "Rodeo", rodeo_fields, "RodeoReader", "src/rodeo.rs", rpath)
    c2 = conversion(rp, ritems, one(rfns, "into_resolver", rpath), "Rodeo", rodeo_fields, "RodeoResolver", "src/rodeo.rs", rpath)
    c3 = conversion(RD.parser, RD.items, one(RD.fns, "into_resolver", RD.path), "RodeoReader", tuple(READER_FIELDS), "RodeoResolver", RD.rel, RD.path)
    rparams = [p for p, _ in fr[4]]; sparams = [p for p, _ in fs[4]]
    for c, ps, what in ((c1, rparams, "RodeoReader::new"), (c2, sparams, "RodeoResolver::new"), (c3, sparams, "RodeoResolver::new")):
        if len(c) != len(ps):
            e = Lost(1, "%s is called with %d arguments" % (what, len(c))); e.file = rpath; raise e
    parts.append("(* constructors (field of the view <- parameter of `new`) and conversions (parameter of `new` <- component moved in) *)\n"
                 "Definition gen_reader_new : list (string * string) := %s.\n"
                 "Definition gen_resolver_new : list (string * string) := %s.\n"
                 "Definition gen_rodeo_into_reader : list (string * string) := %s.\n"
                 "Definition gen_rodeo_into_resolver : list (string * string) := %s.\n"
                 "Definition gen_reader_into_resolver : list (string * string) := %s.\n" % (
                     assoc(rnew), assoc(snew), assoc(zip(rparams, c1)), assoc(zip(sparams, c2)), assoc(zip(sparams, c3))))
    names = [g for _, g, _, _, _, _ in READER_METHODS + RESOLVER_METHODS] + \
        ["gen_reader_new", "gen_resolver_new", "gen_rodeo_into_reader", "gen_rodeo_into_resolver", "gen_reader_into_resolver"]
    hdr = """(* ViewsGen.v -- GENERATED by rust2coq.py from %s, %s and the conversions in %s
   DO NOT EDIT: regenerated on every run.  Methods: terms of the IR of GenIRRodeo.v (the views hold the interner's map /
   hasher / strings); constructors and conversions: association lists of moved components (lower_views.py). *)
From Lasso Require Import Base Arena Rodeo.
From LassoGen Require Import GenPrelude GenIR GenIRRodeo.
Open Scope string_scope.
Open Scope N_scope.

""" % (RD.path, RS.path, rpath)
    tail = "\n#[global] Hint Unfold %s : arenagen.\n" % " ".join(names)
    open(os.path.join(out, "ViewsGen.v"), "w").write(hdr + "\n".join(parts) + tail)
    print("rust2coq: views: %d definitions -> %s" % (len(names), os.path.join(out, "ViewsGen.v")))
