(* GenIRLf.v -- HAND-WRITTEN, fixed.  The IR and interpreter for the ONE-THREAD view of the lock-free arena
   (src/arenas/lockfree.rs; callees in atomic_bucket.rs by specification).  Expressions, results and the
   obligation collector are those of GenIR.v.

   ONE-THREAD READING (translator assumption, stated in the generated header too):
     * an atomic `x.load(_)` is the field's value, `x.store(v, _)` an assignment; memory orderings are ignored
       (they are the subject of the ordering extractor / Sync.v);
     * `fetch_update(_, _, f)` runs f once on the current value and succeeds: None => Err, Some(v) => field := v;
     * BucketRef::try_inc_length(n) on a bucket: if len + n <= capacity then Ok(len), len := len + n  else Err(())
       (its compare-exchange succeeds at the first attempt);  precondition n <> 0 and no overflow of len + n on any
       bucket visited;
     * `for b in self.buckets.iter()` visits the buckets in list order (head first); AtomicBucketList::push_front
       conses; verif_point!(..) expands to nothing.
   The concurrent behaviour is covered elsewhere (trace validation against Conc.v). *)
From Lasso Require Import Base Arena.
From LassoGen Require Import GenPrelude GenIR.
Open Scope N_scope.

Inductive lstmt :=
| LSkip
| LSeq (p q : lstmt)
| LLet (x : string) (e : expr)
| LLetNZ (x : string) (z : nzexpr)                 (* let x = <NonZeroUsize value>; *)
| LAssert (c : bexpr)
| LIf (c : bexpr) (t e : lstmt)
| LReturn (r : rexpr)
| LStoreField (f : field) (e : expr)               (* self.f.store(e, _) *)
| LAllocQ (e : expr)                               (* self.allocate_memory(e)?; *)
| LSetCap (e : expr)                               (* self.set_bucket_capacity(e); *)
| LNewBucketQ (x : string) (z : nzexpr)            (* let mut x = AtomicBucket::with_capacity(z)?; *)
| LPushSlice (r x : string)                        (* let r = unsafe { x.push_slice(slice) }; *)
| LPushFront (x : string)                          (* self.buckets.push_front(x.into_ref()); *)
| LForFirstFit (b : string) (n : expr) (start : string) (body : lstmt)
     (* for b in self.buckets.iter() { if let Ok(start) = b.try_inc_length(n) { body } }   -- body must return *)
| LLetSliceMut (p b : string) (e : expr)           (* let p = unsafe { b.slice_mut(e) }; *)
| LCopyNonoverlapping (p : string) (n : expr)      (* unsafe { p.copy_from_nonoverlapping(slice.as_ptr(), n) }; *)
| LLetStrFromRaw (r p : string) (n : expr)         (* let r = unsafe { str::from_utf8_unchecked(slice::from_raw_parts(p, n)) }; *)
| LFetchUpdateRet (f : field) (x : string) (body : lstmt) (k : err).
     (* self.f.fetch_update(_, _, |x| body).map(|_| ()).map_err(|_| LassoError::new(k))   as the function's result *)

Record lfundef := mkLFun { lf_params : list string; lf_body : lstmt }.

(* LockfreeArena::new *)
Record lnewdef := mkLNew { ln_params : list string; ln_first : nzexpr; ln_cap : expr; ln_usage : expr; ln_limit : expr }.

Definition lblock (l : list lstmt) : lstmt := fold_right LSeq LSkip l.

(* ---------------- specifications of the callees (atomic_bucket.rs) ---------------- *)

(* first bucket, in list order, on which try_inc_length(n) succeeds *)
Fixpoint find_fit (bs : list block) (n : N) : option (list block * block * list block) :=
  match bs with
  | [] => None
  | b :: t =>
      if bused b + n <=? bcap b then Some ([], b, t)
      else match find_fit t n with
           | Some (pre, c, post) => Some (b :: pre, c, post)
           | None => None
           end
  end.
Arguments find_fit : simpl never.

Definition try_inc_pre (bs : list block) (n : N) : Prop :=
  n <> 0 /\ Forall (fun b => bused b + n <= usize_max) bs.

Definition set_cap_pre (n : N) : Prop := n <> 0.

(* AtomicBucket::with_capacity(cap) (NOT translated: its shape is checked by lower_atomic_bucket.py, see
   AtomicBucketGen.gen_ab_layout).  AtomicBucket::layout builds   next: AtomicPtr (8 bytes, align 8), len: usize (8),
   capacity: NonZeroUsize (8)  extended by the data layout Layout::from_size_align(cap, 1) (checked: Err iff
   cap > isize::MAX) and padded to align 8; every Layout::extend re-checks "size rounded up to the alignment
   <= isize::MAX".  So a layout exists iff 24 + cap <= isize::MAX - 7, i.e. iff cap <= isize::MAX - 31; every failure
   is mapped to FailedAllocation.  (64-bit target: three 8-byte header fields.) *)
Definition ab_cap_max : N := isize_max - 31.
Definition ab_wc_spec (id cap : N) : res block :=
  if cap <=? ab_cap_max then Ok (fresh_block id cap) else Err FailedAllocation.

(* ---------------- interpreter ---------------- *)

Inductive lbkval := LbOwned (b : block) | LbFocus | LbMoved.

(* [ls_focus] = Some (pre, c, post): we are inside the first-fit loop body, the bucket list is pre ++ c :: post
   and the loop variable denotes c (whose length try_inc_length has already advanced) *)
Record lstate := mkL {
  ls_arena : arena;
  ls_nums : list (string * N);
  ls_bks : list (string * lbkval);
  ls_ptrs : list (string * N);           (* pointers into the focused bucket's data: offsets *)
  ls_refs : list (string * sref);
  ls_focus : option (list block * block * list block);
  ls_ok : Prop }.

Inductive loutcome := LNormal (st : lstate) | LRet (a : arena) (v : retval) (ok : Prop) | LStuck.

Definition final_arena (a : arena) (fo : option (list block * block * list block)) : arena :=
  match fo with
  | Some (pre, c, post) => with_blocks a (pre ++ c :: post)
  | None => a
  end.

Definition lf_cx (s : str) (a : arena) (nums : list (string * N)) : ectx :=
  mkEctx (fun f => match f with
                   | FUsage => Some (usage a) | FMaxMem => Some (limit a)
                   | FBucketCap => Some (bucket_cap a)
                   | _ => None end)
         (fun x => lookup x nums) (slen s) (str_empty s) (fun _ => None) None.

Definition lleave (n1 n2 n3 n4 : nat) (o : loutcome) : loutcome :=
  match o with
  | LNormal (mkL a nums bks ptrs refs fo ok) =>
      LNormal (mkL a (keep_last n1 nums) (keep_last n2 bks) (keep_last n3 ptrs) (keep_last n4 refs) fo ok)
  | o => o
  end.

Definition set_lfield (a : arena) (f : field) (n : N) : option arena :=
  match f with
  | FBucketCap => Some (mkArena (blocks a) n (usage a) (limit a) (next_bid a))
  | f => set_field a f n
  end.

Fixpoint lexec (s : str) (p : lstmt) (st : lstate) : loutcome :=
  let '(mkL a nums bks ptrs refs fo ok) := st in
  let cx := lf_cx s a nums in
  match p with
  | LSkip => LNormal (mkL a nums bks ptrs refs fo ok)
  | LSeq p q => match lexec s p (mkL a nums bks ptrs refs fo ok) with LNormal st' => lexec s q st' | o => o end
  | LLet x e =>
      match eval cx e with
      | Some (n, q) => LNormal (mkL a ((x, n) :: nums) bks ptrs refs fo (ok /\ q))
      | None => LStuck end
  | LLetNZ x z =>
      match eval_nz cx z with
      | Some (inl n, q) => LNormal (mkL a ((x, n) :: nums) bks ptrs refs fo (ok /\ q))
      | Some (inr k, q) => LRet (final_arena a fo) (RVErr k) (ok /\ q)
      | None => LStuck end
  | LAssert c =>
      match evalb cx c with
      | Some (v, q) => LNormal (mkL a nums bks ptrs refs fo (ok /\ q /\ v = true))
      | None => LStuck end
  | LIf c t e =>
      match evalb cx c with
      | Some (v, q) =>
          lleave (List.length nums) (List.length bks) (List.length ptrs) (List.length refs)
            (if v then lexec s t (mkL a nums bks ptrs refs fo (ok /\ q))
             else lexec s e (mkL a nums bks ptrs refs fo (ok /\ q)))
      | None => LStuck end
  | LReturn r =>
      match eval_ret cx refs r with
      | Some (v, q) => LRet (final_arena a fo) v (ok /\ q)
      | None => LStuck end
  | LStoreField f e =>
      match eval cx e with
      | Some (n, q) => match set_lfield a f n with
                       | Some a' => LNormal (mkL a' nums bks ptrs refs fo (ok /\ q))
                       | None => LStuck end
      | None => LStuck end
  | LAllocQ e =>
      match eval cx e with
      | Some (n, q) =>
          match alloc_spec a n with
          | (a', Ok _) => LNormal (mkL a' nums bks ptrs refs fo (ok /\ q /\ alloc_pre a n))
          | (a', Err k) => LRet (final_arena a' fo) (RVErr k) (ok /\ q /\ alloc_pre a n)
          end
      | None => LStuck end
  | LSetCap e =>
      match eval cx e with
      | Some (n, q) =>
          LNormal (mkL (mkArena (blocks a) n (usage a) (limit a) (next_bid a)) nums bks ptrs refs fo
                       (ok /\ q /\ set_cap_pre n))
      | None => LStuck end
  | LNewBucketQ x z =>
      match eval_nz cx z with
      | Some (inl cap, q) =>
          match ab_wc_spec (next_bid a) cap with
          | Ok b => LNormal (mkL (mkArena (blocks a) (bucket_cap a) (usage a) (limit a) (next_bid a + 1))
                                 nums ((x, LbOwned b) :: bks) ptrs refs fo (ok /\ q /\ wc_pre cap))
          | Err k => LRet (final_arena a fo) (RVErr k) (ok /\ q /\ wc_pre cap)
          end
      | Some (inr k, q) => LRet (final_arena a fo) (RVErr k) (ok /\ q)
      | None => LStuck end
  | LPushSlice r x =>
      match lookup x bks with
      | Some (LbOwned b) =>
          let (b', rf) := push_slice b s in
          LNormal (mkL a nums (update x (LbOwned b') bks) ptrs ((r, rf) :: refs) fo (ok /\ push_pre b s))
      | _ => LStuck end
  | LPushFront x =>
      match lookup x bks, fo with
      | Some (LbOwned b), None =>
          LNormal (mkL (with_blocks a (b :: blocks a)) nums (update x LbMoved bks) ptrs refs None ok)
      | _, _ => LStuck end
  | LForFirstFit bn e start body =>
      match eval cx e, fo with
      | Some (n, q), None =>
          let ok1 := ok /\ q /\ try_inc_pre (blocks a) n in
          match find_fit (blocks a) n with
          | None => LNormal (mkL a nums bks ptrs refs None ok1)
          | Some (pre, c, post) =>
              let c1 := mkBlock (bid c) (bcap c) (bused c + n) (bdata c) in
              match lexec s body (mkL a ((start, bused c) :: nums) ((bn, LbFocus) :: bks) ptrs refs
                                      (Some (pre, c1, post)) ok1) with
              | LRet a' v ok' => LRet a' v ok'
              | _ => LStuck        (* a loop body that falls through is outside the IR *)
              end
          end
      | _, _ => LStuck end
  | LLetSliceMut pn bn e =>      (* a pointer `e` bytes into the bucket's data: must stay inside the allocation *)
      match eval cx e, lookup bn bks, fo with
      | Some (n, q), Some LbFocus, Some (_, c, _) =>
          LNormal (mkL a nums bks ((pn, n) :: ptrs) refs fo (ok /\ q /\ n <= alloc_size c))
      | _, _, _ => LStuck end
  | LCopyNonoverlapping pn e =>  (* n bytes are read from the string (it has slen s) and written at the pointer *)
      match eval cx e, lookup pn ptrs, fo with
      | Some (n, q), Some off, Some (pre, c, post) =>
          LNormal (mkL a nums bks ptrs refs
                       (Some (pre, mkBlock (bid c) (bcap c) (bused c) (bwrite (bdata c) (N.to_nat off) s), post))
                       (ok /\ q /\ n = slen s /\ off + n <= alloc_size c))
      | _, _, _ => LStuck end
  | LLetStrFromRaw r pn e =>     (* the n bytes at the pointer as a &str: inside the initialised part of the bucket *)
      match eval cx e, lookup pn ptrs, fo with
      | Some (n, q), Some off, Some (_, c, _) =>
          LNormal (mkL a nums bks ptrs ((r, RArena (bid c) off n) :: refs) fo (ok /\ q /\ off + n <= bused c))
      | _, _, _ => LStuck end
  | LFetchUpdateRet f x body k =>
      match cx_field cx f with
      | Some v =>
          match lexec s body (mkL a ((x, v) :: nums) bks ptrs refs fo ok) with
          | LRet _ (RVOpt None) ok' => LRet (final_arena a fo) (RVErr k) ok'
          | LRet _ (RVOpt (Some n)) ok' =>
              match set_lfield a f n with
              | Some a' => LRet (final_arena a' fo) RVUnit ok'
              | None => LStuck end
          | _ => LStuck
          end
      | None => LStuck end
  end.

Definition run_lfun (fd : lfundef) (a : arena) (s : str) (args : list N) : option (arena * retval) * Prop :=
  match zip_args (lf_params fd) args with
  | Some nums =>
      match lexec s (lf_body fd) (mkL a nums [] [] [] None True) with
      | LRet a' v ok => (Some (a', v), ok)
      | _ => (None, False)
      end
  | None => (None, False)
  end.

Definition run_lnew (nd : lnewdef) (args : list N) : option (res arena) * Prop :=
  match zip_args (ln_params nd) args with
  | Some nums =>
      let cx := plain_cx nums in
      match eval_nz cx (ln_first nd), eval cx (ln_cap nd), eval cx (ln_usage nd), eval cx (ln_limit nd) with
      | Some (inl c0, q0), Some (c, q1), Some (u, q2), Some (l, q3) =>
          match ab_wc_spec 0 c0 with
          | Ok b => (Some (Ok (mkArena [b] c u l 1)), q0 /\ wc_pre c0 /\ q1 /\ q2 /\ q3)
          | Err k => (Some (Err k), q0 /\ wc_pre c0)
          end
      | _, _, _, _ => (None, False)
      end
  | None => (None, False)
  end.

(* ---------------- find_fit is the model's first-fit search ---------------- *)

Lemma lf_first_fit_find bs s :
  lf_first_fit bs s =
  match find_fit bs (slen s) with
  | Some (pre, c, post) => let (c', r) := push_slice c s in Some (pre ++ c' :: post, r)
  | None => None
  end.
Proof.
  induction bs as [|b t IH]; [reflexivity|].
  unfold find_fit; fold find_fit. cbn [lf_first_fit].
  destruct (bused b + slen s <=? bcap b).
  - destruct (push_slice b s). reflexivity.
  - rewrite IH. destruct (find_fit t (slen s)) as [[[pre c] post]|]; [|reflexivity].
    destruct (push_slice c s). reflexivity.
Qed.

Lemma find_fit_spec bs n pre c post :
  find_fit bs n = Some (pre, c, post) -> bs = pre ++ c :: post /\ bused c + n <= bcap c /\ In c bs.
Proof.
  revert pre c post. induction bs as [|b t IH]; intros pre c post; [discriminate|].
  unfold find_fit; fold find_fit. destruct (N.leb_spec (bused b + n) (bcap b)) as [Hle|Hgt].
  - intros E0; inversion E0; subst. repeat split; auto. now left.
  - destruct (find_fit t n) as [[[pre' c'] post']|]; [|discriminate].
    intros E0; inversion E0; subst. destruct (IH _ _ _ eq_refl) as (E & L & I).
    subst t. repeat split; auto. now right.
Qed.

(* a bucket is not larger than the booked memory (used for "len + additional does not overflow") *)
Lemma bcap_le_sum (l : list block) b : In b l -> bcap b <= sum_N (map bcap l).
Proof.
  induction l as [|x l IH]; [intros []|]. unfold sum_N in *. cbn [map fold_right].
  intros [->|H]; [lia|]. specialize (IH H). lia.
Qed.
