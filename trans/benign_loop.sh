#!/bin/sh
# benign_loop.sh <outfile> [patch-dir-or-files...] -- apply each diff to a scratch worktree of /repo HEAD, run `prop.sh all`,
# record the exit code and the LOST / FAILED lines.  (read-only use of git on /repo: worktree add/remove)
OUT=${1:?usage: benign_loop.sh <outfile> [diffs...]}; shift
HERE=$(cd "$(dirname "$0")" && pwd)
[ $# -gt 0 ] || set -- /verif/seeded/benign/*.diff
: > "$OUT"
for d in "$@"; do
  n=$(basename "$(dirname "$d")")-$(basename "$d" .diff)
  case "$d" in */benign/*) n=$(basename "$d" .diff) ;; esac
  wt=/tmp/bt-$$-$n
  git -C /repo worktree add --detach "$wt" HEAD >/dev/null 2>&1 || { echo "$n worktree-failed" >> "$OUT"; continue; }
  if git -C "$wt" apply "$d" 2>/dev/null; then
    "$HERE/prop.sh" all "$wt" "/tmp/bt-w-$$-$n" > "/tmp/bt-$$-$n.log" 2>&1; rc=$?
    echo "$n exit=$rc $(grep -E '^(LOST|FAILED)' "/tmp/bt-$$-$n.log" | cut -c1-150 | tr '\n' ';')" >> "$OUT"
  else
    echo "$n apply-failed" >> "$OUT"
  fi
  git -C /repo worktree remove --force "$wt" >/dev/null 2>&1
  rm -rf "/tmp/bt-w-$$-$n"
done
cat "$OUT"
