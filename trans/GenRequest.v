(* GenRequest.v -- HAND-WRITTEN, fixed.  Which bucket (of what size) does the MODEL's store allocate?  Needed to say
   exactly when the generated store_str agrees with the model (whose allocator never refuses) and what it does
   otherwise, now that Bucket::with_capacity / AtomicBucket::with_capacity refuse sizes no Layout can describe.
   [grow_request] repeats the branch structure of Arena.grow (guard on); [grow_request_spec] proves that it is that. *)
From Lasso Require Import Base Arena.
Open Scope N_scope.

(* Some (c, doubling): grow allocates a bucket of c bytes (after booking c bytes of budget); doubling = the regular
   doubled bucket, which also sets bucket_cap to c.  None: grow allocates nothing (budget error). *)
Definition grow_request (a : arena) (s : str) : option (N * bool) :=
  let len := slen s in
  let next := 2 * bucket_cap a in
  if next <? len then
    if limit a <? usage a + len then None else Some (len, false)
  else if limit a <? usage a + next then
    let remaining := limit a - usage a in
    if remaining <? len then None
    else if limit a <? usage a + remaining then None
    else if remaining =? 0 then None
    else Some (remaining, false)
  else
    if limit a <? usage a + next then None else Some (next, true).

Definition vec_alloc_request (a : arena) (s : str) : option (N * bool) :=
  match s with
  | [] => None
  | _ => match last_opt (blocks a) with
         | Some b => if slen s <=? bcap b - bused b then None else grow_request a s
         | None => grow_request a s
         end
  end.

Definition lf_alloc_request (a : arena) (s : str) : option (N * bool) :=
  match s with
  | [] => None
  | _ => match lf_first_fit (blocks a) s with
         | Some _ => None
         | None => grow_request a s
         end
  end.

(* the arena a failed allocation leaves behind: the budget is booked (and the capacity doubled) but no bucket added *)
Definition after_failed_alloc (a : arena) (c : N) (doubling : bool) : arena :=
  mkArena (blocks a) (if doubling then c else bucket_cap a) (usage a + c) (limit a) (next_bid a).

Lemma grow_request_spec place a s :
  match grow_request a s with
  | Some (c, d) =>
      exists b r, grow place true a s =
        (mkArena (place (2 * bucket_cap a <? slen s) b (blocks a)) (if d then c else bucket_cap a) (usage a + c) (limit a)
                 (next_bid a + 1), Ok r) /\ bcap b = c /\ bid b = next_bid a
  | None => exists a' e, grow place true a s = (a', Err e) /\ blocks a' = blocks a
  end.
Proof.
  unfold grow_request, grow, push_slice. cbn [andb].
  destruct (2 * bucket_cap a <? slen s).
  - destruct (limit a <? usage a + slen s); [exists a, MemoryLimitReached; auto|].
    eexists _, _. split; [reflexivity|]. split; reflexivity.
  - destruct (limit a <? usage a + 2 * bucket_cap a).
    + destruct (limit a - usage a <? slen s); [exists a, MemoryLimitReached; auto|].
      destruct (limit a <? usage a + (limit a - usage a)); [exists a, MemoryLimitReached; auto|].
      destruct (limit a - usage a =? 0); [eexists _, MemoryLimitReached; split; [reflexivity|reflexivity]|].
      eexists _, _. split; [reflexivity|]. split; reflexivity.
    + eexists _, _. split; [reflexivity|]. split; reflexivity.
Qed.
