#!/bin/sh
# run_threaded.sh <repo> <workdir> -- `prop.sh threaded <repo> <workdir>` (exit 0 iff everything is proved)
exec "$(dirname "$0")/prop.sh" threaded "$@"
