#!/bin/sh
# run_arena.sh <repo> <workdir> -- kept for compatibility: `prop.sh arena <repo> <workdir>` (exit 0 iff everything is proved)
exec "$(dirname "$0")/prop.sh" arena "$@"
