#!/usr/bin/env python3
"""lower_iters.py -- the iterator code of src/util.rs (struct Iter / struct Strings) and its callers -> ItersGen.v.

The IR and its std semantics are in GenIRIters.v; this lowering recognises EXACTLY these shapes (anything else is LOST):

  struct Iter<'a, K>    { iter: <T>, __key: PhantomData<K> }      <T> ::= slice::Iter<'a, &'a str> | iter::Enumerate<<T>>
  struct Strings<'a, K> { iter: <T>, __key: PhantomData<K> }
  impl Iter / impl Strings (inherent): only the constructors from_rodeo / from_reader / from_resolver, each
        fn from_x(<p>: &'a <Container><..>) -> Self { Self { iter: <src>, __key: PhantomData } }
        <src> ::= <p>.<field>.iter() | <src>.enumerate()
  fn iter_element((a, b): (usize, &&'a str)) -> (K, &'a str) { <e> }        (the binder names are free)
        <e> ::= a | b | *<e> | <e> + <lit> | (<e>, <e>) | K::try_from_usize(<e>).unwrap_or_else(|| unreachable!())
              | match K::try_from_usize(<e>) { Some(<k>) => <e with k>, None => unreachable!() }        (once, not nested)
  a constructor may also be `Self::<h>(&<p>.<field>)` with a receiver-less helper
        fn <h>(<q>: &'a [&'a str]) -> Self { Self { iter: <q>.iter()[.enumerate()]*, __key: PhantomData } }
  `.map(|x| *x)` is read as `.copied()`.
  impl Iterator for T             { type Item = ..;  fn next(&mut self);  [fn size_hint(&self)]
                                    [fn nth(&mut self, <n>: usize)]  [fn count(self)]  [fn last(mut self)] }      (overrides of std defaults)
  impl DoubleEndedIterator for T  { fn next_back(&mut self);  fn nth_back(&mut self, <n>: usize) }
  impl ExactSizeIterator for T    {}            (empty: std's default `len`)
  impl [iter::]FusedIterator for T {}           (marker)
        every method body is one expression   self.iter.<m>(<args>) [.map(iter_element) | .map(|x| iter_element(x)) | .copied()]
        <m>(<args>) ::= next() | next_back() | nth_back(<a>) | nth(<a>) | size_hint() | len()     <a> ::= <n> | <a> + <lit> | <lit>
                        (`count` must be `self.iter.len()`)
        or, for size_hint only, a literal `(<lit>, None)` / `(<lit>, Some(<lit>))`.
        The lowering records WHICH std method each trait method calls (so `next_back` calling `self.iter.next()` is
        translated faithfully and the theorem fails).  Any other method in these impls (nth, count, last, fold, len, ..),
        any other adaptor (.rev(), .skip(..), ..), any other closure, any other trait impl for the two types: LOST.
  Nested modules of util.rs and macro invocations / definitions there must not mention Iter / Strings / iter_element (LOST).
  callers, in src/rodeo.rs (Rodeo), src/reader.rs (RodeoReader), src/resolver.rs (RodeoResolver):
        fn iter(&self)    { <Ty>::<ctor>(self) }         fn strings(&self) { <Ty>::<ctor>(self) }
        impl IntoIterator for &'a X<..> { fn into_iter(self) { self.<m>() } }
"""
import os
import rsparse
from rsparse import Lost

CTORS = ("from_rodeo", "from_reader", "from_resolver")
ORDER = ("next", "size_hint", "nth", "count", "last", "next_back", "nth_back", "len")
CONTAINERS = (("src/rodeo.rs", "Rodeo"), ("src/reader.rs", "RodeoReader"), ("src/resolver.rs", "RodeoResolver"))


def strip(e):
    while True:
        if e[0] == "paren": e = e[2]
        elif e[0] == "block" and not e[2] and e[3] is not None and not e[4]: e = e[3]
        else: return e


def names_of(p):
    return [s if isinstance(s, str) else s[0] for s in p[2]]


def is_path(e, *names):
    return e[0] == "path" and names_of(e) == list(names) and all(isinstance(s, str) for s in e[2])


def q(s):
    return '"%s"' % s


class File:
    def __init__(self, repo, rel):
        self.rel, self.path = rel, os.path.join(repo, rel)
        try:
            self.parser, self.items = rsparse.parse_file(self.path)
        except Lost as e:
            e.file = self.path; raise

    def lost(self, line, what):
        e = Lost(line, what); e.file = self.path; raise e

    def body(self, f):
        if f[6] is None: self.lost(f[1], "`fn %s` has no body" % f[3])
        try:
            b = self.parser.fn_body(f)
        except Lost as e:
            e.file = self.path; raise
        if b[2] or b[3] is None or b[4]:
            self.lost(f[1], "body of `fn %s` is not a single expression" % f[3])
        return strip(b[3])

    def nocfg(self, item, what):
        if any(a.startswith("cfg(") or a.startswith("cfg_attr(") and "inline" not in a for a in item[2]):
            self.lost(item[1], "conditionally compiled %s" % what)


def source_of_type(F, line, t):
    t = t.replace(" ", "")
    for pre in ("iter::Enumerate<", "core::iter::Enumerate<", "Enumerate<"):
        if t.startswith(pre) and t.endswith(">"):
            return "Enumerate (%s)" % source_of_type(F, line, t[len(pre):-1]) if True else None
    if t in ("slice::Iter<'a,&'astr>", "core::slice::Iter<'a,&'astr>"):
        return "SliceIter"
    F.lost(line, "field type `%s` is not slice::Iter<'a, &'a str> under iter::Enumerate<..>" % t)


def paren(s):
    return s if " " not in s else "(%s)" % s


def source_of_expr(F, e, param, direct=False):
    """<param>.<field>.iter() [.enumerate()]* -> (field, source);   direct: <param>.iter()[.enumerate()]* -> (None, source)"""
    e = strip(e)
    if e[0] == "mcall" and e[3] == "enumerate" and not e[4]:
        fld, s = source_of_expr(F, e[2], param, direct)
        return fld, "Enumerate %s" % paren(s)
    if e[0] == "mcall" and e[3] == "iter" and not e[4]:
        r = strip(e[2])
        if direct and is_path(r, param):
            return None, "SliceIter"
        if not direct and r[0] == "field" and is_path(strip(r[2]), param):
            return r[3], "SliceIter"
        F.lost(e[1], "`.iter()` is not taken of a field of the constructor's parameter `%s`" % param)
    if e[0] == "mcall":
        F.lost(e[1], "iterator adaptor / source `.%s(..)` has no semantics in GenIRIters.v" % e[3])
    F.lost(e[1], "the field `iter` is not built as <param>.<field>.iter()[.enumerate()]")


def lit_of(e):
    e = strip(e)
    return e[2] if e[0] == "lit" and isinstance(e[2], int) else None


def elem_term(F, e, a, b, key=None):
    e = strip(e)
    if e[0] == "path" and key is not None and is_path(e, key): return "EKeyVar"
    if e[0] == "path" and a is not None and is_path(e, a): return "EFst"
    if e[0] == "path" and b is not None and is_path(e, b): return "ESnd"
    if e[0] == "un" and e[2] == "*": return "EDeref %s" % paren(elem_term(F, e[3], a, b, key))
    if e[0] == "bin" and e[2] == "+" and lit_of(e[4]) is not None:
        return "EAddLit %s %d" % (paren(elem_term(F, e[3], a, b, key)), lit_of(e[4]))
    if e[0] == "tuple" and len(e[2]) == 2:
        return "EPair %s %s" % (paren(elem_term(F, e[2][0], a, b, key)), paren(elem_term(F, e[2][1], a, b, key)))
    if e[0] == "mcall" and e[3] == "unwrap_or_else" and len(e[4]) == 1:
        c, r = strip(e[4][0]), strip(e[2])
        if c[0] == "closure" and not c[2] and strip(c[3])[0] == "macro" and strip(c[3])[2] == "unreachable" and not strip(c[3])[3] \
                and r[0] == "call" and is_path(r[2], "K", "try_from_usize") and len(r[3]) == 1:
            return "EKeyOrUnreachable %s" % paren(elem_term(F, r[3][0], a, b, key))
    if e[0] == "match" and len(e[3]) == 2 and all(len(arm) == 2 for arm in e[3]):
        # match K::try_from_usize(<e>) { Some(<k>) => <body>, None => unreachable!() }        (<k> shadows a / b in <body>)
        r = strip(e[2])
        some = [arm for arm in e[3] if arm[0][0] == "ptuplestruct" and is_path(arm[0][2], "Some") and len(arm[0][3]) == 1
                and arm[0][3][0][0] == "pbind" and not arm[0][3][0][3]]
        none = [arm for arm in e[3] if arm[0][0] == "ppath" and is_path(arm[0][2], "None")]
        if len(some) == 1 and len(none) == 1 and r[0] == "call" and is_path(r[2], "K", "try_from_usize") and len(r[3]) == 1 and key is None:
            u = strip(none[0][1])
            if u[0] == "macro" and u[2] == "unreachable" and not u[3]:
                k = some[0][0][3][0][2]
                return "EMatchKey %s %s" % (paren(elem_term(F, r[3][0], a, b)),
                                            paren(elem_term(F, some[0][1], None if a == k else a, None if b == k else b, k)))
    F.lost(e[1], "expression in `iter_element` outside the subset (see lower_iters.py)")


def method_entry(F, f, trait_method):
    """one method of a trait impl -> (call, post)"""
    params = f[4]
    want = {"next": ["&mut self"], "next_back": ["&mut self"], "size_hint": ["&self"], "nth_back": ["&mut self", "usize"],
            "nth": ["&mut self", "usize"], "count": ["self"], "last": ["mut self"]}[trait_method]
    if [t for _, t in params] != want or f[8]:
        F.lost(f[1], "signature of `%s` is not (%s)" % (trait_method, ", ".join(want)))
    F.nocfg(f, "`fn %s`" % trait_method)
    pn = params[1][0] if len(params) == 2 else None
    e = F.body(f)
    post = "PNone"
    if e[0] == "mcall" and e[3] == "map" and len(e[4]) == 1:
        g = strip(e[4][0])
        if is_path(g, "iter_element"): post = "PMapIterElement"
        elif g[0] == "closure" and len(g[2]) == 1 and isinstance(g[2][0], str) and g[2][0] not in ("_",) and not g[2][0].startswith("&") \
                and strip(g[3])[0] == "call" and is_path(strip(g[3])[2], "iter_element") and len(strip(g[3])[3]) == 1 \
                and is_path(strip(strip(g[3])[3][0]), g[2][0]):
            post = "PMapIterElement"                      # |x| iter_element(x)
        elif g[0] == "closure" and len(g[2]) == 1 and isinstance(g[2][0], str) and g[2][0] != "_" and not g[2][0].startswith("&") \
                and strip(g[3])[0] == "un" and strip(g[3])[2] == "*" and is_path(strip(strip(g[3])[3]), g[2][0]):
            post = "PCopied"                              # |x| *x   is what Option::copied does
        else: F.lost(g[1], "`.map(..)` of something other than `iter_element`")
        e = strip(e[2])
    elif e[0] == "mcall" and e[3] == "copied" and not e[4]:
        post = "PCopied"; e = strip(e[2])
    if e[0] == "tuple" and trait_method == "size_hint" and len(e[2]) == 2 and lit_of(e[2][0]) is not None and post == "PNone":
        hi = strip(e[2][1])
        if is_path(hi, "None"): return "CConstHint %d None" % lit_of(e[2][0]), post
        if hi[0] == "call" and is_path(hi[2], "Some") and len(hi[3]) == 1 and lit_of(hi[3][0]) is not None:
            return "CConstHint %d (Some %d)" % (lit_of(e[2][0]), lit_of(hi[3][0])), post
    if not (e[0] == "mcall" and strip(e[2])[0] == "field" and is_path(strip(strip(e[2])[2]), "self") and strip(e[2])[3] == "iter"):
        if e[0] == "mcall":
            F.lost(e[1], "`.%s(..)` in `%s`: not a std method called directly on `self.iter` (adaptor without semantics)" % (e[3], trait_method))
        F.lost(e[1], "body of `%s` is not `self.iter.<method>(..)[.map(iter_element)|.copied()]`" % trait_method)
    m, args = e[3], e[4]
    if trait_method == "count" and m != "len":
        F.lost(e[1], "`count` is not `self.iter.len()`")
    if m in ("next", "next_back", "size_hint") and not args:
        return {"next": "CNext", "next_back": "CNextBack", "size_hint": "CSizeHint"}[m], post

    def arg(a):
        a = strip(a)
        if pn is not None and is_path(a, pn): return "AParam"
        if lit_of(a) is not None: return "ALit %d" % lit_of(a)
        if a[0] == "bin" and a[2] == "+" and lit_of(a[4]) is not None: return "AAddLit %s %d" % (paren(arg(a[3])), lit_of(a[4]))
        F.lost(a[1], "argument of `nth_back` outside the subset")
    if m == "nth_back" and len(args) == 1:
        return "CNthBack %s" % paren(arg(args[0])), post
    if m == "nth" and len(args) == 1:
        return "CNth %s" % paren(arg(args[0])), post
    if m == "len" and not args and post == "PNone":
        return "CFieldLen", post
    F.lost(e[1], "`self.iter.%s(..)` in `%s` has no semantics in GenIRIters.v" % (m, trait_method))


def lower_type(F, ty):
    st = [i for i in F.items if i[0] == "struct" and i[3] == ty]
    if len(st) != 1: F.lost(1, "expected exactly one `struct %s`" % ty)
    st = st[0]
    F.nocfg(st, "`struct %s`" % ty)
    fields = st[4] or []
    if [n for n, _ in fields] != ["iter", "__key"] or fields[1][1].replace(" ", "") != "PhantomData<K>":
        F.lost(st[1], "struct %s does not have exactly the fields iter, __key: PhantomData<K>" % ty)
    src = source_of_type(F, st[1], fields[0][1])
    ctors, methods, seen, helpers = {}, {}, set(), {}
    for i in F.items:
        if i[0] != "impl" or i[3]["self"].split("<")[0] != ty: continue
        if "&" in i[3]["self"]: continue
        F.nocfg(i, "`impl .. %s`" % ty)
        if i[3]["unsafe"] or i[3]["neg"]: F.lost(i[1], "unsafe / negative impl for %s" % ty)
        tr = i[3]["trait"]
        fns = [f for f in i[4] if f[0] == "fn"]
        other = [f for f in i[4] if f[0] != "fn" and not (f[0] == "skipped" and f[3] == "type" and tr == "Iterator")]
        if other: F.lost(other[0][1], "item other than a method in `impl %s for %s`" % (tr, ty))
        if tr is None:
            for f in fns:
                if f[3] not in CTORS and f[3] not in helpers and len(f[4]) == 1 and isinstance(f[4][0][0], str) and f[4][0][0] != "self" \
                        and f[4][0][1].replace(" ", "") == "&'a[&'astr]" and f[5] == "Self" and not f[8]:
                    # a helper constructor over the slice itself (no receiver: it cannot shadow a method):
                    #   fn h(<q>: &'a [&'a str]) -> Self { Self { iter: <q>.iter()[.enumerate()], __key: PhantomData } }
                    F.nocfg(f, "`fn %s`" % f[3])
                    e = F.body(f)
                    if e[0] == "struct" and names_of(e[2]) in (["Self"], [ty]) and len(e[3]) == 2 and set(dict(e[3])) == {"iter", "__key"} \
                            and is_path(strip(dict(e[3])["__key"]), "PhantomData"):
                        helpers[f[3]] = source_of_expr(F, dict(e[3])["iter"], f[4][0][0], True)[1]
                        continue
            for f in fns:
                if f[3] in helpers: continue
                if f[3] not in CTORS: F.lost(f[1], "inherent method `%s::%s` is not one of the three constructors" % (ty, f[3]))
                if f[3] in ctors: F.lost(f[1], "`%s::%s` defined twice" % (ty, f[3]))
                F.nocfg(f, "`fn %s`" % f[3])
                if len(f[4]) != 1 or f[4][0][0] == "self" or not isinstance(f[4][0][0], str) or f[5] not in ("Self", i[3]["self"]) or f[8]:
                    F.lost(f[1], "signature of `%s::%s` is not (<p>: &'a <Container>) -> Self" % (ty, f[3]))
                p, pt = f[4][0]
                pt = pt.replace(" ", "")
                if not pt.startswith("&'a"): F.lost(f[1], "parameter of `%s::%s` is not a `&'a` reference" % (ty, f[3]))
                cont = pt[3:].split("<")[0]
                e = F.body(f)
                if e[0] == "call" and strip(e[2])[0] == "path" and len(names_of(strip(e[2]))) == 2 and names_of(strip(e[2]))[0] in ("Self", ty) \
                        and all(isinstance(x, str) for x in strip(e[2])[2]) and len(e[3]) == 1:
                    # Self::<helper>(&<p>.<field>)
                    h, a = names_of(strip(e[2]))[1], strip(e[3][0])
                    if h not in helpers: F.lost(e[1], "`%s::%s` calls `%s`, which is not a helper constructor over the slice" % (ty, f[3], h))
                    if not (a[0] == "ref" and not a[2] and strip(a[3])[0] == "field" and is_path(strip(strip(a[3])[2]), p)):
                        F.lost(a[1], "argument of `%s` is not `&%s.<field>`" % (h, p))
                    ctors[f[3]] = (f[1], cont, strip(a[3])[3], helpers[h])
                    continue
                if e[0] != "struct" or names_of(e[2]) not in (["Self"], [ty]):
                    F.lost(f[1], "`%s::%s` is not a bare `Self { .. }`" % (ty, f[3]))
                flds = dict(e[3])
                if len(e[3]) != 2 or set(flds) != {"iter", "__key"} or not is_path(strip(flds["__key"]), "PhantomData"):
                    F.lost(e[1], "`%s::%s` does not initialise exactly iter and __key: PhantomData" % (ty, f[3]))
                fld, s = source_of_expr(F, flds["iter"], p)
                ctors[f[3]] = (f[1], cont, fld, s)
            continue
        if tr in seen: F.lost(i[1], "second `impl %s for %s`" % (tr, ty))
        seen.add(tr)
        allowed = {"Iterator": ("next", "size_hint", "nth", "count", "last"), "DoubleEndedIterator": ("next_back", "nth_back"),
                   "ExactSizeIterator": (), "iter::FusedIterator": (), "FusedIterator": (), "core::iter::FusedIterator": ()}
        if tr not in allowed: F.lost(i[1], "`impl %s for %s`: a trait impl without semantics in GenIRIters.v" % (tr, ty))
        for f in fns:
            if f[3] not in allowed[tr]:
                F.lost(f[1], "`%s::%s` is overridden in `impl %s for %s`: the std default is replaced by code without semantics here" % (tr, f[3], tr, ty))
            if f[3] in methods: F.lost(f[1], "`%s` defined twice" % f[3])
            methods[f[3]] = (f[1],) + method_entry(F, f, f[3])
        if tr == "ExactSizeIterator": methods["len"] = (i[1], "CLenDefault", "PNone")
    for c in CTORS:
        if c not in ctors: F.lost(st[1], "`%s::%s` not found" % (ty, c))
    for tr in ("Iterator", "DoubleEndedIterator", "ExactSizeIterator"):
        if tr not in seen: F.lost(st[1], "no `impl %s for %s`" % (tr, ty))
    if not seen & {"iter::FusedIterator", "FusedIterator", "core::iter::FusedIterator"}:
        F.lost(st[1], "no `impl FusedIterator for %s`" % ty)
    for m in ("next", "next_back", "nth_back"):
        if m not in methods: F.lost(st[1], "`%s` is not implemented for %s (the std default has no semantics here)" % (m, ty))
    return st[1], src, ctors, methods


def lower_callers(repo):
    out = []
    for rel, ty in CONTAINERS:
        F = File(repo, rel)
        fns, into = {}, []
        for i in F.items:
            if i[0] != "impl": continue
            s = i[3]["self"].replace(" ", "")
            if i[3]["trait"] is None and s.split("<")[0] == ty:
                for f in i[4]:
                    if f[0] == "fn" and f[3] in ("iter", "strings"):
                        F.nocfg(i, "`impl %s`" % ty); fns.setdefault(f[3], []).append(f)
            if i[3]["trait"] == "IntoIterator" and s.lstrip("&'a").split("<")[0] == ty and s.startswith("&"):
                F.nocfg(i, "`impl IntoIterator`"); into.append(i)
        for name in ("iter", "strings"):
            c = fns.get(name, [])
            if len(c) != 1: F.lost(1, "expected exactly one `fn %s::%s`, found %d" % (ty, name, len(c)))
            f = c[0]
            F.nocfg(f, "`fn %s`" % name)
            if [t for _, t in f[4]] != ["&self"] or f[8]: F.lost(f[1], "signature of `%s::%s` is not (&self)" % (ty, name))
            e = F.body(f)
            if not (e[0] == "call" and strip(e[2])[0] == "path" and len(names_of(strip(e[2]))) == 2 and len(e[3]) == 1
                    and is_path(strip(e[3][0]), "self") and all(isinstance(x, str) for x in strip(e[2])[2])):
                F.lost(f[1], "`%s::%s` is not `<Type>::<constructor>(self)`" % (ty, name))
            t, ctor = names_of(strip(e[2]))
            out.append((rel, f[1], ty, name, 'FwdCtor "%s" "%s"' % (t, ctor)))
        if len(into) != 1: F.lost(1, "expected exactly one `impl IntoIterator for &'a %s`, found %d" % (ty, len(into)))
        fs = [f for f in into[0][4] if f[0] == "fn"]
        if len(fs) != 1 or fs[0][3] != "into_iter" or [t for _, t in fs[0][4]] != ["self"]:
            F.lost(into[0][1], "`impl IntoIterator for &%s` is not a single `fn into_iter(self)`" % ty)
        F.nocfg(fs[0], "`fn into_iter`")
        e = F.body(fs[0])
        if not (e[0] == "mcall" and is_path(strip(e[2]), "self") and not e[4]):
            F.lost(fs[0][1], "`into_iter` of &%s is not `self.<method>()`" % ty)
        out.append((rel, fs[0][1], ty, "into_iter", 'FwdSelf "%s"' % e[3]))
    return out


def hidden_items(F, items, top=True):
    """nothing about the two iterator types may hide where this lowering does not look: nested modules, macro invocations"""
    for i in items:
        if i[0] == "mod" and i[4]:
            for j in i[4]:
                if (j[0] == "impl" and j[3]["self"].replace("&", "").replace("'a", "").strip().split("<")[0] in ("Iter", "Strings")) \
                        or (j[0] in ("fn", "struct") and j[3] in ("iter_element", "Iter", "Strings")):
                    F.lost(j[1], "an item about Iter / Strings / iter_element inside `mod %s`" % i[3])
            hidden_items(F, i[4], False)
        if i[0] == "skipped" and i[3] == "macro":
            for t in i[4]:
                if t.kind == "id" and t.text in ("Iter", "Strings", "iter_element"):
                    F.lost(t.line, "a macro invocation / definition mentions `%s` (macros are not expanded)" % t.text)


def run(repo, out):
    F = File(repo, "src/util.rs")
    hidden_items(F, F.items)
    el = [i for i in F.items if i[0] == "fn" and i[3] == "iter_element"]
    if len(el) != 1: F.lost(1, "expected exactly one free `fn iter_element`")
    el = el[0]
    F.nocfg(el, "`fn iter_element`")
    if len(el[4]) != 1 or not isinstance(el[4][0][0], tuple) or len(el[4][0][0]) != 2 \
            or el[4][0][1].replace(" ", "") != "(usize,&&'astr)" or (el[5] or "").replace(" ", "") != "(K,&'astr)" or el[8]:
        F.lost(el[1], "signature of `iter_element` is not ((a, b): (usize, &&'a str)) -> (K, &'a str)")
    a, b = el[4][0][0]
    if a == b: F.lost(el[1], "`iter_element` binds one name twice")
    elem = elem_term(F, F.body(el), a, b)
    parts = []
    names = []
    for ty, low in (("Iter", "iter"), ("Strings", "strings")):
        line, src, ctors, methods = lower_type(F, ty)
        parts.append("(* %s:%d  struct %s: the field `iter` *)\nDefinition gen_%s_source : source := %s.\n" % (F.rel, line, ty, low, src))
        parts.append("(* constructors: (name, (container type, (field iterated, how `iter` is built)))   %s *)\n"
                     "Definition gen_%s_ctors : list (string * (string * (string * source))) :=\n  [%s].\n" % (
                         ", ".join("%s:%d" % (c, ctors[c][0]) for c in CTORS), low,
                         ";\n   ".join("(%s, (%s, (%s, %s)))" % (q(c), q(ctors[c][1]), q(ctors[c][2]), ctors[c][3]) for c in CTORS)))
        parts.append("(* methods: (name, (std method called on self.iter, post-processing))   %s *)\n"
                     "Definition gen_%s_methods : list method :=\n  [%s].\n" % (
                         ", ".join("%s:%d" % (m, methods[m][0]) for m in ORDER if m in methods), low,
                         ";\n   ".join("(%s, (%s, %s))" % (q(m), methods[m][1], methods[m][2]) for m in ORDER if m in methods)))
        names += ["gen_%s_source" % low, "gen_%s_ctors" % low, "gen_%s_methods" % low]
    parts.append("(* %s:%d-%d  fn iter_element *)\nDefinition gen_iter_element : eterm := %s.\n" % (F.rel, el[1], el[7], elem))
    callers = lower_callers(repo)
    parts.append("(* callers: (container, (method, forwarding))   %s *)\n"
                 "Definition gen_callers : list (string * (string * fwd)) :=\n  [%s].\n" % (
                     ", ".join("%s:%d" % (r, ln) for r, ln, _, _, _ in callers),
                     ";\n   ".join("(%s, (%s, %s))" % (q(ty), q(m), fw) for _, _, ty, m, fw in callers)))
    names += ["gen_iter_element", "gen_callers"]
    hdr = """(* ItersGen.v -- GENERATED by rust2coq.py (lower_iters.py) from %s and the callers in src/rodeo.rs, src/reader.rs,
   src/resolver.rs.  DO NOT EDIT: regenerated on every run.  Terms of the IR of GenIRIters.v. *)
From Coq Require Import List NArith String.
From LassoGen Require Import GenIRIters.
Import ListNotations.
Open Scope string_scope.
Open Scope N_scope.

""" % F.path
    open(os.path.join(out, "ItersGen.v"), "w").write(hdr + "\n".join(parts))
    print("rust2coq: iters: %d definitions -> %s" % (len(names), os.path.join(out, "ItersGen.v")))
