#!/bin/sh
# sanity_f1.sh [repo] [workroot] -- the historical defect F1 as a sanity check of the whole chain (NOT a deliverable theorem):
# remove the `if len > remaining_memory { return Err(..) }` guard from a scratch copy of single_threaded.rs, then
#   (1) ArenaGenProofs.v must FAIL on that copy (gen_store_str_eq and gen_store_str_safe),
#   (2) LegacySanity.v must COMPILE against it: generated store_str = Arena.vec_store_legacy for all inputs, and the
#       obligations are violated on the F1 witness (8 bytes copied into a 5-byte bucket).
# and (3) LegacySanity.v must NOT compile against the unmodified source.
set -u
HERE=$(cd "$(dirname "$0")" && pwd)
REPO=${1:-/repo}
ROOT=${2:-/tmp/trans-test/f1}
rm -rf "$ROOT"; mkdir -p "$ROOT/repo/src/arenas" "$ROOT/work" "$ROOT/work0"
cp "$REPO/src/arenas/bucket.rs" "$REPO/src/arenas/single_threaded.rs" "$ROOT/repo/src/arenas/"
python3 - "$ROOT/repo/src/arenas/single_threaded.rs" <<'PY'
import re, sys
p = sys.argv[1]; s = open(p).read()
s2, n = re.subn(r"[ \t]*(//[^\n]*\n[ \t]*)?if len > remaining_memory \{\s*return Err\(LassoError::new\(LassoErrorKind::MemoryLimitReached\)\);\s*\}\n", "", s)
if n != 1: sys.exit("sanity_f1: the F1 guard was not found exactly once")
open(p, "w").write(s2)
PY
[ $? -eq 0 ] || exit 2
fail=0
echo "== (1) ArenaGenProofs.v against the source without the F1 guard: must fail"
"$HERE/run_arena.sh" "$ROOT/repo" "$ROOT/work" > "$ROOT/arena.log" 2>&1 && { echo "UNEXPECTED: proofs pass"; fail=1; }
grep -E "^(FAILED|LOST)" "$ROOT/arena.log"
grep -q "^FAILED gen_store_str_eq" "$ROOT/arena.log" || { echo "UNEXPECTED: gen_store_str_eq did not fail"; fail=1; }
grep -q "^FAILED gen_store_str_safe " "$ROOT/arena.log" || { echo "UNEXPECTED: gen_store_str_safe did not fail"; fail=1; }
echo "== (2) LegacySanity.v against the same source: must compile"
cp "$HERE/LegacySanity.v" "$ROOT/work/"
( cd "$ROOT/work" && timeout 300 coqc -Q "${VERIF_COQ_DIR:-/verif/coq}" Lasso -Q . LassoGen LegacySanity.v ) > "$ROOT/legacy.log" 2>&1 \
  && [ "$(grep -c 'Closed under the global context' "$ROOT/legacy.log")" = 2 ] \
  && echo "PROVED legacy_store_str_eq f1_witness_unsafe" || { echo "UNEXPECTED: LegacySanity.v fails"; cat "$ROOT/legacy.log"; fail=1; }
echo "== (3) LegacySanity.v against the unmodified source: must NOT compile"
"$HERE/run_arena.sh" "$REPO" "$ROOT/work0" > "$ROOT/arena0.log" 2>&1 || { echo "UNEXPECTED: unmodified source fails"; fail=1; }
cp "$HERE/LegacySanity.v" "$ROOT/work0/"
( cd "$ROOT/work0" && timeout 300 coqc -Q "${VERIF_COQ_DIR:-/verif/coq}" Lasso -Q . LassoGen LegacySanity.v ) > "$ROOT/legacy0.log" 2>&1 \
  && { echo "UNEXPECTED: LegacySanity.v compiles against the repaired source"; fail=1; } || echo "rejected, as it must be: $(grep -m1 -A1 '^File' "$ROOT/legacy0.log" | tr '\n' ' ' | cut -c1-150)"
echo "== (4) the same for the lock-free arena"
mkdir -p "$ROOT/lrepo/src/arenas" "$ROOT/lwork"
cp "$REPO/src/arenas/atomic_bucket.rs" "$REPO/src/arenas/lockfree.rs" "$ROOT/lrepo/src/arenas/"
python3 - "$ROOT/lrepo/src/arenas/lockfree.rs" <<'PY'
import re, sys
p = sys.argv[1]; s = open(p).read()
s2, n = re.subn(r"[ \t]*(//[^\n]*\n[ \t]*)?if slice\.len\(\) > remaining_memory \{\s*return Err\(LassoError::new\(LassoErrorKind::MemoryLimitReached\)\);\s*\}\n", "", s)
if n != 1: sys.exit("sanity_f1: the lock-free F1 guard was not found exactly once")
open(p, "w").write(s2)
PY
[ $? -eq 0 ] || exit 2
"$HERE/run_lockfree.sh" "$ROOT/lrepo" "$ROOT/lwork" > "$ROOT/lockfree.log" 2>&1 && { echo "UNEXPECTED: lock-free proofs pass"; fail=1; }
grep -E "^(FAILED|LOST)" "$ROOT/lockfree.log" | cut -c1-60
grep -q "^FAILED gen_lf_store_str_eq" "$ROOT/lockfree.log" || { echo "UNEXPECTED: gen_lf_store_str_eq did not fail"; fail=1; }
grep -q "^FAILED gen_lf_store_str_safe" "$ROOT/lockfree.log" || { echo "UNEXPECTED: gen_lf_store_str_safe did not fail"; fail=1; }
cp "$HERE/LegacySanityLf.v" "$ROOT/lwork/"
( cd "$ROOT/lwork" && timeout 300 coqc -Q "${VERIF_COQ_DIR:-/verif/coq}" Lasso -Q . LassoGen LegacySanityLf.v ) > "$ROOT/legacylf.log" 2>&1 \
  && grep -q 'Closed under the global context' "$ROOT/legacylf.log" \
  && echo "PROVED legacy_lf_store_str_eq" || { echo "UNEXPECTED: LegacySanityLf.v fails"; cat "$ROOT/legacylf.log"; fail=1; }
[ $fail -eq 0 ] && echo "sanity_f1: OK" || echo "sanity_f1: FAIL"
exit $fail
