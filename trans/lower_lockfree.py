#!/usr/bin/env python3
"""lower_lockfree.py -- the ONE-THREAD view of src/arenas/lockfree.rs  ->  LockfreeGen.v (terms of GenIRLf.v).

Assumptions written into the generated header: atomics are read as plain fields (`x.load(_)` = the field,
`x.store(v, _)` = assignment, `fetch_update` runs its closure once and succeeds), memory orderings are ignored,
`verif_point!(..)` expands to nothing, and the functions of atomic_bucket.rs are replaced by their specification
(GenIRLf.v); only their existence and signature is checked here.

Recognised forms in addition to the number / boolean / NonZeroUsize / result forms of lower_arena.py:
  numbers     self.F.load(Ordering::_) for F in bucket_capacity, memory_usage, max_memory_usage
              self.current_memory_usage() / self.get_max_memory_usage()   (inlined after checking that the callee's body
                                                                            is exactly the corresponding load)
  statements  let x = <number>;   let x = <NonZeroUsize>;   let x = STR.as_bytes();   debug_assert*!   verif_point!(..) (nothing)
              if c { .. } [else ..]    return <result>;    self.F.store(e, Ordering::_);
              self.allocate_memory(e)?;   self.set_bucket_capacity(e);
              let [mut] b = AtomicBucket::with_capacity(NZ)?;    let r = unsafe { b.push_slice(STR) };
              self.buckets.push_front(b.into_ref());
              for b in self.buckets.iter() { if let Ok(start) = b.try_inc_length(e) { .. } }      (the body must return)
              let p = unsafe { b.slice_mut(e) };      unsafe { p.copy_from_nonoverlapping(STR.as_ptr(), e) };
              let r = unsafe { str::from_utf8_unchecked(slice::from_raw_parts(p, e)) };
  result      self.F.fetch_update(Ordering::_, Ordering::_, |x| { .. None / Some(e) .. }).map(|_| ()).map_err(|_| LassoError::new(..))
Shadowing `let`s are accepted except inside a flattened `unsafe { .. }` / `{ .. }` statement block.
"""
import os
import rsparse
from rsparse import Lost
from lower_arena import Fn, Known, Scope, strip, names_of, is_path, is_self_field, q

LF_FIELDS = {"buckets": "AtomicBucketList", "bucket_capacity": "AtomicUsize", "memory_usage": "AtomicUsize", "max_memory_usage": "AtomicUsize"}
ATOMIC_FIELD = {"bucket_capacity": "FBucketCap", "memory_usage": "FUsage", "max_memory_usage": "FMaxMem"}
ORDERINGS = ("Relaxed", "Acquire", "Release", "AcqRel", "SeqCst")
ACCESSORS = {"current_memory_usage": "memory_usage", "get_max_memory_usage": "max_memory_usage"}


def is_ordering(e):
    e = strip(e)
    return e[0] == "path" and len(names_of(e)) == 2 and names_of(e)[0] == "Ordering" and names_of(e)[1] in ORDERINGS


class LScope(Scope):
    def __init__(self):
        Scope.__init__(self)
        self.flat = 0

    def bind(self, x, kind, line):
        if x == "self": raise Lost(line, "binding of `self`")
        if self.get(x) is not None and self.flat:
            raise Lost(line, "`%s` shadows a visible name inside a flattened block (outside the subset)" % x)
        self.frames[-1][x] = kind


class LfFn(Fn):
    def __init__(self, rkind, known, accessors_ok):
        Fn.__init__(self, "lockfree", rkind, known)
        self.sc = LScope()
        self.accessors_ok = accessors_ok

    def atomic_load(self, e):
        """self.F.load(Ordering::_) -> field constructor or None"""
        e = strip(e)
        if e[0] == "mcall" and e[3] == "load" and len(e[4]) == 1 and is_ordering(e[4][0]):
            r = strip(e[2])
            if is_self_field(r) and r[3] in ATOMIC_FIELD:
                return ATOMIC_FIELD[r[3]]
        return None

    def num(self, e):
        e0 = strip(e)
        f = self.atomic_load(e0)
        if f: return "EField %s" % f
        if e0[0] == "mcall" and not e0[4] and is_path(strip(e0[2]), "self") and e0[3] in ACCESSORS:
            if e0[3] not in self.accessors_ok:
                self.lost(e0, "accessor `%s` is not a plain load of `%s`" % (e0[3], ACCESSORS[e0[3]]))
            return "EField %s" % ATOMIC_FIELD[ACCESSORS[e0[3]]]
        return Fn.num(self, e)

    def result(self, e):
        e0 = strip(e)
        if self.rkind == "opt":
            if is_path(e0, "None"): return "RNone"
            if e0[0] == "call" and is_path(e0[2], "Some") and len(e0[3]) == 1:
                return "RSome (%s)" % self.num(e0[3][0])
            self.lost(e0, "closure result is not None / Some(e)")
        return Fn.result(self, e)

    # ---- statements ----
    def block(self, b, tail_returns):
        self.sc.push(); out = self.stmts(b, tail_returns); self.sc.pop(); return out

    def stmts(self, b, tail_returns):
        out = []
        for st in b[2]:
            out += self.let(st) if st[0] == "let" else self.expr_stmt(st[2], st[1])
        t = b[3]
        if t is not None:
            out += self.tail(t) if tail_returns else self.expr_stmt(t, t[1])
        return out

    def flat_block(self, e, tail_returns):
        self.sc.push(); self.sc.flat += 1
        r = self.stmts(e, tail_returns)
        self.sc.flat -= 1; self.sc.pop()
        return r

    def tail(self, e):
        k = e[0]
        if k == "paren": return self.tail(e[2])
        if k == "block": return self.flat_block(e, True)
        if k == "if":
            if e[4] is None:
                if self.rkind != "unit": self.lost(e, "`if` without `else` as the value of a non-unit function")
                return [("if", self.boolean(e[2]), self.block(e[3], True), [], e[1])]
            els = self.block(e[4], True) if e[4][0] == "block" else self.tail(e[4])
            return [("if", self.boolean(e[2]), self.block(e[3], True), els, e[1])]
        if k == "return" or self.rkind == "unit":
            return self.expr_stmt(e, e[1])
        fu = self.fetch_update(e)
        if fu: return fu
        return self.ret_stmts(e)

    def ret_stmts(self, e):
        e0 = strip(e)
        # Ok(str::from_utf8_unchecked(slice::from_raw_parts(p, n)))   =   let r = ..; Ok(r)
        if self.rkind == "res_str" and e0[0] == "call" and is_path(e0[2], "Ok") and len(e0[3]) == 1:
            v = strip(e0[3][0])
            if v[0] == "call" and v[2][0] == "path" and names_of(v[2])[-2:] == ["str", "from_utf8_unchecked"]:
                r = "str@%d" % e0[1]
                st = self.let(("let", e0[1], ("pbind", e0[1], r, False), None, e0[3][0]))
                return st + [("s", "LReturn (ROkRef %s)" % q(r), e0[1])]
        return [("s", "LReturn (%s)" % self.result(e), e[1])]

    def fetch_update(self, e):
        """self.F.fetch_update(O, O, |x| body).map(|_| ()).map_err(|_| LassoError::new(K))"""
        e = strip(e)
        if e[0] == "match" and len(e[3]) == 2 and all(len(a) == 2 for a in e[3]):
            # match self.F.fetch_update(O, O, f) { Ok(_) => Ok(()), Err(_) => Err(LassoError::new(K)) }
            fu0 = strip(e[2])
            if fu0[0] == "mcall" and fu0[3] == "fetch_update":
                okv = errv = None
                for pat, body in e[3]:
                    if pat[0] == "ptuplestruct" and len(pat[3]) == 1 and pat[3][0][0] in ("pbind", "pwild"):
                        b = strip(body)
                        if is_path(pat[2], "Ok") and b[0] == "call" and is_path(b[2], "Ok") and len(b[3]) == 1 \
                                and strip(b[3][0])[0] == "tuple" and not strip(b[3][0])[2]: okv = True
                        if is_path(pat[2], "Err") and b[0] == "call" and is_path(b[2], "Err") and len(b[3]) == 1: errv = b[3][0]
                if okv and errv is not None:
                    unit = ("tuple", e[1], [])
                    e = ("mcall", e[1], ("mcall", e[1], fu0, "map", [("closure", e[1], ["_"], unit)]), "map_err",
                         [("closure", e[1], ["_"], errv)])
        if not (e[0] == "mcall" and e[3] == "map_err" and len(e[4]) == 1): return None
        if self.rkind != "res_unit": self.lost(e, "fetch_update chain in a function that does not return LassoResult<()>")
        c2 = e[4][0]
        if not (c2[0] == "closure" and c2[2] == ["_"]): self.lost(e, "map_err argument is not `|_| LassoError::new(..)`")
        k = self.errkind(c2[3])
        m = strip(e[2])
        if not (m[0] == "mcall" and m[3] == "map" and len(m[4]) == 1 and m[4][0][0] == "closure" and m[4][0][2] == ["_"]
                and strip(m[4][0][3])[0] == "tuple" and not strip(m[4][0][3])[2]):
            self.lost(e, "expected `.map(|_| ())` before `.map_err(..)`")
        fu = strip(m[2])
        if not (fu[0] == "mcall" and fu[3] == "fetch_update" and len(fu[4]) == 3 and is_ordering(fu[4][0]) and is_ordering(fu[4][1])
                and fu[4][2][0] == "closure" and len(fu[4][2][2]) == 1 and fu[4][2][2][0] != "_"):
            self.lost(e, "expected `self.<field>.fetch_update(Ordering::_, Ordering::_, |x| ..)`")
        r = strip(fu[2])
        if not (is_self_field(r) and r[3] in ATOMIC_FIELD): self.lost(e, "fetch_update on something that is not an atomic field of self")
        x = fu[4][2][2][0]
        inner = LfFn("opt", self.known, self.accessors_ok)
        inner.sc = self.sc
        self.sc.push(); self.sc.bind(x, "num", e[1])
        body = fu[4][2][3]
        st = inner.stmts(body, True) if body[0] == "block" else inner.tail(body)
        self.sc.pop()
        return [("fu", ATOMIC_FIELD[r[3]], x, st, k, e[1])]

    def let(self, st):
        _, ln, pat, ty, init = st
        if pat[0] != "pbind": self.lost(st, "`let` pattern outside the subset")
        x, mut = pat[2], pat[3]
        e = strip(init)
        if e[0] == "try" and strip(e[2])[0] == "call" and is_path(strip(e[2])[2], "AtomicBucket", "with_capacity"):
            c = strip(e[2])
            if len(c[3]) != 1: self.lost(st, "AtomicBucket::with_capacity call outside the subset")
            z = self.nz(c[3][0])
            self.known.need("AtomicBucket", "with_capacity", ln)
            self.sc.bind(x, "bucket", ln)
            return [("s", "LNewBucketQ %s (%s)" % (q(x), z), ln)]
        if mut: self.lost(st, "`let mut` of something that is not a new bucket")
        if e[0] == "mcall":
            recv, name, args = strip(e[2]), e[3], e[4]
            if name == "push_slice" and len(args) == 1:
                bv = self.var_of(recv, ("bucket",), "an owned bucket variable as receiver of push_slice")
                self.var_of(args[0], ("str",), "the string argument (or its .as_bytes()) as argument of push_slice")
                self.known.need("UniqueBucketRef", "push_slice", ln)
                self.sc.bind(x, "ref", ln)
                return [("s", "LPushSlice %s %s" % (q(x), q(bv)), ln)]
            if name == "as_bytes" and not args and recv[0] == "path" and len(names_of(recv)) == 1 and self.sc.get(names_of(recv)[0]) == "str":
                self.sc.bind(x, "str", ln)
                return []
            if name == "slice_mut" and len(args) == 1:
                bv = self.var_of(recv, ("bucketref",), "the loop's bucket variable as receiver of slice_mut")
                n = self.num(args[0])
                self.known.need("BucketRef", "slice_mut", ln)
                self.sc.bind(x, "ptr", ln)
                return [("s", "LLetSliceMut %s %s (%s)" % (q(x), q(bv), n), ln)]
        if e[0] == "call" and e[2][0] == "path" and names_of(e[2])[-2:] == ["str", "from_utf8_unchecked"] and len(e[3]) == 1:
            c = strip(e[3][0])
            if c[0] == "call" and c[2][0] == "path" and names_of(c[2])[-2:] == ["slice", "from_raw_parts"] and len(c[3]) == 2:
                p = self.var_of(c[3][0], ("ptr",), "a pointer variable")
                n = self.num(c[3][1])
                self.sc.bind(x, "ref", ln)
                return [("s", "LLetStrFromRaw %s %s (%s)" % (q(x), q(p), n), ln)]
            self.lost(st, "from_utf8_unchecked of something that is not slice::from_raw_parts(<ptr>, <len>)")
        # a NonZeroUsize value?
        if (e[0] == "call" and is_path(e[2], "NonZeroUsize", "new_unchecked")) or e[0] == "try":
            z = self.nz(e)
            self.sc.bind(x, "nz", ln)
            return [("s", "LLetNZ %s (%s)" % (q(x), z), ln)]
        if ty not in (None, "usize"): self.lost(st, "type annotation `%s`" % ty)
        n = self.num(init)
        self.sc.bind(x, "num", ln)
        return [("s", "LLet %s (%s)" % (q(x), n), ln)]

    def expr_stmt(self, e, ln):
        k = e[0]
        if k == "paren": return self.expr_stmt(e[2], ln)
        if k == "block": return self.flat_block(e, False)
        if k == "if":
            els = []
            if e[4] is not None:
                els = self.block(e[4], False) if e[4][0] == "block" else self.expr_stmt(e[4], e[4][1])
            return [("if", self.boolean(e[2]), self.block(e[3], False), els, e[1])]
        if k == "return":
            if e[2] is None:
                if self.rkind != "unit": self.lost(e, "`return;` in a non-unit function")
                return [("s", "LReturn RUnit", e[1])]
            return self.ret_stmts(e[2])
        if k == "macro":
            if e[2] == "verif_point":
                return []                      # expands to nothing without --cfg lasso_verif
            if e[2] == "debug_assert" and len(e[3]) == 1:
                return [("s", "LAssert (%s)" % self.boolean(e[3][0]), e[1])]
            if e[2] in ("debug_assert_ne", "debug_assert_eq") and len(e[3]) == 2:
                c = "BEq (%s) (%s)" % (self.num(e[3][0]), self.num(e[3][1]))
                return [("s", "LAssert (%s)" % (c if e[2].endswith("eq") else "BNot (%s)" % c), e[1])]
            self.lost(e, "macro `%s!` is outside the subset" % e[2])
        if k == "try":
            m = strip(e[2])
            if m[0] == "mcall" and m[3] == "allocate_memory" and is_path(strip(m[2]), "self") and len(m[4]) == 1:
                self.known.need("LockfreeArena", "allocate_memory", e[1])
                return [("s", "LAllocQ (%s)" % self.num(m[4][0]), e[1])]
            self.lost(e, "`?` statement outside the subset")
        if k == "mcall":
            recv, name, args = strip(e[2]), e[3], e[4]
            if is_path(recv, "self") and name == "set_bucket_capacity" and len(args) == 1:
                self.known.need("LockfreeArena", "set_bucket_capacity", e[1])
                return [("s", "LSetCap (%s)" % self.num(args[0]), e[1])]
            if is_self_field(recv, "buckets") and name == "push_front" and len(args) == 1:
                a = strip(args[0])
                if a[0] == "mcall" and a[3] == "into_ref" and not a[4]:
                    b = self.var_of(a[2], ("bucket",), "an owned bucket variable")
                    self.known.need("AtomicBucketList", "push_front", e[1]); self.known.need("UniqueBucketRef", "into_ref", e[1])
                    return [("s", "LPushFront %s" % q(b), e[1])]
                self.lost(e, "push_front argument is not <bucket>.into_ref()")
            if is_self_field(recv) and recv[3] in ATOMIC_FIELD and name == "store" and len(args) == 2 and is_ordering(args[1]):
                return [("s", "LStoreField %s (%s)" % (ATOMIC_FIELD[recv[3]], self.num(args[0])), e[1])]
            if name == "copy_from_nonoverlapping" and len(args) == 2:
                p = self.var_of(recv, ("ptr",), "a pointer variable")
                src = strip(args[0])
                if not (src[0] == "mcall" and src[3] == "as_ptr" and not src[4]): self.lost(e, "copy source is not <bytes>.as_ptr()")
                self.var_of(src[2], ("str",), "the string argument's bytes as copy source")
                return [("s", "LCopyNonoverlapping %s (%s)" % (q(p), self.num(args[1])), e[1])]
            self.lost(e, "method call statement `.%s(..)` is outside the subset" % name)
        if k == "for":
            return self.first_fit(e)
        self.lost(e, "statement form `%s` is outside the subset" % k)

    def first_fit(self, e):
        _, ln, pat, it, body = e
        it = strip(it)
        if not (pat[0] == "pbind" and it[0] == "mcall" and it[3] == "iter" and not it[4] and is_self_field(strip(it[2]), "buckets")):
            self.lost(e, "`for` loop is not `for b in self.buckets.iter()`")
        b = pat[2]
        if not (not body[2] and body[3] is not None and body[3][0] == "iflet") and \
           not (len(body[2]) == 1 and body[3] is None and body[2][0][0] == "expr" and body[2][0][2][0] == "iflet"):
            self.lost(e, "loop body is not a single `if let Ok(start) = b.try_inc_length(n) { .. }`")
        il = body[3] if body[3] is not None else body[2][0][2]
        _, l2, p2, scrut, then, els = il
        if els is not None: self.lost(il, "`else` on the try_inc_length test")
        if not (p2[0] == "ptuplestruct" and is_path(p2[2], "Ok") and len(p2[3]) == 1 and p2[3][0][0] == "pbind" and not p2[3][0][3]):
            self.lost(il, "pattern is not `Ok(<name>)`")
        start = p2[3][0][2]
        s = strip(scrut)
        if not (s[0] == "mcall" and s[3] == "try_inc_length" and len(s[4]) == 1 and is_path(strip(s[2]), b)):
            self.lost(il, "scrutinee is not `%s.try_inc_length(n)`" % b)
        n = self.num(s[4][0])
        self.known.need("BucketRef", "try_inc_length", l2); self.known.need("AtomicBucketList", "iter", ln)
        self.sc.push(); self.sc.bind(b, "bucketref", ln); self.sc.bind(start, "num", l2)
        t = self.stmts(then, False)
        self.sc.pop()
        return [("fit", b, n, start, t, ln)]


def lpp(stmts, ind, rel):
    pad = " " * ind
    if not stmts: return "LSkip"
    items = []
    for s in stmts:
        if s[0] == "s":
            items.append("%s  (* %s:%d *) %s" % (pad, rel, s[2], s[1]))
        elif s[0] == "if":
            items.append("%s  (* %s:%d *) LIf (%s)\n%s    (%s)\n%s    (%s)" % (pad, rel, s[4], s[1], pad, lpp(s[2], ind + 4, rel), pad, lpp(s[3], ind + 4, rel)))
        elif s[0] == "fit":
            items.append("%s  (* %s:%d *) LForFirstFit %s (%s) %s\n%s    (%s)" % (pad, rel, s[5], q(s[1]), s[2], q(s[3]), pad, lpp(s[4], ind + 4, rel)))
        else:
            items.append("%s  (* %s:%d *) LFetchUpdateRet %s %s\n%s    (%s)\n%s    %s" % (pad, rel, s[5], s[1], q(s[2]), pad, lpp(s[3], ind + 4, rel), pad, s[4]))
    return "lblock [\n" + ";\n".join(items) + " ]"


def impl_fns(items, ty, path):
    """functions of the inherent impl(s) of `ty` in a parsed file"""
    out = {}
    for i in items:
        if i[0] == "impl" and i[3]["trait"] is None and i[3]["self"] == ty:
            if i[3]["generics"] or i[3]["where"]:
                e = Lost(i[1], "generic `impl %s`" % ty); e.file = path; raise e
            for f in i[4]:
                if f[0] == "fn": out.setdefault(f[3], []).append(f)
    return out


def check_sig(fns, ty, name, params, ret, path):
    c = fns.get(name, [])
    if len(c) != 1:
        e = Lost(1, "expected exactly one `fn %s` in `impl %s`, found %d" % (name, ty, len(c))); e.file = path; raise e
    f = c[0]
    if [t for _, t in f[4]] != params or f[5] != ret or any(a.startswith("cfg(") for a in f[2]):
        e = Lost(f[1], "signature of `%s::%s` is not (%s) -> %s" % (ty, name, ", ".join(params), ret)); e.file = path; raise e
    return f


def run(repo, out):
    from lower_arena import Unit
    known = Known()
    A = Unit(repo, "src/arenas/lockfree.rs", "LockfreeArena", LF_FIELDS)
    # interpreted by specification (or inlined by the lowering itself after a shape check): everything else of this file is inlined
    A.keep = lambda ty, name, node: (ty, name) in {("LockfreeArena", "allocate_memory"), ("LockfreeArena", "set_bucket_capacity"),
                                                   ("LockfreeArena", "current_memory_usage"), ("LockfreeArena", "get_max_memory_usage")}
    # ---- callees in atomic_bucket.rs: existence and signature only (replaced by their specification) ----
    bpath = os.path.join(repo, "src/arenas/atomic_bucket.rs")
    try:
        bparser, bitems = rsparse.parse_file(bpath)
    except Lost as e:
        e.file = bpath; raise
    for ty, name, params, ret in [
            ("BucketRef", "try_inc_length", ["&self", "usize"], "Result<usize,()>"),
            ("BucketRef", "slice_mut", ["&self", "usize"], "*mut u8"),
            ("UniqueBucketRef", "push_slice", ["&mut self", "&[u8]"], "&'static str"),
            ("UniqueBucketRef", "into_ref", ["self"], "BucketRef"),
            ("AtomicBucket", "with_capacity", ["NonZeroUsize"], "LassoResult<UniqueBucketRef>"),
            ("AtomicBucketList", "new", ["NonZeroUsize"], "LassoResult<Self>"),
            ("AtomicBucketList", "push_front", ["&self", "BucketRef"], None),
            ("AtomicBucketList", "iter", ["&self"], "AtomicBucketIter<'_>")]:
        check_sig(impl_fns(bitems, ty, bpath), ty, name, params, ret, bpath)

    def lower(name, gen, params, ret, rk, kinds, quals, accessors_ok):
        f = A.fn(name, params, ret, quals)
        fnl = LfFn(rk, known, accessors_ok)
        ps = []
        try:
            for (p, _t), kd in zip([x for x in f[4] if x[0] != "self"], kinds):
                fnl.sc.bind(p, kd, f[1])
                if kd in ("num", "nz"): ps.append(p)
            st = fnl.stmts(A.body(f), True)
            if rk == "unit": st.append(("s", "LReturn RUnit", f[7]))
        except Lost as e:
            e.file = A.path; raise
        text = "(* %s:%d-%d  fn %s *)\nDefinition %s : lfundef := mkLFun [%s]\n  (%s).\n" % (
            A.rel, f[1], f[7], name, gen, "; ".join(q(p) for p in ps), lpp(st, 2, A.rel))
        return text, st

    parts = []
    # accessors first: they may be inlined at their call sites only if they are exactly the expected load
    acc_ok = set()
    for name, fld in ACCESSORS.items():
        t, st = lower(name, "gen_lf_" + name, [("self", "&self")], "usize", "usize", [], (), set())
        parts.append(t)
        if len(st) == 1 and st[0][1] == "LReturn (RNum (EField %s))" % ATOMIC_FIELD[fld]:
            acc_ok.add(name)
    # new
    f = A.fn("new", [("capacity", "NonZeroUsize"), ("max_memory_usage", "usize")], "LassoResult<Self>")
    try:
        fnl = LfFn("new", known, acc_ok)
        (p1, _), (p2, _) = f[4]
        fnl.sc.bind(p1, "nz", f[1]); fnl.sc.bind(p2, "num", f[1])
        body = A.body(f)
        t = strip(body[3]) if (not body[2] and body[3] is not None) else None
        if not (t and t[0] == "call" and is_path(t[2], "Ok") and len(t[3]) == 1 and strip(t[3][0])[0] == "struct"):
            raise Lost(f[1], "LockfreeArena::new body is not a single `Ok(Self {..})`")
        s = strip(t[3][0]); flds = dict(s[3])
        if names_of(s[2]) not in (["Self"], ["LockfreeArena"]) or set(flds) != set(LF_FIELDS) or len(s[3]) != 4:
            raise Lost(s[1], "LockfreeArena literal does not initialise exactly its four fields")
        b = strip(flds["buckets"])
        if not (b[0] == "try" and strip(b[2])[0] == "call" and is_path(strip(b[2])[2], "AtomicBucketList", "new") and len(strip(b[2])[3]) == 1):
            raise Lost(b[1], "buckets is not AtomicBucketList::new(NZ)?")

        def atomic_new(e):
            e = strip(e)
            if e[0] == "call" and is_path(e[2], "AtomicUsize", "new") and len(e[3]) == 1: return fnl.num(e[3][0])
            raise Lost(e[1], "field is not initialised with AtomicUsize::new(e)")
        parts.append("(* %s:%d-%d  fn new *)\nDefinition gen_lf_new : lnewdef :=\n  mkLNew [%s; %s]\n    (* buckets: AtomicBucketList::new(..)? *) (%s)\n    (* bucket_capacity *) (%s)\n    (* memory_usage *) (%s)\n    (* max_memory_usage *) (%s).\n" % (
            A.rel, f[1], f[7], q(p1), q(p2), fnl.nz(strip(b[2])[3][0]), atomic_new(flds["bucket_capacity"]),
            atomic_new(flds["memory_usage"]), atomic_new(flds["max_memory_usage"])))
    except Lost as e:
        e.file = A.path; raise
    for name, gen, params, ret, rk, kinds, quals in [
            ("set_max_memory_usage", "gen_lf_set_max_memory_usage", [("self", "&self"), ("m", "usize")], None, "unit", ["num"], ()),
            ("set_bucket_capacity", "gen_lf_set_bucket_capacity", [("self", "&self"), ("c", "usize")], None, "unit", ["num"], ()),
            ("allocate_memory", "gen_lf_allocate_memory", [("self", "&self"), ("n", "usize")], "LassoResult<()>", "res_unit", ["num"], ()),
            ("store_str", "gen_lf_store_str", [("self", "&self"), ("string", "&str")], "LassoResult<&'static str>", "res_str", ["str"], ("unsafe",))]:
        parts.append(lower(name, gen, params, ret, rk, kinds, quals, acc_ok)[0])
    names = ["gen_lf_current_memory_usage", "gen_lf_get_max_memory_usage", "gen_lf_new", "gen_lf_set_max_memory_usage",
             "gen_lf_set_bucket_capacity", "gen_lf_allocate_memory", "gen_lf_store_str"]
    hdr = """(* LockfreeGen.v -- GENERATED by rust2coq.py from
     %s      (callee signatures checked in %s)
   DO NOT EDIT: regenerated on every run.  Terms of the IR of GenIRLf.v.
   ONE-THREAD VIEW: atomics are read as plain fields (load = the field, store = assignment, fetch_update runs its
   closure once and succeeds, the CAS of try_inc_length succeeds at once); memory orderings are ignored;
   verif_point!(..) expands to nothing.  Callees replaced by their specification:
     %s
   Accessors inlined at their call sites (after checking that their body is the plain load): %s
   Private helpers of the source file inlined before lowering (astx.py): %s *)
From Lasso Require Import Base Arena.
From LassoGen Require Import GenPrelude GenIR GenIRLf.
Open Scope string_scope.
Open Scope N_scope.

""" % (A.path, bpath, ", ".join(sorted(set("%s::%s" % (t, n) for t, n, _ in known.needs))), ", ".join(sorted(acc_ok)) or "none", ", ".join(sorted(A.inlined)) or "none")
    tail = "\n#[global] Hint Unfold %s : arenagen.\n" % " ".join(names)
    open(os.path.join(out, "LockfreeGen.v"), "w").write(hdr + "\n".join(parts) + tail)
    print("rust2coq: lockfree: %d definitions -> %s" % (len(names), os.path.join(out, "LockfreeGen.v")))
