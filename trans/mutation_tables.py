"""mutation_tables.py -- the edits tried by test_mutations.py: (name, description, expectation, [(file, edit)])."""
from mutlib import sub, move_block

K = "src/keys.rs"

MINI_OLD = """        if int < u16::MAX as usize {
            // Safety: The integer is less than the max value and then incremented by one, meaning that
            // is is impossible for a zero to inhabit the NonZeroU16
            unsafe {
                Some(Self {
                    key: NonZeroU16::new_unchecked(int as u16 + 1),
                })
            }
        } else {
            None
        }"""
LARGE_OLD = """        if int < usize::MAX {
            // Safety: The integer is less than the max value and then incremented by one, meaning that
            // is is impossible for a zero to inhabit the NonZeroUsize
            unsafe {
                Some(Self {
                    key: NonZeroUsize::new_unchecked(int + 1),
                })
            }
        } else {
            None
        }"""

KEYS = [
    # ---- behaviour changes: the translator must still succeed, the proofs must FAIL ----
    ("k-guard-le", "Spur guard `<` -> `<=`", "fail", [(K, sub("if int < u32::MAX as usize {", "if int <= u32::MAX as usize {"))]),
    ("k-no-plus1", "MicroSpur `int as u8 + 1` -> `int as u8`", "fail", [(K, sub("int as u8 + 1", "int as u8"))]),
    ("k-mini-u8max", "MiniSpur guard `u16::MAX` -> `u8::MAX`", "fail", [(K, sub("if int < u16::MAX as usize {", "if int < u8::MAX as usize {"))]),
    ("k-into-no-minus1", "Spur into_usize: `- 1` dropped", "fail", [(K, sub("self.key.get() as usize - 1", "self.key.get() as usize", nth=0, count=3))]),
    ("k-large-plus2", "LargeSpur `int + 1` -> `int + 2`", "fail", [(K, sub("new_unchecked(int + 1)", "new_unchecked(int + 2)"))]),
    ("k-guard-true", "MicroSpur guard replaced by `true`", "fail", [(K, sub("if int < u8::MAX as usize {", "if true {"))]),
    ("k-trunc-u8", "Spur `int as u32 + 1` -> `(int as u8) as u32 + 1`", "fail", [(K, sub("int as u32 + 1", "(int as u8) as u32 + 1"))]),
    ("k-large-wrong-max", "LargeSpur guard `usize::MAX` -> `u32::MAX as usize`", "fail", [(K, sub("if int < usize::MAX {", "if int < u32::MAX as usize {", count=1))]),
    ("k-new-keytype", "a fifth, well-formed key type TinySpur(NonZeroU8)", "fail", [(K, sub("macro_rules! impl_serde {", """pub struct TinySpur { key: NonZeroU8 }
unsafe impl Key for TinySpur {
    fn into_usize(self) -> usize { self.key.get() as usize - 1 }
    fn try_from_usize(int: usize) -> Option<Self> {
        if int < u8::MAX as usize { unsafe { Some(Self { key: NonZeroU8::new_unchecked(int as u8 + 1) }) } } else { None }
    }
}
macro_rules! impl_serde {"""))]),
    # ---- harmless rewrites: the proofs must keep PASSING ----
    ("k-h-u64-compare", "Spur guard as `(int as u64) < u32::MAX as u64`", "pass", [(K, sub("if int < u32::MAX as usize {", "if (int as u64) < u32::MAX as u64 {"))]),
    ("k-h-reorder", "impl Key for MicroSpur moved in front of LargeSpur's", "pass", [(K, move_block("unsafe impl Key for MicroSpur {", "\n}\n", "unsafe impl Key for LargeSpur {"))]),
    ("k-h-comments-attrs", "extra comments and attributes", "pass", [(K, sub("    fn try_from_usize(int: usize) -> Option<Self> {\n        if int < u16::MAX as usize {", "    #[inline(always)]\n    #[must_use]\n    fn try_from_usize(int: usize) -> Option<Self> {\n        /* block comment with if int <= 3 { */\n        if int < u16::MAX as usize { // trailing"))]),
    ("k-h-negated-if", "MiniSpur `if !(int < X) { None } else { Some(..) }`", "pass", [(K, sub("""        if int < u16::MAX as usize {
            // Safety: The integer is less than the max value and then incremented by one, meaning that
            // is is impossible for a zero to inhabit the NonZeroU16
            unsafe {
                Some(Self {
                    key: NonZeroU16::new_unchecked(int as u16 + 1),
                })
            }
        } else {
            None
        }""", """        if !(int < u16::MAX as usize) {
            None
        } else {
            unsafe { Some(Self { key: NonZeroU16::new_unchecked(int as u16 + 1) }) }
        }"""))]),
    ("k-h-let", "Spur: `let max = u32::MAX as usize; if int < max`", "pass", [(K, sub("        if int < u32::MAX as usize {", "        let max = u32::MAX as usize;\n        if int < max {"))]),
    ("k-h-le-minus1", "MicroSpur guard as `int <= u8::MAX as usize - 1`", "pass", [(K, sub("if int < u8::MAX as usize {", "if int <= u8::MAX as usize - 1 {"))]),
    ("k-h-flipped", "MiniSpur guard as `u16::MAX as usize > int`", "pass", [(K, sub("if int < u16::MAX as usize {", "if u16::MAX as usize > int {"))]),
    ("k-h-literal", "Spur guard with the literal `4294967295`", "pass", [(K, sub("if int < u32::MAX as usize {", "if int < 4_294_967_295 {"))]),
    ("k-h-checked", "MiniSpur in the unsafe-free style: u16::try_from(int).ok()?.checked_add(1)? + NonZeroU16::new(..).map(..)", "pass", [(K, sub(MINI_OLD, "        let raw = u16::try_from(int).ok()?.checked_add(1)?;\n        NonZeroU16::new(raw).map(|key| Self { key })"))]),
    ("k-h-checked-large", "LargeSpur: int.checked_add(1).and_then(NonZeroUsize::new)?", "pass", [(K, sub(LARGE_OLD, "        let key = int.checked_add(1).and_then(NonZeroUsize::new)?;\n        Some(Self { key })"))]),
    ("k-h-into-sub-first", "Spur into_usize: `(self.key.get() - 1) as usize`", "pass", [(K, sub("self.key.get() as usize - 1", "(self.key.get() - 1) as usize", nth=0, count=3))]),
    ("k-checked-add-2", "unsafe-free MiniSpur with `checked_add(2)`", "fail", [(K, sub(MINI_OLD, "        let raw = u16::try_from(int).ok()?.checked_add(2)?;\n        NonZeroU16::new(raw).map(|key| Self { key })"))]),
    ("k-try-from-u8", "unsafe-free MiniSpur with `u8::try_from` (wrong width)", "fail", [(K, sub(MINI_OLD, "        let raw = u8::try_from(int).ok()?.checked_add(1)? as u16;\n        NonZeroU16::new(raw).map(|key| Self { key })"))]),
    ("k-l-checked-sub", "unsafe-free MiniSpur with an unknown `checked_sub`", "lost", [(K, sub(MINI_OLD, "        let raw = u16::try_from(int).ok()?.checked_sub(1)?;\n        NonZeroU16::new(raw).map(|key| Self { key })"))]),
    # ---- outside the subset: must be LOST, never mistranslated ----
    ("k-l-wrapping", "`int.wrapping_add(1)`", "lost", [(K, sub("new_unchecked(int + 1)", "new_unchecked(int.wrapping_add(1))"))]),
    ("k-l-two-fields", "impl Key for a struct with two fields", "lost", [(K, sub("macro_rules! impl_serde {", """pub struct PairSpur { key: NonZeroU8, tag: u8 }
unsafe impl Key for PairSpur {
    fn into_usize(self) -> usize { self.key.get() as usize - 1 }
    fn try_from_usize(int: usize) -> Option<Self> { None }
}
macro_rules! impl_serde {"""))]),
    ("k-l-macro-impl", "impl Key generated by a macro", "lost", [(K, sub("macro_rules! impl_serde {", """macro_rules! impl_key { ($t:ident) => { unsafe impl Key for $t { fn into_usize(self) -> usize { 0 } fn try_from_usize(int: usize) -> Option<Self> { None } } }; }
macro_rules! impl_serde {"""))]),
    ("k-l-match", "guard written as `match`", "lost", [(K, sub("if int < usize::MAX {", "match int < usize::MAX { true => {", count=1))]),
    ("k-l-shift", "`1 << 8` in a guard", "lost", [(K, sub("if int < u8::MAX as usize {", "if int < (1 << 8) - 1 {"))]),
    ("k-l-cfg-fn", "a #[cfg(..)] alternative of try_from_usize", "lost", [(K, sub("    /// Returns `None` if `int` is greater than `u8::MAX - 1`\n", "    #[cfg(target_pointer_width = \"16\")]\n"))]),
]

S = "src/arenas/single_threaded.rs"
BK = "src/arenas/bucket.rs"

F1_GUARD = """            // The bucket we can still afford must be able to hold the whole string
            if len > remaining_memory {
                return Err(LassoError::new(LassoErrorKind::MemoryLimitReached));
            }
"""
ALLOC_FN_START = "    /// Doesn't actually allocate anything, but increments `self.memory_usage` and returns `None` if"

ROOM = """    /// What is left of the memory budget
    fn room(&self) -> usize {
        if self.max_memory_usage < self.memory_usage {
            return %s;
        }
        self.max_memory_usage - self.memory_usage
    }

    /// Store a slice in the Arena, returning `None` if memory is exhausted"""

ARENA = [
    # ---- behaviour changes: translator ok, proofs must FAIL ----
    ("a-gt-ge", "`len > next_capacity` -> `>=`", "fail", [(S, sub("if len > next_capacity {", "if len >= next_capacity {"))]),
    ("a-drop-f1-guard", "the `if len > remaining_memory` guard dropped (historical defect F1)", "fail", [(S, sub(F1_GUARD, ""))]),
    ("a-times3", "`bucket_capacity.get() * 2` -> `* 3`", "fail", [(S, sub("self.bucket_capacity.get() * 2;", "self.bucket_capacity.get() * 3;"))]),
    ("a-satsub1", "`saturating_sub(2)` -> `saturating_sub(1)`", "fail", [(S, sub("self.buckets.len().saturating_sub(2)", "self.buckets.len().saturating_sub(1)"))]),
    ("a-drop-usage-add", "`self.memory_usage += requested_mem;` dropped", "fail", [(S, sub("            self.memory_usage += requested_mem;\n", ""))]),
    ("a-swap-alloc-bucket", "oversized branch: Bucket::with_capacity before allocate_memory", "fail", [(S, sub(
        """            self.allocate_memory(len)?;

            // Safety: len will always be >= 1
            let mut bucket = Bucket::with_capacity(unsafe { NonZeroUsize::new_unchecked(len) })?;
""", """            let mut bucket = Bucket::with_capacity(unsafe { NonZeroUsize::new_unchecked(len) })?;
            self.allocate_memory(len)?;
"""))]),
    ("a-filter-gt", "fast path `free_elements() >= len` -> `> len`", "fail", [(S, sub("bucket.free_elements() >= len", "bucket.free_elements() > len"))]),
    ("a-filter-dropped", "fast path without the `.filter(..)`", "fail", [(S, sub("            .last_mut()\n            .filter(|bucket| bucket.free_elements() >= len)\n", "            .last_mut()\n"))]),
    ("a-limit-ge", "allocate_memory `>` -> `>=`", "fail", [(S, sub("if self.memory_usage + requested_mem > self.max_memory_usage {", "if self.memory_usage + requested_mem >= self.max_memory_usage {"))]),
    ("a-insert-to-push", "oversized bucket pushed at the end instead of inserted at len-2", "fail", [(S, sub("            self.buckets\n                .insert(self.buckets.len().saturating_sub(2), bucket);", "            self.buckets.push(bucket);"))]),
    ("a-empty-dropped", "the empty-string early return dropped", "fail", [(S, sub("        if string.is_empty() {\n            return Ok(\"\");\n        }\n", ""))]),
    ("a-setcap-dropped", "`self.bucket_capacity = ..next_capacity..` dropped", "fail", [(S, sub("            self.bucket_capacity = unsafe { NonZeroUsize::new_unchecked(next_capacity) };\n", ""))]),
    ("a-alloc-wrong-amount", "remaining branch allocates `next_capacity` bytes of budget", "fail", [(S, sub("self.allocate_memory(remaining_memory)?;", "self.allocate_memory(next_capacity)?;"))]),
    ("a-new-usage0", "Arena::new: `memory_usage: 0`", "fail", [(S, sub("memory_usage: capacity.get(),", "memory_usage: 0,"))]),
    ("b-free-minus1", "free_elements: `capacity - index - 1`", "fail", [(BK, sub("        self.capacity.get() - self.index\n", "        self.capacity.get() - self.index - 1\n"))]),
    ("b-index-add-dropped", "push_slice: `self.index += slice.len()` dropped", "fail", [(BK, sub("            self.index += slice.len();\n", ""))]),
    ("b-ptr-add0", "push_slice: copy to `items.add(0)`", "fail", [(BK, sub(".add(self.index);", ".add(0);"))]),
    ("b-index-before-ptr", "push_slice: index incremented before the pointer is computed", "fail", [(BK, sub("            self.index += slice.len();\n", "")), (BK, sub("            // Get a pointer to the start of free bytes\n", "            self.index += slice.len();\n"))]),
    ("b-clear-1", "Bucket::clear sets index to 1", "fail", [(BK, sub("        self.index = 0;", "        self.index = 1;"))]),
    ("b-wc-index1", "with_capacity: `index: 1`", "fail", [(BK, sub("                index: 0,", "                index: 1,"))]),
    ("b-wc-size-plus1", "with_capacity: the Layout has capacity + 1 bytes", "fail", [(BK, sub("            let layout = Layout::from_size_align(\n                size_of::<u8>() * capacity.get(),", "            let layout = Layout::from_size_align(\n                size_of::<u8>() * capacity.get() + 1,"))]),
    ("b-wc-errkind", "with_capacity: a Layout error is reported as MemoryLimitReached", "fail", [(BK, sub("            .map_err(|_| LassoError::new(LassoErrorKind::FailedAllocation))?;", "            .map_err(|_| LassoError::new(LassoErrorKind::MemoryLimitReached))?;"))]),
    ("b-wc-size-times2", "with_capacity: the Layout has 2 * capacity bytes (refuses above isize::MAX / 2)", "fail", [(BK, sub("            let layout = Layout::from_size_align(\n                size_of::<u8>() * capacity.get(),", "            let layout = Layout::from_size_align(\n                2 * capacity.get(),"))]),
    ("b-wc-unchecked", "with_capacity back to Layout::from_size_align_unchecked (finding F7 reverted)", "fail", [(BK, sub("""            let layout = Layout::from_size_align(
                size_of::<u8>() * capacity.get(),
                align_of::<u8>(),
            )
            .map_err(|_| LassoError::new(LassoErrorKind::FailedAllocation))?;""", """            let layout = Layout::from_size_align_unchecked(
                size_of::<u8>() * capacity.get(),
                align_of::<u8>(),
            );"""))]),
    ("b-h-wc-size-commuted", "with_capacity: `capacity.get() * size_of::<u8>()`", "pass", [(BK, sub("            let layout = Layout::from_size_align(\n                size_of::<u8>() * capacity.get(),", "            let layout = Layout::from_size_align(\n                capacity.get() * size_of::<u8>(),"))]),
    ("b-l-wc-unwrap", "with_capacity: `.unwrap()` instead of map_err/?", "lost", [(BK, sub("            .map_err(|_| LassoError::new(LassoErrorKind::FailedAllocation))?;", "            .unwrap();"))]),
    ("b-l-wc-align8", "with_capacity: alignment 8", "lost", [(BK, sub("                size_of::<u8>() * capacity.get(),\n                align_of::<u8>(),", "                size_of::<u8>() * capacity.get(),\n                align_of::<u64>(),"))]),
    ("b-isfull-ge", "is_full: `==` -> `<=`", "fail", [(BK, sub("self.index == self.capacity.get()", "self.index <= self.capacity.get()"))]),
    # ---- harmless rewrites: proofs must keep PASSING ----
    ("a-h-let-cap", "`let cap = self.bucket_capacity.get(); let next_capacity = cap * 2;`", "pass", [(S, sub("let next_capacity = self.bucket_capacity.get() * 2;", "let cap = self.bucket_capacity.get();\n        let next_capacity = cap * 2;"))]),
    ("a-h-flip-compare", "`a + b > c` written `c < a + b`", "pass", [(S, sub("} else if self.memory_usage + next_capacity > self.max_memory_usage {", "} else if self.max_memory_usage < self.memory_usage + next_capacity {"))]),
    ("a-h-comments", "comments and attributes added", "pass", [(S, sub("        let next_capacity = self.bucket_capacity.get() * 2;", "        /* if len > 3 { return */ let next_capacity = self.bucket_capacity.get() * 2; // * 3")), (S, sub("    fn allocate_memory(", "    #[inline]\n    fn allocate_memory("))]),
    ("a-h-reorder-fns", "fn allocate_memory moved behind fn store_str", "pass", [(S, move_block(ALLOC_FN_START, "\n    }\n", "}\n\nimpl Default for Arena {"))]),
    ("a-h-let-order", "`let next_capacity` moved in front of the fast path", "pass", [(S, sub("        let next_capacity = self.bucket_capacity.get() * 2;\n", "")), (S, sub("        debug_assert_ne!(len, 0);\n", "        debug_assert_ne!(len, 0);\n        let next_capacity = self.bucket_capacity.get() * 2;\n"))]),
    ("a-h-2-times", "`2 * self.bucket_capacity.get()`", "pass", [(S, sub("self.bucket_capacity.get() * 2;", "2 * self.bucket_capacity.get();"))]),
    ("a-h-string-len", "`string.len()` instead of `slice.len()`", "pass", [(S, sub("let len = slice.len();", "let len = string.len();"))]),
    ("a-h-not-le", "`if !(len <= next_capacity)`", "pass", [(S, sub("if len > next_capacity {", "if !(len <= next_capacity) {"))]),
    ("a-h-nz-unchecked", "remaining branch: NonZeroUsize::new(..).ok_or_else(..)? -> new_unchecked (guarded by F1 fix)", "pass", [(S, sub("""                NonZeroUsize::new(remaining_memory)
                    .ok_or_else(|| LassoError::new(LassoErrorKind::MemoryLimitReached))?,""", "                unsafe { NonZeroUsize::new_unchecked(remaining_memory) },"))]),
    ("a-h-usage-assign", "`self.memory_usage = self.memory_usage + requested_mem`", "pass", [(S, sub("self.memory_usage += requested_mem;", "self.memory_usage = requested_mem + self.memory_usage;"))]),
    ("b-h-free-let", "free_elements with a local", "pass", [(BK, sub("        self.capacity.get() - self.index\n", "        let cap = self.capacity.get();\n        cap - self.index\n"))]),
    ("a-h-helper-early-return", "remaining memory computed by a private helper with an early `return 0`", "pass", [(S, sub("self.max_memory_usage.saturating_sub(self.memory_usage);", "self.room();")), (S, sub("    /// Store a slice in the Arena, returning `None` if memory is exhausted", ROOM % "0"))]),
    ("a-helper-early-return-wrong", "the same helper, but its early return yields the limit instead of 0", "fail", [(S, sub("self.max_memory_usage.saturating_sub(self.memory_usage);", "self.room();")), (S, sub("    /// Store a slice in the Arena, returning `None` if memory is exhausted", ROOM % "self.max_memory_usage"))]),
    ("a-h-split-impl", "the impl block split in two, allocate_memory through a #[cold] error helper", "pass", [(S, sub("    /// Doesn't actually allocate anything, but increments", "}\n\nimpl Arena {\n    #[cold]\n    fn limit_reached() -> LassoError {\n        LassoError::new(LassoErrorKind::MemoryLimitReached)\n    }\n\n    /// Doesn't actually allocate anything, but increments")), (S, sub("            Err(LassoError::new(LassoErrorKind::MemoryLimitReached))\n        } else {\n            self.memory_usage += requested_mem;", "            Err(Self::limit_reached())\n        } else {\n            self.memory_usage += requested_mem;"))]),
    ("a-l-recursive-helper", "a recursive private helper", "lost", [(S, sub("self.max_memory_usage.saturating_sub(self.memory_usage);", "self.room();")), (S, sub("    /// Store a slice in the Arena, returning `None` if memory is exhausted", "    fn room(&self) -> usize {\n        self.room()\n    }\n\n    /// Store a slice in the Arena, returning `None` if memory is exhausted"))]),
    # ---- outside the subset: LOST ----
    ("a-l-wrapping", "`wrapping_add` in allocate_memory", "lost", [(S, sub("if self.memory_usage + requested_mem > self.max_memory_usage {", "if self.memory_usage.wrapping_add(requested_mem) > self.max_memory_usage {"))]),
    ("a-l-checked-mul", "`checked_mul(2).unwrap()`", "lost", [(S, sub("self.bucket_capacity.get() * 2;", "self.bucket_capacity.get().checked_mul(2).unwrap();"))]),
    ("a-l-extra-field", "a fifth field in struct Arena", "lost", [(S, sub("    memory_usage: usize,\n    pub(crate)", "    memory_usage: usize,\n    spare: usize,\n    pub(crate)"))]),
    ("a-h-self-rebind", "`let len = len;` (a re-binding of the same value: dropped by the normaliser)", "pass", [(S, sub("        debug_assert_ne!(len, 0);\n", "        let len = len;\n"))]),
    ("a-l-shadow", "a shadowing `let len = len + 0;`", "lost", [(S, sub("        debug_assert_ne!(len, 0);\n", "        let len = len + 0;\n"))]),
    ("a-l-for-each", "clear via iter_mut().for_each", "lost", [(S, sub("        for bucket in &mut self.buckets {\n            bucket.clear();\n        }", "        self.buckets.iter_mut().for_each(|b| b.clear());"))]),
    ("a-l-clear-body", "clear loop with an empty body", "lost", [(S, sub("            bucket.clear();\n", ""))]),
    ("a-l-unknown-call", "call of an unknown method `self.grow()`", "lost", [(S, sub("        let next_capacity = self.bucket_capacity.get() * 2;", "        self.grow();\n        let next_capacity = self.bucket_capacity.get() * 2;"))]),
    ("a-l-first-bucket", "fast path over `first_mut()`", "lost", [(S, sub(".last_mut()", ".first_mut()"))]),
    ("b-l-ptr-sub", "push_slice with `.sub(..)` pointer arithmetic", "lost", [(BK, sub(".add(self.index);", ".add(self.index).sub(0);"))]),
    ("b-l-cfg-dup", "a #[cfg] duplicate of free_elements", "lost", [(BK, sub("    /// Get the number of available slots for the current bucket\n", "    #[cfg(feature = \"x\")]\n    pub(crate) fn free_elements(&self) -> usize { 0 }\n"))]),
]

L = "src/arenas/lockfree.rs"
AB = "src/arenas/atomic_bucket.rs"

LF_F1_GUARD = """                // The bucket we can still afford must be able to hold the whole string
                if slice.len() > remaining_memory {
                    return Err(LassoError::new(LassoErrorKind::MemoryLimitReached));
                }
"""

LOCKFREE = [
    ("l-gt-ge", "`slice.len() > next_capacity` -> `>=`", "fail", [(L, sub("if slice.len() > next_capacity {", "if slice.len() >= next_capacity {"))]),
    ("l-drop-f1-guard", "the `slice.len() > remaining_memory` guard dropped (F1 in the lock-free arena)", "fail", [(L, sub(LF_F1_GUARD, ""))]),
    ("l-times3", "`bucket_capacity * 2` -> `* 3`", "fail", [(L, sub("self.bucket_capacity.load(Ordering::Relaxed) * 2;", "self.bucket_capacity.load(Ordering::Relaxed) * 3;"))]),
    ("l-slice-mut-plus1", "copy destination `slice_mut(start + 1)`", "fail", [(L, sub("bucket.slice_mut(start)", "bucket.slice_mut(start + 1)"))]),
    ("l-copy-short", "copies `slice.len() - 1` bytes", "fail", [(L, sub("copy_from_nonoverlapping(slice.as_ptr(), slice.len())", "copy_from_nonoverlapping(slice.as_ptr(), slice.len() - 1)"))]),
    ("l-raw-short", "returned str has `slice.len() - 1` bytes", "fail", [(L, sub("slice::from_raw_parts(allocated, slice.len())", "slice::from_raw_parts(allocated, slice.len() - 1)"))]),
    ("l-fetch-no-add", "fetch_update closure returns `Some(memory_usage)`", "fail", [(L, sub("Some(memory_usage + requested_mem)", "Some(memory_usage)"))]),
    ("l-fetch-ge", "fetch_update closure `>` -> `>=`", "fail", [(L, sub("if memory_usage + requested_mem > self.max_memory_usage.load(Ordering::Relaxed) {", "if memory_usage + requested_mem >= self.max_memory_usage.load(Ordering::Relaxed) {"))]),
    ("l-setcap-dropped", "`self.set_bucket_capacity(next_capacity)` dropped", "fail", [(L, sub("                self.set_bucket_capacity(next_capacity);\n", ""))]),
    ("l-alloc-wrong", "remaining branch books `next_capacity` bytes", "fail", [(L, sub("self.allocate_memory(remaining_memory)?;", "self.allocate_memory(next_capacity)?;"))]),
    ("l-try-inc-plus1", "`try_inc_length(slice.len() + 1)`", "fail", [(L, sub("bucket.try_inc_length(slice.len())", "bucket.try_inc_length(slice.len() + 1)"))]),
    ("l-usage-is-limit", "`let memory_usage = self.get_max_memory_usage()`", "fail", [(L, sub("let memory_usage = self.current_memory_usage();", "let memory_usage = self.get_max_memory_usage();"))]),
    ("l-new-cap1", "new: `bucket_capacity: AtomicUsize::new(1)`", "fail", [(L, sub("bucket_capacity: AtomicUsize::new(capacity.get()),", "bucket_capacity: AtomicUsize::new(1),"))]),
    ("l-push-front-dropped", "oversized bucket never linked into the list", "fail", [(L, sub("            self.buckets.push_front(bucket.into_ref());\n\n            Ok(allocated_string)\n        } else {", "            Ok(allocated_string)\n        } else {"))]),
    ("l-setcap-store0", "set_bucket_capacity stores `capacity + 1`", "fail", [(L, sub("self.bucket_capacity.store(capacity, Ordering::Relaxed);", "self.bucket_capacity.store(capacity + 1, Ordering::Relaxed);"))]),
    # harmless
    ("l-h-ordering", "a different memory ordering on a load (orderings are outside this view)", "pass", [(L, sub("let next_capacity = self.bucket_capacity.load(Ordering::Relaxed) * 2;", "let next_capacity = self.bucket_capacity.load(Ordering::SeqCst) * 2;"))]),
    ("l-h-flip", "`a + b > c` written `c < a + b`", "pass", [(L, sub("if memory_usage + next_capacity > max_memory_usage {", "if max_memory_usage < memory_usage + next_capacity {"))]),
    ("l-h-let-len", "a local `let len = slice.len();` used in the first comparison", "pass", [(L, sub("        if slice.len() > next_capacity {", "        let len = slice.len();\n        if len > next_capacity {"))]),
    ("l-h-inline-accessor", "`self.memory_usage.load(..)` instead of the accessor", "pass", [(L, sub("let memory_usage = self.current_memory_usage();", "let memory_usage = self.memory_usage.load(Ordering::Relaxed);"))]),
    ("l-h-no-verif-point", "a verif_point! removed, comments added", "pass", [(L, sub("        verif_point!(PRE_BUCKET_CAP_LOAD, 0, 0);\n", "        // nothing here /* if */\n"))]),
    # lost
    ("l-l-accessor-changed", "current_memory_usage() reads max_memory_usage", "lost", [(L, sub("        self.memory_usage.load(Ordering::Relaxed)\n    }\n\n    #[inline]\n    pub(crate) fn set_max", "        self.max_memory_usage.load(Ordering::Relaxed)\n    }\n\n    #[inline]\n    pub(crate) fn set_max"))]),
    ("l-l-fetch-add", "allocate_memory by fetch_add", "lost", [(L, sub("            .map(|_| ())\n            .map_err(|_| LassoError::new(LassoErrorKind::MemoryLimitReached))", "            .map(|_| ())\n            .map_err(|_| LassoError::new(LassoErrorKind::MemoryLimitReached))\n            .and_then(|_| { self.memory_usage.fetch_add(0, Ordering::Relaxed); Ok(()) })"))]),
    ("l-l-rev", "first fit over `.iter().rev()`", "lost", [(L, sub("for bucket in self.buckets.iter() {", "for bucket in self.buckets.iter().rev() {"))]),
    ("l-l-else-continue", "`else { continue; }` on the try_inc_length test", "lost", [(L, sub("                return Ok(string);\n            }\n", "                return Ok(string);\n            } else { continue; }\n"))]),
    # ---- atomic_bucket.rs ----
    ("ab-le-lt", "try_inc_length: `new_length <= capacity` -> `<`", "fail", [(AB, sub("if new_length <= capacity {", "if new_length < capacity {"))]),
    ("ab-return-newlen", "try_inc_length returns `Ok(new_length)`", "fail", [(AB, sub("return Ok(len);", "return Ok(new_length);"))]),
    ("ab-cas-new-is-len", "CAS stores `len` instead of `new_length`", "fail", [(AB, sub("                    len,\n                    new_length,\n", "                    len,\n                    len,\n"))]),
    ("ab-setlen-no-add", "push_slice: `set_len(len)`", "fail", [(AB, sub("self.set_len(len + slice.len())", "self.set_len(len)"))]),
    ("ab-ptr-add0", "push_slice copies to `_data.add(0)`", "fail", [(AB, sub("addr_of_mut!((*self.as_ptr())._data).cast::<u8>().add(len)", "addr_of_mut!((*self.as_ptr())._data).cast::<u8>().add(0)"))]),
    ("ab-setlen-write-plus1", "set_len writes `new_length + 1`", "fail", [(AB, sub(".get_mut() = new_length };", ".get_mut() = new_length + 1 };"))]),
    ("ab-h-strong-cas", "compare_exchange instead of compare_exchange_weak", "pass", [(AB, sub("match length.compare_exchange_weak(", "match length.compare_exchange("))]),
    ("ab-h-loop-10", "retry bound 100 -> 10 (irrelevant for one thread)", "pass", [(AB, sub("for _ in 0..100 {", "for _ in 0..10 {"))]),
    ("ab-l-loop", "retry loop written with `loop`", "lost", [(AB, sub("for _ in 0..100 {", "loop {"))]),
    ("ab-l-len-accessor", "BucketRef::length points at another field", "lost", [(AB, sub("unsafe { &(*self.as_ptr()).len }", "unsafe { &(*self.as_ptr()).len2 }"))]),
    ("ab-layout-unchecked", "AtomicBucket::layout back to from_size_align_unchecked (F7 reverted)", "fail", [(AB, sub("""        let data = Layout::from_size_align(size_of::<u8>() * capacity.get(), align_of::<u8>())
            .map_err(|_| LassoError::new(LassoErrorKind::FailedAllocation))?;""", """        let data = unsafe { Layout::from_size_align_unchecked(size_of::<u8>() * capacity.get(), align_of::<u8>()) };"""))]),
    ("ab-layout-header4", "AtomicBucket::layout with a fourth header field", "lost", [(AB, sub("        let cap = Layout::new::<NonZeroUsize>();\n", "        let cap = Layout::new::<NonZeroUsize>();\n        let extra = Layout::new::<usize>();\n"))]),
    ("ab-layout-size2", "AtomicBucket::layout: data layout of 2 * capacity bytes", "fail", [(AB, sub("let data = Layout::from_size_align(size_of::<u8>() * capacity.get(), align_of::<u8>())", "let data = Layout::from_size_align(2 * capacity.get(), align_of::<u8>())"))]),
    ("ab-wc-len1", "AtomicBucket::with_capacity initialises len with 1", "lost", [(AB, sub("addr_of_mut!((*ptr).len).write(AtomicUsize::new(0));", "addr_of_mut!((*ptr).len).write(AtomicUsize::new(1));"))]),
    ("ab-layout-no-pad", "AtomicBucket::layout without pad_to_align", "lost", [(AB, sub("            .map(|(layout, _)| layout.pad_to_align())\n", "            .map(|(layout, _)| layout)\n"))]),
    ("l-l-callee-sig", "try_inc_length takes a u32", "lost", [(AB, sub("pub fn try_inc_length(&self, additional: usize)", "pub fn try_inc_length(&self, additional: u32)"))]),
]

R = "src/rodeo.rs"

KEY_LET = """                let key = K::try_from_usize(strings.len())
                    .ok_or_else(|| LassoError::new(LassoErrorKind::KeySpaceExhaustion))?;
"""
STORE_LET = """                let allocated = unsafe { arena.store_str(string_slice)? };
"""
INTERN_VACANT = """                // Create the key from the vec's index that the string will hold
""" + KEY_LET + """
                // Allocate the string in the arena
                // Safety: The returned strings will be dropped before the arena that created them is
""" + STORE_LET

RODEO = [
    # ---- behaviour changes: translator ok, proofs FAIL ----
    ("r-clear-threshold-early", "clear: above 1048576 strings only the map is cleared", "fail", [(R, sub("        self.map.clear();\n        self.strings.clear();", "        if self.strings.len() > 1048576 {\n            self.map.clear();\n            return;\n        }\n        self.map.clear();\n        self.strings.clear();"))]),
    ("r-keycheck-after-store", "key-space check moved after arena.store_str", "fail", [(R, sub(INTERN_VACANT, STORE_LET + KEY_LET))]),
    ("r-key-len-plus1", "key made from `strings.len() + 1`", "fail", [(R, sub("K::try_from_usize(strings.len())", "K::try_from_usize(strings.len() + 1)", nth=0, count=2))]),
    ("r-contains-key-le", "contains_key with `<=`", "fail", [(R, sub("        key.into_usize() < self.strings.len()\n", "        key.into_usize() <= self.strings.len()\n"))]),
    ("r-clear-no-arena", "clear does not clear the arena", "fail", [(R, sub("        self.arena.clear();\n", ""))]),
    ("r-clear-no-map", "clear does not clear the map", "fail", [(R, sub("        self.map.clear();\n        self.strings.clear();", "        self.strings.clear();"))]),
    ("r-clear-no-strings", "clear does not clear the strings vector", "fail", [(R, sub("        self.map.clear();\n        self.strings.clear();", "        self.map.clear();"))]),
    ("r-setlimit-plus1", "set_memory_limits stores limit + 1", "fail", [(R, sub("self.arena.max_memory_usage = memory_limits.max_memory_usage;", "self.arena.max_memory_usage = memory_limits.max_memory_usage + 1;"))]),
    ("r-insert-before-push", "insert_string before strings.push", "fail", [(R, sub("                strings.push(allocated);\n\n                // Insert the key with the hash of the string that it points to, reusing the hash we made earlier\n                insert_string(entry, strings, hasher, hash, key);", "                insert_string(entry, strings, hasher, hash, key);\n                strings.push(allocated);"))]),
    ("r-insert-hash-0", "the new entry is filed under hash 0", "fail", [(R, sub("insert_string(entry, strings, hasher, hash, key);", "insert_string(entry, strings, hasher, 0, key);", nth=0, count=2))]),
    ("r-lookup-hash-0", "the lookup probes hash 0", "fail", [(R, sub("get_string_entry_mut(map, strings, hash, string_slice)", "get_string_entry_mut(map, strings, 0, string_slice)"))]),
    ("r-resolve-assert-le", "resolve asserts `<=`", "fail", [(R, sub("assert!(key.into_usize() < self.strings.len());", "assert!(key.into_usize() <= self.strings.len());"))]),
    ("r-try-resolve-plus1", "try_resolve reads index + 1", "fail", [(R, sub("                Some(self.strings.get_unchecked(key.into_usize()))", "                Some(self.strings.get_unchecked(key.into_usize() + 1))"))]),
    ("r-is-empty-ne", "is_empty: `!=`", "fail", [(R, sub("        self.len() == 0\n", "        self.len() != 0\n"))]),
    ("r-err-kind", "key exhaustion reported as MemoryLimitReached", "fail", [(R, sub("LassoError::new(LassoErrorKind::KeySpaceExhaustion))?;\n\n                // Allocate", "LassoError::new(LassoErrorKind::MemoryLimitReached))?;\n\n                // Allocate"))]),
    ("r-static-no-push", "try_get_or_intern_static does not push the string", "fail", [(R, sub("                strings.push(string);\n", ""))]),
    ("r-curmem-is-max", "current_memory_usage returns the limit", "fail", [(R, sub("        self.arena.memory_usage()\n", "        self.arena.max_memory_usage\n"))]),
    # ---- harmless rewrites: proofs keep PASSING ----
    ("r-h-field-access", "try_get_or_intern_static with field access instead of `let Self {..} = self`", "pass", [(R, sub("""        let Self {
            map,
            hasher,
            strings,
            ..
        } = self;

        // Make a hash of the requested string
        let hash = hasher.hash_one(string);

        // Get the map's entry that the string should occupy
        let key = match get_string_entry_mut(map, strings, hash, string) {""", """        let hash = self.hasher.hash_one(string);
        let key = match get_string_entry_mut(&mut self.map, &self.strings, hash, string) {""")), (R, sub("                strings.push(string);\n\n                // Insert the key with the hash of the string that it points to, reusing the hash we made earlier\n                insert_string(entry, strings, hasher, hash, key);", "                self.strings.push(string);\n                insert_string(entry, &self.strings, &self.hasher, hash, key);")), (R, sub("K::try_from_usize(strings.len())", "K::try_from_usize(self.strings.len())", nth=1, count=2))]),
    ("r-h-early-return", "occupied arm returns early", "pass", [(R, sub("            RawEntryMut::Occupied(entry) => *entry.into_key(),\n\n            // The string does not yet exist, so insert it and create its key\n            RawEntryMut::Vacant(entry) => {\n                // Create the key from the vec's index that the string will hold\n                let key = K::try_from_usize(strings.len())\n                    .ok_or_else(|| LassoError::new(LassoErrorKind::KeySpaceExhaustion))?;\n\n                // Allocate", "            RawEntryMut::Occupied(entry) => return Ok(*entry.into_key()),\n            RawEntryMut::Vacant(entry) => {\n                let key = K::try_from_usize(strings.len())\n                    .ok_or_else(|| LassoError::new(LassoErrorKind::KeySpaceExhaustion))?;\n\n                // Allocate"))]),
    ("r-h-rename", "locals renamed in try_get_or_intern (hash -> h, allocated -> stored)", "pass", [(R, sub("        let hash = hasher.hash_one(string_slice);\n\n        // Get the map's entry that the string should occupy\n        let key = match get_string_entry_mut(map, strings, hash, string_slice) {", "        let h = hasher.hash_one(string_slice);\n        let key = match get_string_entry_mut(map, strings, h, string_slice) {")), (R, sub("                let allocated = unsafe { arena.store_str(string_slice)? };\n\n                // Push the allocated string to the strings vector\n                strings.push(allocated);\n\n                // Insert the key with the hash of the string that it points to, reusing the hash we made earlier\n                insert_string(entry, strings, hasher, hash, key);", "                let stored = unsafe { arena.store_str(string_slice)? };\n                strings.push(stored);\n                insert_string(entry, strings, hasher, h, key);"))]),
    ("r-h-match-get", "get written with `match` instead of `.map(..)`", "pass", [(R, sub("        self.map\n            .raw_entry()\n            .from_hash(hash, |key| {", "        match self.map\n            .raw_entry()\n            .from_hash(hash, |key| {")), (R, sub("            })\n            .map(|(&key, _)| key)\n", "            }) {\n            Some((&key, _)) => Some(key),\n            None => None,\n        }\n"))]),
    ("r-h-try-resolve-early", "try_resolve with an early `return None`", "pass", [(R, sub("            if key.into_usize() < self.strings.len() {\n                Some(self.strings.get_unchecked(key.into_usize()))\n            } else {\n                None\n            }", "            if key.into_usize() >= self.strings.len() {\n                return None;\n            }\n            Some(self.strings.get_unchecked(key.into_usize()))"))]),
    ("r-h-clear-order", "clear in another order", "pass", [(R, sub("        self.map.clear();\n        self.strings.clear();\n        self.arena.clear();", "        self.arena.clear();\n        self.strings.clear();\n        self.map.clear();"))]),
    ("r-h-contains-key-flipped", "contains_key as `self.strings.len() > key.into_usize()`", "pass", [(R, sub("        key.into_usize() < self.strings.len()\n", "        self.strings.len() > key.into_usize()\n"))]),
    ("r-h-iflet-occupied", "try_get_or_intern_static: `if let Occupied` first, then the match", "pass", [(R, sub("        // Get the map's entry that the string should occupy\n        let key = match get_string_entry_mut(map, strings, hash, string) {", "        if let RawEntryMut::Occupied(entry) = get_string_entry_mut(map, strings, hash, string) {\n            return Ok(*entry.into_key());\n        }\n        let key = match get_string_entry_mut(map, strings, hash, string) {"))]),
    # ---- outside the subset: LOST ----
    ("r-l-clear-threshold", "clear: `if self.strings.len() > 1 << 20 { *self = .. }`", "lost", [(R, sub("        self.map.clear();\n        self.strings.clear();", "        if self.strings.len() > 1 << 20 {\n            *self = Self::with_hasher(Default::default());\n            return;\n        }\n        self.map.clear();\n        self.strings.clear();"))]),
    ("r-l-clear-threshold-arena", "clear: above a threshold `self.arena = Arena::default()`", "lost", [(R, sub("        self.arena.clear();\n", "        if self.strings.len() > 1048576 {\n            self.arena = Arena::default();\n        } else {\n            self.arena.clear();\n        }\n"))]),
    ("r-l-eq-len-only", "equality closure compares only the lengths", "lost", [(R, sub("        target == key_string\n", "        target.len() == key_string.len()\n"))]),
    ("r-l-rehash-other-hasher", "a second hasher field used by the re-hash closure", "lost", [(R, sub("    hasher: S,\n    /// Vec that allows", "    hasher: S,\n    hasher2: S,\n    /// Vec that allows"))]),
    ("r-l-rehash-const", "re-hash closure returns the constant hash", "lost", [(R, sub("        hasher.hash_one(key_string)\n", "        hash\n", nth=0, count=2))]),
    ("r-l-memo-field", "a refusal memo consulted in the vacant arm", "lost", [(R, sub("                let allocated = unsafe { arena.store_str(string_slice)? };", "                if self.refused == Some(string_slice.len()) {\n                    return Err(LassoError::new(LassoErrorKind::MemoryLimitReached));\n                }\n                let allocated = unsafe { arena.store_str(string_slice)? };"))]),
    ("r-l-setlimit-wrong-field", "set_memory_limits stores into memory_usage", "lost", [(R, sub("self.arena.max_memory_usage = memory_limits.max_memory_usage;", "self.arena.memory_usage = memory_limits.max_memory_usage;"))]),
    ("r-l-eq-other-vector", "equality closure of `get` indexes another vector", "lost", [(R, sub("unsafe { index_unchecked!(self.strings, key.into_usize()) };\n\n                // Compare the requested string against the key's string\n                string_slice == key_string", "unsafe { index_unchecked!(self.other, key.into_usize()) };\n                string_slice == key_string"))]),
    ("r-l-second-as-ref", "seeded C16-5: store_str(val.as_ref()) -- a second evaluation of as_ref() instead of the hashed binding", "lost", [(R, sub("let allocated = unsafe { arena.store_str(string_slice)? };", "let allocated = unsafe { arena.store_str(val.as_ref())? };"))]),
    ("r-l-get-second-as-ref", "get: the closure compares `val.as_ref()` instead of the hashed binding", "lost", [(R, sub("                string_slice == key_string", "                val.as_ref() == key_string"))]),
    ("r-l-static-calls-nonstatic", "get_or_intern_static forwards to try_get_or_intern", "lost", [(R, sub("        self.try_get_or_intern_static(string)\n            .expect(", "        self.try_get_or_intern(string)\n            .expect("))]),
]

T = "src/threaded_rodeo.rs"

T_STORE = """                    let string: &'static str = unsafe { self.arena.store_str(string_slice)? };
"""
T_KEY = """                    let key = K::try_from_usize(self.key.fetch_add(1, Ordering::SeqCst))
                        .ok_or_else(|| LassoError::new(LassoErrorKind::KeySpaceExhaustion))?;
"""

THREADED = [
    ("t-key-before-store", "the key is drawn before the string is stored", "fail", [(T, sub(T_STORE + "\n                    verif_point!(PRE_KEY_FETCH_ADD, 0, 0);\n" + T_KEY, T_KEY + T_STORE))]),
    ("t-strings-insert-dropped", "try_get_or_intern does not record key -> string", "fail", [(T, sub("                    self.strings.insert(key, string);\n                    verif_point!(PRE_MAP_INSERT, key.into_usize(), 0);\n                    // Safety", "                    verif_point!(PRE_MAP_INSERT, key.into_usize(), 0);\n                    // Safety"))]),
    ("t-map-insert-dropped", "try_get_or_intern does not insert into the string -> key map", "fail", [(T, sub("                    unsafe {\n                        shard.insert_in_slot(hash, insert_slot, (string, SharedValue::new(key)));\n                    }\n", ""))]),
    ("t-static-vacant-insert-dropped", "try_get_or_intern_static: `v.insert(key)` dropped", "fail", [(T, sub("                    v.insert(key);\n", ""))]),
    ("t-err-kind", "key exhaustion reported as MemoryLimitReached (static)", "fail", [(T, sub("LassoError::new(LassoErrorKind::KeySpaceExhaustion))?;\n                    verif_point!(PRE_STRINGS_INSERT", "LassoError::new(LassoErrorKind::MemoryLimitReached))?;\n                    verif_point!(PRE_STRINGS_INSERT"))]),
    ("t-is-empty-ne", "is_empty: `!=`", "fail", [(T, sub("        self.len() == 0\n", "        self.len() != 0\n"))]),
    ("t-l-len-plus1", "len: `self.strings.len() + 1` (then is_empty's self.len() is no plain accessor any more)", "lost", [(T, sub("        self.strings.len()\n    }", "        self.strings.len() + 1\n    }"))]),
    ("t-setlimit-plus1", "set_memory_limits stores limit + 1", "fail", [(T, sub(".set_max_memory_usage(memory_limits.max_memory_usage);", ".set_max_memory_usage(memory_limits.max_memory_usage + 1);"))]),
    ("t-curmem-is-max", "current_memory_usage returns the limit", "fail", [(T, sub("        self.arena.current_memory_usage()\n", "        self.arena.get_max_memory_usage()\n"))]),
    ("t-find-other-hash", "find_or_find_insert_slot probes hash + 1 on the locked shard", "fail", [(T, sub("            let key = match shard.find_or_find_insert_slot(\n                hash,", "            let key = match shard.find_or_find_insert_slot(\n                hash + 1,"))]),
    ("t-h-ordering", "fetch_add with Ordering::Relaxed (orderings are outside this view)", "pass", [(T, sub("self.key.fetch_add(1, Ordering::SeqCst)", "self.key.fetch_add(1, Ordering::Relaxed)", nth=0, count=2))]),
    ("t-h-no-verif-point", "verif_point!s removed", "pass", [(T, sub("                    verif_point!(PRE_KEY_FETCH_ADD, 0, 0);\n", "", nth=0, count=2)), (T, sub("            verif_point!(OBS_MAP_GET, 0, 0);\n", "", nth=0, count=2))]),
    ("t-h-rename", "insert_slot renamed, hash renamed", "pass", [(T, sub("Err(insert_slot) => {", "Err(slot) => {")), (T, sub("shard.insert_in_slot(hash, insert_slot, (string, SharedValue::new(key)));", "shard.insert_in_slot(hash, slot, (string, SharedValue::new(key)));"))]),
    ("t-h-get-let", "get with a local for `val.as_ref()`", "pass", [(T, sub("        self.map.get(val.as_ref()).map(|k| *k)", "        let s = val.as_ref();\n        self.map.get(s).map(|k| *k)"))]),
    ("t-l-second-as-ref", "seeded C16-5: store_str(val.as_ref()) -- a second evaluation of as_ref()", "lost", [(T, sub("unsafe { self.arena.store_str(string_slice)? };", "unsafe { self.arena.store_str(val.as_ref())? };"))]),
    ("t-l-fetch-add-2", "the key counter advances by 2", "lost", [(T, sub("self.key.fetch_add(1, Ordering::SeqCst)", "self.key.fetch_add(2, Ordering::SeqCst)", nth=0, count=2))]),
    ("t-l-other-shard", "the shard is not chosen from the hash", "lost", [(T, sub("self.map.determine_shard(hash as usize)", "self.map.determine_shard(0)"))]),
    ("t-l-eq-closure", "equality closure compares only the lengths", "lost", [(T, sub("|(k, _)| *k == string_slice,", "|(k, _)| k.len() == string_slice.len(),"))]),
    ("t-l-rehash-closure", "re-hash closure returns 0", "lost", [(T, sub("|(k, _)| self.map.hasher().hash_one(k),", "|(k, _)| 0,"))]),
    ("t-l-contains-key-map", "contains_key asks the string -> key map", "lost", [(T, sub("        self.strings.get(key).is_some()\n", "        self.map.get(key).is_some()\n"))]),
]

RDR = "src/reader.rs"
RSV = "src/resolver.rs"

VIEWS = [
    ("v-resolver-contains-le", "RodeoResolver::contains_key with `<=` (seeded C06-3)", "fail", [(RSV, sub("        key.into_usize() < self.strings.len()\n", "        key.into_usize() <= self.strings.len()\n"))]),
    ("v-reader-contains-le", "RodeoReader::contains_key with `<=`", "fail", [(RDR, sub("        key.into_usize() < self.strings.len()\n", "        key.into_usize() <= self.strings.len()\n"))]),
    ("v-reader-resolve-assert-le", "RodeoReader::resolve asserts `<=`", "fail", [(RDR, sub("assert!(key.into_usize() < self.strings.len());", "assert!(key.into_usize() <= self.strings.len());"))]),
    ("v-resolver-try-resolve-plus1", "RodeoResolver::try_resolve reads index + 1", "fail", [(RSV, sub("                Some(self.strings.get_unchecked(key.into_usize()))", "                Some(self.strings.get_unchecked(key.into_usize() + 1))"))]),
    ("v-reader-is-empty-ne", "RodeoReader::is_empty: `!=`", "fail", [(RDR, sub("        self.len() == 0\n", "        self.len() != 0\n"))]),
    ("v-reader-new-swapped", "RodeoReader::new stores the strings parameter nowhere (hasher twice is a type error; here: map <- map, arena param dropped for a default)", "lost", [(RDR, sub("            __arena: arena,\n        }", "            __arena: AnyArena::Arena(Default::default()),\n        }"))]),
    ("v-into-resolver-other-arena", "Rodeo::into_resolver hands over a fresh arena", "lost", [("src/rodeo.rs", sub("unsafe { RodeoResolver::new(strings, AnyArena::Arena(arena)) }", "unsafe { RodeoResolver::new(strings, AnyArena::Arena(Arena::default())) }"))]),
    ("v-resolver-new-truncates", "RodeoResolver::new shrinks the vector first", "lost", [(RSV, sub("    pub(crate) unsafe fn new(strings: Vec<&'static str>, arena: AnyArena) -> Self {\n        Self {", "    pub(crate) unsafe fn new(mut strings: Vec<&'static str>, arena: AnyArena) -> Self {\n        strings.shrink_to_fit();\n        Self {"))]),
    ("v-reader-get-addr-fastpath", "RodeoReader::get compares start addresses first (seeded C06-2 style)", "lost", [(RDR, sub("            string_slice == key_string\n", "            string_slice.as_ptr() == key_string.as_ptr() || string_slice == key_string\n"))]),
    ("v-h-reader-get-map", "RodeoReader::get with `.map(|(&key, _)| key)` on the lookup directly", "pass", [(RDR, sub("        let entry = self.map.raw_entry().from_hash(hash, |key| {", "        self.map.raw_entry().from_hash(hash, |key| {")), (RDR, sub("        });\n\n        entry.map(|(key, ())| *key)", "        })\n        .map(|(&key, _)| key)"))]),
    ("v-h-resolver-early", "RodeoResolver::try_resolve with an early `return None`", "pass", [(RSV, sub("            if key.into_usize() < self.strings.len() {\n                Some(self.strings.get_unchecked(key.into_usize()))\n            } else {\n                None\n            }", "            if key.into_usize() >= self.strings.len() {\n                return None;\n            }\n            Some(self.strings.get_unchecked(key.into_usize()))"))]),
    ("v-h-new-field-order", "RodeoReader::new lists the fields in another order", "pass", [(RDR, sub("            map,\n            hasher,\n            strings,\n            __arena: arena,", "            __arena: arena,\n            strings,\n            hasher,\n            map,"))]),
    ("v-h-into-reader-helper", "Rodeo::into_reader through a private helper", "pass", [("src/rodeo.rs", sub("        unsafe { RodeoReader::new(map, hasher, strings, AnyArena::Arena(arena)) }\n    }", "        Self::freeze(map, hasher, strings, arena)\n    }\n\n    fn freeze(map: StringMap<K>, hasher: S, strings: Vec<&'static str>, arena: Arena) -> RodeoReader<K, S> {\n        unsafe { RodeoReader::new(map, hasher, strings, AnyArena::Arena(arena)) }\n    }"))]),
]

CLONE = [
    ("c-hasher-after-fill", "try_clone_from takes over the hasher after the copy (seeded C12-2 / C02-2)", "fail", [(R, sub("        self.hasher = source.hasher.clone();\n", "")), (R, sub("            &self.hasher,\n        )?;\n", "            &self.hasher,\n        )?;\n        self.hasher = source.hasher.clone();\n"))]),
    ("c-reserve-before-clear", "try_clone_from clears the target after the reservations (seeded C12-3)", "fail", [(R, sub("        self.clear();\n        self.hasher = source.hasher.clone();\n", "        self.hasher = source.hasher.clone();\n")), (R, sub("        // Clone the values into the target interner\n", "        self.clear();\n"))]),
    ("c-no-clear", "try_clone_from does not clear the target", "fail", [(R, sub("        self.clear();\n        self.hasher = source.hasher.clone();\n", "        self.hasher = source.hasher.clone();\n"))]),
    ("c-limit-is-usage", "try_clone: the clone's limit is the source's current usage (seeded C12-4)", "fail", [(R, sub("max(self.arena.max_memory_usage, required_capacity.get()),", "max(self.arena.memory_usage(), required_capacity.get()),"))]),
    ("c-fill-source-hasher", "try_clone fills the table with the source's own hasher instance", "fail", [(R, sub("clone_strings_into(&self.strings, &mut arena, &mut strings, &mut map, &hasher)?;", "clone_strings_into(&self.strings, &mut arena, &mut strings, &mut map, &self.hasher)?;"))]),
    ("c-key-idx-plus1", "clone_strings_into: key made from idx + 1", "fail", [(R, sub("K::try_from_usize(idx)", "K::try_from_usize(idx + 1)"))]),
    ("c-push-after-insert", "clone_strings_into: the copy is pushed after the table insert", "fail", [(R, sub("        // Push the newly allocated string to the `strings` vec\n        strings.push(allocated);\n", "")), (R, sub("                insert_string(vacant, strings, hasher, hash, key);\n            }\n\n            RawEntryMut::Occupied(_)", "                insert_string(vacant, strings, hasher, hash, key);\n                strings.push(allocated);\n            }\n\n            RawEntryMut::Occupied(_)"))]),
    ("c-occupied-skips", "clone_strings_into: an occupied entry is silently skipped instead of unreachable!()", "fail", [(R, sub("                unreachable!(\"keys should be unique within cloned Rodeos\")\n", ""))]),
    ("c-l-hoisted-check", "a key-space check hoisted in front of the loop (seeded C12-1)", "lost", [(R, sub("    for (idx, source_str) in source.iter().enumerate() {", "    if K::try_from_usize(source.len()).is_none() {\n        return Err(LassoError::new(LassoErrorKind::KeySpaceExhaustion));\n    }\n    for (idx, source_str) in source.iter().enumerate() {"))]),
    ("c-l-clone-in-literal", "try_clone clones the hasher only in the final struct literal (seeded C12-5 style)", "lost", [(R, sub("            hasher,\n            strings,\n            arena,\n        })\n    }\n\n    /// Attempts to clone", "            hasher: self.hasher.clone(),\n            strings,\n            arena,\n        })\n    }\n\n    /// Attempts to clone"))]),
    ("c-l-skip-enumerate", "the loop skips the first string", "lost", [(R, sub("source.iter().enumerate() {", "source.iter().enumerate().skip(1) {"))]),
    ("c-h-rename", "locals renamed in clone_strings_into", "pass", [(R, sub("        let allocated = unsafe { arena.store_str(source_str)? };\n\n        // Push the newly allocated string to the `strings` vec\n        strings.push(allocated);\n\n        // Hash the allocated string\n        let hash = hasher.hash_one(allocated);\n\n        // Insert the allocated string into the string map\n        match get_string_entry_mut(map, strings, hash, allocated) {", "        let copy = unsafe { arena.store_str(source_str)? };\n        strings.push(copy);\n        let h = hasher.hash_one(copy);\n        match get_string_entry_mut(map, strings, h, copy) {")), (R, sub("                insert_string(vacant, strings, hasher, hash, key);\n            }\n\n            RawEntryMut::Occupied(_)", "                insert_string(vacant, strings, hasher, h, key);\n            }\n\n            RawEntryMut::Occupied(_)"))]),
    ("c-h-hash-source", "clone_strings_into hashes and looks up the source string instead of the copy", "pass", [(R, sub("let hash = hasher.hash_one(allocated);", "let hash = hasher.hash_one(source_str);", nth=0, count=2)), (R, sub("match get_string_entry_mut(map, strings, hash, allocated) {", "match get_string_entry_mut(map, strings, hash, source_str) {", nth=0))]),
    ("c-h-reserve-order", "try_clone_from reserves the table before the vector", "pass", [(R, sub("""        self.strings
            .try_reserve(source.strings.len())
            .map_err(|_| LassoError::new(LassoErrorKind::FailedAllocation))?;

""", "")), (R, sub("        // Clone the values into the target interner\n", "        self.strings\n            .try_reserve(source.strings.len())\n            .map_err(|_| LassoError::new(LassoErrorKind::FailedAllocation))?;\n"))]),
]

U = "src/util.rs"
U_SIZE_HINT = "    #[cfg_attr(feature = \"inline-more\", inline)]\n    fn size_hint(&self) -> (usize, Option<usize>) {\n        self.iter.size_hint()\n    }\n"

B44_ITER = """
    // Skips over the first `n` entries in constant time instead of building their keys
    #[cfg_attr(feature = "inline-more", inline)]
    fn nth(&mut self, n: usize) -> Option<Self::Item> {
        self.iter.nth(n).map(iter_element)
    }

    #[cfg_attr(feature = "inline-more", inline)]
    fn count(self) -> usize {
        self.iter.len()
    }

    #[cfg_attr(feature = "inline-more", inline)]
    fn last(mut self) -> Option<Self::Item> {
        self.iter.next_back().map(iter_element)
    }
"""
B44_STRINGS = B44_ITER.replace(".map(iter_element)", ".copied()")
# the iterator part of /verif/seeded/benign/b4-4.diff
B44 = [(U, sub(U_SIZE_HINT, U_SIZE_HINT + B44_ITER, nth=0, count=2)), (U, sub(U_SIZE_HINT, U_SIZE_HINT + B44_STRINGS, nth=1, count=2))]

# the forms of /verif/seeded/benign/b4-2.diff that concern the iterators
B42 = [(U, sub("    (\n        K::try_from_usize(key).unwrap_or_else(|| unreachable!()),\n        *string,\n    )\n", "    match K::try_from_usize(key) {\n        Some(k) => (k, *string),\n        None => unreachable!(),\n    }\n")),
       (U, sub("self.iter.next().copied()", "self.iter.next().map(|string| *string)")),
       (U, sub("    pub(crate) fn from_rodeo<S>(rodeo: &'a Rodeo<K, S>) -> Self {\n        Self {\n            iter: rodeo.strings.iter().enumerate(),\n            __key: PhantomData,\n        }\n    }\n",
               "    fn over(strings: &'a [&'a str]) -> Self {\n        Self {\n            iter: strings.iter().enumerate(),\n            __key: PhantomData,\n        }\n    }\n\n    pub(crate) fn from_rodeo<S>(rodeo: &'a Rodeo<K, S>) -> Self {\n        Self::over(&rodeo.strings)\n    }\n"))]

ITERS = [
    ("i-next-back-calls-next", "Iter::next_back implemented with self.iter.next()", "fail", [(U, sub("self.iter.next_back().map(iter_element)", "self.iter.next().map(iter_element)"))]),
    ("i-nth-back-plus1", "Iter::nth_back(n) calls nth_back(n + 1)", "fail", [(U, sub("self.iter.nth_back(n).map(iter_element)", "self.iter.nth_back(n + 1).map(iter_element)"))]),
    ("i-strings-nth-back-plus1", "Strings::nth_back(n) calls nth_back(n + 1)", "fail", [(U, sub("self.iter.nth_back(n).copied()", "self.iter.nth_back(n + 1).copied()"))]),
    ("i-strings-next-calls-next-back", "Strings::next implemented with self.iter.next_back()", "fail", [(U, sub("self.iter.next().copied()", "self.iter.next_back().copied()"))]),
    ("i-strings-copied-dropped", "Strings::next without .copied() (a type error in rustc; here a reference where a value is due)", "fail", [(U, sub("self.iter.next().copied()", "self.iter.next()"))]),
    ("i-elem-no-deref", "iter_element returns `string` without the deref (a type error in rustc)", "fail", [(U, sub("        *string,\n", "        string,\n"))]),
    ("i-elem-key-plus1", "iter_element makes the key from key + 1", "fail", [(U, sub("K::try_from_usize(key)", "K::try_from_usize(key + 1)"))]),
    ("i-size-hint-const", "Iter::size_hint returns (0, None)", "fail", [(U, sub("        self.iter.size_hint()\n", "        (0, None)\n", nth=0, count=2))]),
    ("i-strings-size-hint-removed", "Strings::size_hint removed (std default (0, None); default len asserts)", "fail", [(U, sub(U_SIZE_HINT, "", nth=1, count=2))]),
    ("i-field-type-no-enumerate", "struct Iter's field typed slice::Iter (a type error in rustc; here the struct's source differs)", "fail", [(U, sub("    iter: iter::Enumerate<slice::Iter<'a, &'a str>>,\n    __key", "    iter: slice::Iter<'a, &'a str>,\n    __key"))]),
    ("i-ctor-other-field", "Iter::from_rodeo iterates another field", "fail", [(U, sub("iter: rodeo.strings.iter().enumerate(),", "iter: rodeo.other.iter().enumerate(),", nth=0, count=3))]),
    ("i-reader-iter-wrong-ctor", "RodeoReader::iter calls Iter::from_rodeo", "fail", [(RDR, sub("Iter::from_reader(self)", "Iter::from_rodeo(self)"))]),
    ("i-rodeo-strings-wrong-type", "Rodeo::strings calls Iter::from_rodeo", "fail", [(R, sub("Strings::from_rodeo(self)", "Iter::from_rodeo(self)"))]),
    ("i-into-iter-strings", "IntoIterator for &RodeoResolver calls self.strings()", "fail", [(RSV, sub("    fn into_iter(self) -> Self::IntoIter {\n        self.iter()", "    fn into_iter(self) -> Self::IntoIter {\n        self.strings()"))]),
    ("i-l-from-reader-rev", "Strings::from_reader built from .iter().rev()", "lost", [(U, sub("iter: rodeo.strings.iter(),", "iter: rodeo.strings.iter().rev(),", nth=1, count=3))]),
    ("i-l-len-override", "ExactSizeIterator for Iter gets fn len = self.iter.len() + 1", "lost", [(U, sub("impl<'a, K: Key> ExactSizeIterator for Iter<'a, K> {}", "impl<'a, K: Key> ExactSizeIterator for Iter<'a, K> {\n    fn len(&self) -> usize { self.iter.len() + 1 }\n}"))]),
    ("i-nth-override-plus1", "Iterator for Iter gets a hand-written nth = self.iter.nth(n + 1) (no other override)", "fail", [(U, sub("    type Item = (K, &'a str);\n", "    type Item = (K, &'a str);\n\n    fn nth(&mut self, n: usize) -> Option<Self::Item> {\n        self.iter.nth(n + 1).map(iter_element)\n    }\n"))]),
    ("i-l-count-override", "Iterator for Strings gets fn count", "lost", [(U, sub("    type Item = &'a str;\n", "    type Item = &'a str;\n    fn count(self) -> usize { 0 }\n"))]),
    ("i-l-zip", "Enumerate replaced by (0..).zip(..)", "lost", [(U, sub("iter: rodeo.strings.iter().enumerate(),", "iter: (0..).zip(rodeo.strings.iter()),", nth=0, count=3))]),
    ("i-l-skip", "Iter::next through .skip(1)", "lost", [(U, sub("self.iter.next().map(iter_element)", "self.iter.skip(1).next().map(iter_element)"))]),
    ("i-l-closure", "Iter::next maps another closure", "lost", [(U, sub("self.iter.next().map(iter_element)", "self.iter.next().map(|(k, s)| iter_element((k + 1, s)))"))]),
    ("i-l-unwrap-or-else", "iter_element falls back to key 0 instead of unreachable!()", "lost", [(U, sub("unwrap_or_else(|| unreachable!())", "unwrap_or_else(|| K::try_from_usize(0).unwrap())"))]),
    ("i-l-inherent-next", "an inherent Iter::next shadows the trait method", "lost", [(U, sub("fn iter_element<'a, K>(", "impl<'a, K> Iter<'a, K> {\n    pub fn next(&mut self) -> Option<usize> { None }\n}\n\nfn iter_element<'a, K>("))]),
    ("i-l-macro-impl", "a macro invocation mentioning Iter", "lost", [(U, sub("fn iter_element<'a, K>(", "more_impls!(Iter);\n\nfn iter_element<'a, K>("))]),
    ("i-h-b44-overrides", "nth / count / last overridden correctly in both Iterator impls (benign b4-4)", "pass", B44),
    ("i-ov-nth-plus1", "b4-4 with Iter::nth calling self.iter.nth(n + 1)", "fail", B44 + [(U, sub("self.iter.nth(n).map(iter_element)", "self.iter.nth(n + 1).map(iter_element)"))]),
    ("i-ov-strings-nth-plus1", "b4-4 with Strings::nth calling self.iter.nth(n + 1)", "fail", B44 + [(U, sub("self.iter.nth(n).copied()", "self.iter.nth(n + 1).copied()"))]),
    ("i-ov-last-via-next", "b4-4 with Iter::last = self.iter.next().map(iter_element)", "fail", B44 + [(U, sub("    fn last(mut self) -> Option<Self::Item> {\n        self.iter.next_back().map(iter_element)", "    fn last(mut self) -> Option<Self::Item> {\n        self.iter.next().map(iter_element)"))]),
    ("i-ov-strings-last-via-next", "b4-4 with Strings::last = self.iter.next().copied()", "fail", B44 + [(U, sub("    fn last(mut self) -> Option<Self::Item> {\n        self.iter.next_back().copied()", "    fn last(mut self) -> Option<Self::Item> {\n        self.iter.next().copied()"))]),
    ("i-ov-nth-via-nth-back", "b4-4 with Iter::nth = self.iter.nth_back(n)", "fail", B44 + [(U, sub("self.iter.nth(n).map(iter_element)", "self.iter.nth_back(n).map(iter_element)"))]),
    ("i-l-ov-count-plus1", "b4-4 with Iter::count = self.iter.len() + 1", "lost", B44 + [(U, sub("    fn count(self) -> usize {\n        self.iter.len()\n", "    fn count(self) -> usize {\n        self.iter.len() + 1\n", nth=0, count=2))]),
    ("i-l-ov-count-size-hint", "b4-4 with Strings::count = self.iter.size_hint().0", "lost", B44 + [(U, sub("    fn count(self) -> usize {\n        self.iter.len()\n", "    fn count(self) -> usize {\n        self.iter.size_hint().0\n", nth=1, count=2))]),
    ("i-l-c10-6-front-index", "Iter rebuilt as slice::Iter + a front index, nth advances one too few (seeded C10-6)", "lost", [(U, sub("    iter: iter::Enumerate<slice::Iter<'a, &'a str>>,\n    __key", "    iter: slice::Iter<'a, &'a str>,\n    front: usize,\n    __key"))]),
    ("i-h-b42-forms", "iter_element as a match, Strings::next with .map(|string| *string), Iter::from_rodeo through a helper over the slice (forms of benign b4-2)", "pass", B42),
    ("i-elem-match-plus1", "b4-2 forms with match K::try_from_usize(key + 1)", "fail", B42 + [(U, sub("match K::try_from_usize(key) {", "match K::try_from_usize(key + 1) {"))]),
    ("i-elem-match-swapped", "b4-2 forms with the pair built from the raw index instead of the key (a type error in rustc)", "fail", B42 + [(U, sub("Some(k) => (k, *string),", "Some(_k) => (key, *string),"))]),
    ("i-l-helper-rev", "b4-2 forms with the helper iterating in reverse", "lost", B42 + [(U, sub("iter: strings.iter().enumerate(),", "iter: strings.iter().rev().enumerate(),"))]),
    ("i-l-helper-other-arg", "b4-2 forms with the helper called on a sub-slice", "lost", B42 + [(U, sub("Self::over(&rodeo.strings)", "Self::over(&rodeo.strings[1..])"))]),
    ("i-h-reorder", "impl blocks and iter_element moved around", "pass", [(U, move_block("impl<'a, K> DoubleEndedIterator for Strings<'a, K>", "// slice::Iter is exact-size.\n", "impl<'a, K> Iterator for Strings<'a, K>")), (U, move_block("fn iter_element<'a, K>", "        *string,\n    )\n}\n", "// #[derive(Debug)]\n// pub struct LockedIter"))]),
    ("i-h-comments-attrs", "comments and attributes added", "pass", [(U, sub("    fn next_back(&mut self) -> Option<(K, &'a str)> {\n", "    #[inline(always)]\n    #[allow(clippy::all)]\n    // a comment\n    fn next_back(&mut self) -> Option<(K, &'a str)> {\n        /* block comment */\n"))]),
    ("i-h-rename-pattern", "iter_element's tuple pattern renamed", "pass", [(U, sub("(key, string): (usize, &&'a str)", "(idx, s): (usize, &&'a str)")), (U, sub("K::try_from_usize(key)", "K::try_from_usize(idx)")), (U, sub("        *string,", "        *s,"))]),
    ("i-h-eta", "self.iter.next().map(|e| iter_element(e))", "pass", [(U, sub("self.iter.next().map(iter_element)", "self.iter.next().map(|e| iter_element(e))"))]),
    ("i-h-rename-params", "nth_back's and a constructor's parameter renamed", "pass", [(U, sub("fn nth_back(&mut self, n: usize) -> Option<&'a str> {\n        self.iter.nth_back(n).copied()", "fn nth_back(&mut self, count: usize) -> Option<&'a str> {\n        self.iter.nth_back(count).copied()")), (U, sub("pub(crate) fn from_resolver(rodeo: &'a RodeoResolver<K>) -> Self {\n        Self {\n            iter: rodeo.strings.iter(),", "pub(crate) fn from_resolver(res: &'a RodeoResolver<K>) -> Self {\n        Self {\n            iter: res.strings.iter(),"))]),
]

SUITES = {
    "keys": {"files": [K], "runner": "run_keys.sh", "mutations": KEYS},
    "arena": {"files": [S, BK], "runner": "run_arena.sh", "mutations": ARENA},
    "lockfree": {"files": [L, AB], "runner": "run_lockfree.sh", "mutations": LOCKFREE},
    "rodeo": {"files": [R], "runner": "run_rodeo.sh", "mutations": RODEO},
    "threaded": {"files": [T], "runner": "run_threaded.sh", "mutations": THREADED},
    "views": {"files": [RDR, RSV, R], "runner": "run_views.sh", "mutations": VIEWS},
    "clone": {"files": [R], "runner": "run_clone.sh", "mutations": CLONE},
    "iters": {"files": [U, R, RDR, RSV], "runner": "run_iters.sh", "mutations": ITERS},
}
